import numpy as np, warnings, logging
warnings.filterwarnings("ignore"); logging.disable(logging.CRITICAL)
import autoarray as aa
rng=np.random.default_rng(1)
def run(kshape, signed, use_w):
    H,W=9,10
    m=np.ones((H,W),bool); m[3:6,3:7]=False; m[4,4]=True
    mask=aa.Mask2D(mask=m,pixel_scales=1.0)
    k=rng.uniform(0.1,1,size=kshape)
    if signed: k[0,0]=-0.5; k[-1,1]=-0.3
    psf=aa.Kernel2D.no_mask(k,pixel_scales=1.0)
    data=aa.Array2D.no_mask(rng.normal(size=(H,W)),pixel_scales=1.0)
    noise=aa.Array2D.no_mask(rng.uniform(0.5,2,size=(H,W)),pixel_scales=1.0)
    ds=aa.Imaging(data=data,noise_map=noise,psf=psf,use_normalized_psf=False).apply_mask(mask)
    mesh=aa.mesh.Rectangular(shape=(3,3))
    ovs=aa.OverSamplerUniform(mask=mask,sub_size=2); grid=ovs.over_sampled_grid
    mg=mesh.mapper_grids_from(mask=mask,border_relocator=None,source_plane_data_grid=grid)
    mapper=aa.Mapper(mapper_grids=mg,over_sampler=ovs,regularization=aa.reg.Constant(1.0))
    inv=aa.Inversion(dataset=ds,linear_obj_list=[mapper],settings=aa.SettingsInversion(use_w_tilde=use_w,use_positive_only_solver=False))
    return inv.data_vector, inv.curvature_matrix, type(inv).__name__
for ks in [(3,3),(3,5),(5,3)]:
    for signed in [False,True]:
        try:
            d0,f0,n0=run(ks,signed,False)
            rng=np.random.default_rng(1)
        except Exception as e:
            print(ks,signed,'mapping exc',type(e).__name__,e); continue
        rng=np.random.default_rng(1)
        d0,f0,n0=run(ks,signed,False)
        rng=np.random.default_rng(1)
        try:
            d1,f1,n1=run(ks,signed,True)
            print(ks,signed,n0,n1,'dD',np.abs(d0-d1).max(),'dF',np.abs(f0-f1).max())
        except Exception as e:
            print(ks,signed,'wtilde exc',type(e).__name__,e)
