import numpy as np, warnings
warnings.filterwarnings("ignore")
from autoarray.util.fnnls import fnnls_cholesky
rng=np.random.default_rng(0)
def kkt(A,b,s,tol=1e-7):
    g=A@s-b
    sc=max(1,np.abs(b).max())
    ok_nonneg=(s>=-1e-12).all()
    pos=s>1e-10*max(1,s.max())
    ok_pos=(np.abs(g[pos])<=tol*sc).all()
    ok_zero=(g[~pos]>=-tol*sc).all()
    return ok_nonneg and ok_pos and ok_zero
stats={}
for mode in ['cold','warm']:
    bad=0;exc=0;n_tot=0; ex=None
    for t in range(2000):
        n=int(rng.integers(2,9))
        Z=rng.normal(size=(n+int(rng.integers(0,5)),n))
        A=Z.T@Z+1e-3*np.eye(n)
        b=rng.normal(size=n)
        try:
            if mode=='warm':
                P=np.linalg.solve(A,b)>0
            else:
                P=np.zeros(0,dtype=int)
            s=fnnls_cholesky(A,b.copy(),P_initial=P)
        except Exception as e:
            exc+=1; continue
        n_tot+=1
        if not kkt(A,b,s):
            bad+=1
            if ex is None: ex=(A,b,s,P)
    stats[mode]=(n_tot,bad,exc)
    print(mode,n_tot,bad,exc)
    if ex is not None:
        A,b,s,P=ex
        print(' example n=',len(b)); print(' s=',s); print(' grad=',A@s-b); print(' P=',P)
        from scipy.optimize import nnls
        L=np.linalg.cholesky(A); 
        s2,_=nnls(L.T, np.linalg.solve(L,b)); print(' nnls ref=',s2)
