import numpy as np, warnings, logging, itertools
warnings.filterwarnings("ignore"); logging.disable(logging.CRITICAL)
import autoarray as aa
from autoconf import conf
conf.instance.push(new_path='/repo/test_autoarray/config')
rng=np.random.default_rng(3)
class Prof:
    def __init__(s,c): s.c=c
    def f(s,grid,*a,**k):
        g=np.array(grid); y,x=g[:,0],g[:,1]; c=s.c
        return c[0]+c[1]*y+c[2]*x+c[3]*y*x+c[4]*np.sin(3*y)*x**2
bad=0; tot=0
for t in range(60):
    H,W=rng.integers(3,7,2)
    m=rng.random((H,W))<0.4
    if m.all(): m[0,0]=False
    mask=aa.Mask2D(m,pixel_scales=(0.5,1.0),origin=(0.3,-0.2))
    steps=[2,3,4][:rng.integers(2,4)]
    fa=float(rng.choice([0.9,0.99,0.999])); ra=None if rng.random()<0.5 else float(rng.choice([0.01,0.1]))
    p=Prof(rng.normal(size=5))
    it=aa.OverSamplerIterate(mask=mask,sub_steps=steps,fractional_accuracy=fa,relative_accuracy=ra)
    out=np.array(it.array_via_func_from(Prof.f,p))
    # reference per pixel
    levels=[np.array(p.f(mask.derive_grid.unmasked))]
    for s in steps:
        ov=aa.OverSamplerUniform(mask=mask,sub_size=int(s))
        levels.append(np.array(ov.binned_array_2d_from(aa.ArrayIrregular(p.f(ov.over_sampled_grid)))))
    N=levels[0].shape[0]; ref=np.zeros(N)
    for k in range(N):
        val=levels[-1][k]
        for l in range(1,len(steps)):
            a,b=levels[l-1][k],levels[l][k]
            if a>0:
                fr=a/b
                if fr>1: fr=1/fr
            else: fr=0.0
            ok=fr>=fa and (ra is None or abs(a-b)<=ra)
            if ok: val=b; break
        ref[k]=val
    tot+=1
    if not np.allclose(out,ref,rtol=1e-12,atol=1e-12):
        bad+=1
        if bad<4: print('mismatch',steps,fa,ra,'\n',out,'\n',ref)
print('iterate mismatches',bad,'of',tot)
