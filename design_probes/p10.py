import numpy as np, warnings, logging
logging.disable(logging.CRITICAL)
import autoarray as aa
from autoarray.mask import mask_2d_util as mu
m=np.array([[0,0,1,1],[0,0,1,1],[1,1,1,1],[1,1,1,1]],dtype=bool)
mask=aa.Mask2D(mask=m,pixel_scales=1.0)
print('edge_slim',mask.derive_indexes.edge_slim,'edge_native',mask.derive_indexes.edge_native.tolist())
print('border_slim',mask.derive_indexes.border_slim)
m=np.array([[1,1,1,1,1],[0,0,0,1,1],[1,0,0,0,1],[1,0,0,0,1],[1,1,1,1,1]],dtype=bool)
mask=aa.Mask2D(mask=m,pixel_scales=1.0)
print('edge_slim',mask.derive_indexes.edge_slim,'edge_native',mask.derive_indexes.edge_native.tolist())
print('border_slim',mask.derive_indexes.border_slim, mask.derive_indexes.border_native.tolist())
# blurring with non-square kernel
m=np.ones((7,7),bool); m[3,3]=False
print(mu.blurring_mask_2d_from(m,(3,5)).astype(int))
try:
    m=np.ones((5,5),bool); m[1,1]=False
    print(mu.blurring_mask_2d_from(m,(5,3)).astype(int))
except Exception as e: print('exc',type(e).__name__)
