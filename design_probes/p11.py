import numpy as np, warnings, logging
warnings.filterwarnings("ignore"); logging.disable(logging.CRITICAL)
import autoarray as aa
m=aa.Mask2D(mask=[[True,False],[False,False]],pixel_scales=1.0)
g=np.arange(8.).reshape(2,2,2)+1; g0=g.copy()
aa.Grid2D(values=g,mask=m); print('Grid2D mutates caller native:',not (g==g0).all())
a=np.arange(4.).reshape(2,2)+1; a0=a.copy(); aa.Array2D(values=a,mask=m); print('Array2D mutates:',not (a==a0).all())
v=np.ones((2,2,2)); v0=v.copy()
try:
    aa.VectorYX2D(values=v,grid=aa.Grid2D.from_mask(m),mask=m); print('VectorYX2D mutates:',not (v==v0).all())
except Exception as e: print('vec exc',e)
# visibilities cached amplitude carried
vis=aa.Visibilities([1+1j,2+0j]); _=vis.amplitudes; w=vis*2
print('vis*2 amplitudes', w.amplitudes, 'expected', np.abs(np.array(w)))
vis=aa.Visibilities([1+1j,2+0j]); w=vis*2; print('fresh', w.amplitudes)
gr=aa.Grid2D.uniform((3,3),1.0); _=gr.is_uniform; h=gr*np.array([1.0,1.0]); 
gg=aa.Grid2D.no_mask(np.array([[0.,0.],[0.3,0.],[1.,0.],[5.,0.]]),shape_native=(2,2),pixel_scales=1.0)
print(type(h).__name__, 'is_uniform' in h.__dict__)
mc=aa.Mask2D.circular((7,7),2.0,1.0); r=mc.circular_radius; m2=mc.copy(); print('circular_radius carried in copy:', 'circular_radius' in m2.__dict__)
