import numpy as np, warnings, logging
warnings.filterwarnings("ignore"); logging.disable(logging.CRITICAL)
import autoarray as aa
d=(0.7,-1.3)
def mk(o):
    m=np.ones((9,9),bool); m[2:7,2:7]=False; m[4,4]=True
    return aa.Mask2D(mask=m,pixel_scales=(0.5,0.25),origin=o)
m0,m1=mk((0.,0.)),mk(d)
def diff(name,f,kind='coord'):
    try:
        a=np.array(f(m0),dtype=float); b=np.array(f(m1),dtype=float)
        if kind=='coord':
            exp=a+ (np.array(d) if a.shape[-1]==2 else 0)
            ok=np.allclose(b,exp)
        else: ok=np.allclose(a,b)
        print(f"{name:45s} {'OK' if ok else 'VIOLATES'}")
    except Exception as e: print(name,'EXC',type(e).__name__,e)
g=lambda m: aa.Grid2D.from_mask(m)
diff('from_mask',g)
diff('edge',lambda m:m.derive_grid.edge)
diff('border',lambda m:m.derive_grid.border)
diff('blurring',lambda m:aa.Grid2D.blurring_grid_from(m,(3,3)))
diff('padded_grid',lambda m:g(m).padded_grid_from((3,3)))
diff('oversampled',lambda m:aa.OverSamplerUniform(m,2).over_sampled_grid)
diff('mask_centre',lambda m:np.array(m.mask_centre))
diff('zoom_mask_unmasked grid',lambda m:aa.Grid2D.from_mask(m.zoom_mask_unmasked))
diff('zoomed_around_mask grid',lambda m:aa.Grid2D.from_mask(aa.Array2D(np.ones((9,9)),m).zoomed_around_mask(1).mask))
diff('resized',lambda m:aa.Grid2D.from_mask(m.resized_from((11,11))))
diff('radial_projected',lambda m:g(m).grid_2d_radial_projected_from(centre=m.origin))
ov=aa.image_mesh.Overlay(shape=(3,3))
diff('overlay image mesh',lambda m:ov.image_plane_mesh_grid_from(mask=m,adapt_data=None))
def ds(m):
    data=aa.Array2D.no_mask(np.arange(81.).reshape(9,9)+1,pixel_scales=m.pixel_scales,origin=m.origin)
    noise=aa.Array2D.no_mask(np.ones((9,9)),pixel_scales=m.pixel_scales,origin=m.origin)
    psf=aa.Kernel2D.no_mask(np.ones((3,3)),pixel_scales=m.pixel_scales)
    return aa.Imaging(data=data,noise_map=noise,psf=psf)
diff('apply_mask grid',lambda m:ds(m).apply_mask(m).grids.uniform)
diff('noise_scaling grid',lambda m:ds(m).apply_noise_scaling(m).grids.uniform)
diff('apply_over_sampling grid',lambda m:ds(m).apply_over_sampling().grids.uniform)
diff('trimmed grid',lambda m:ds(m).trimmed_after_convolution_from((3,3)).grids.uniform)
sim=aa.SimulatorImaging(exposure_time=100.,add_poisson_noise_to_data=False,include_poisson_noise_in_noise_map=False,psf=aa.Kernel2D.no_mask(np.ones((3,3)),pixel_scales=1.0))
diff('simulator grid',lambda m:sim.via_image_from(ds(m).data).grids.uniform)
from autoarray.dataset import preprocess
diff('s2n limit noise map grid',lambda m:aa.Grid2D.from_mask(preprocess.noise_map_with_signal_to_noise_limit_from(ds(m).data,ds(m).noise_map,2.0).mask))
try:
    hb=aa.image_mesh.Hilbert(pixels=10,weight_floor=0.1,weight_power=1.0)
    def mkc(o): return aa.Mask2D.circular(shape_native=(21,21),radius=2.0,pixel_scales=0.25,origin=o)
    c0,c1=mkc((0,0)),mkc(d)
    a=np.array(hb.image_plane_mesh_grid_from(mask=c0,adapt_data=aa.Array2D(np.ones((21,21)),c0))); b=np.array(hb.image_plane_mesh_grid_from(mask=c1,adapt_data=aa.Array2D(np.ones((21,21)),c1)))
    print('hilbert', 'OK' if np.allclose(a+np.array(d),b) else 'VIOLATES')
except Exception as e: print('hilbert EXC',type(e).__name__,e)
