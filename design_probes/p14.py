import numpy as np, warnings, logging, itertools
warnings.filterwarnings("ignore"); logging.disable(logging.CRITICAL)
from autoarray.structures.arrays import array_2d_util as au
from autoarray.layout import layout_util as lu
import autoarray as aa
bad=0
for H in range(1,8):
  for N in range(H,11):
    a=np.arange(1,H*3+1,dtype=float).reshape(H,3)
    b=au.resized_array_2d_from(a,(N,3)); c=au.resized_array_2d_from(b,(H,3))
    if not (c==a).all(): bad+=1; print('enlarge/shrink fails',H,N)
    # centred?
    rows=[i for i in range(N) if b[i].any()]
    top=rows[0]; bot=N-1-rows[-1]
    if (N-H)%2==0 and top!=bot: print('not centred',H,N,top,bot)
print('C14 enlarge-shrink bad',bad)
# crop centred
for H in range(1,9):
  for N in range(1,H+1):
    a=np.arange(1,H+1,dtype=float).reshape(H,1)
    b=au.resized_array_2d_from(a,(N,1)).ravel()
    top=int(b[0])-1; bot=H-int(b[-1])
    if (H-N)%2==0 and top!=bot: print('crop not centred',H,N,top,bot)
# pad-trim identity via Array2D
for H,W,kh,kw in itertools.product(range(1,6),range(1,6),[1,3,5],[1,3,5]):
    arr=aa.Array2D.no_mask(np.arange(1,H*W+1,dtype=float).reshape(H,W),pixel_scales=(1.0,2.0),origin=(0.5,-1.0))
    p=arr.padded_before_convolution_from((kh,kw)); t=p.trimmed_after_convolution_from((kh,kw))
    if not (t.native.array==arr.native.array).all(): print('pad-trim fail',H,W,kh,kw)
    g0=aa.Grid2D.from_mask(arr.mask).native.array; g1=aa.Grid2D.from_mask(t.mask).native.array
    if not np.allclose(g0,g1): print('coords moved',H,W,kh,kw)
print('done14')
# C19 x0x1
bad=0
for x0o,x1o,x0e,x1e in itertools.product(range(0,7),repeat=4):
    if x0o>=x1o or x0e>=x1e: continue
    r=lu.x0x1_after_extraction(x0o,x1o,x0e,x1e)
    lo=max(x0o,x0e); hi=min(x1o,x1e)
    exp=(lo-x0e,hi-x0e) if lo<hi else (None,None)
    if r!=exp: bad+=1; print(x0o,x1o,x0e,x1e,r,exp)
print('C19 bad',bad)
