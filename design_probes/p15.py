import numpy as np, warnings, logging, itertools
warnings.filterwarnings("ignore"); logging.disable(logging.CRITICAL)
import autoarray as aa
from autoconf import conf
conf.instance.push(new_path='/repo/test_autoarray/config')
rng=np.random.default_rng(1)
H,W=9,10
m=np.ones((H,W),bool); m[3:6,3:7]=False; m[4,4]=True
mask=aa.Mask2D(mask=m,pixel_scales=1.0)
k=rng.uniform(0.1,1,size=(3,3))
psf=aa.Kernel2D.no_mask(k,pixel_scales=1.0)
data=aa.Array2D.no_mask(rng.normal(size=(H,W)),pixel_scales=1.0)
noise=aa.Array2D.no_mask(rng.uniform(0.5,2,size=(H,W)),pixel_scales=1.0)
ds=aa.Imaging(data=data,noise_map=noise,psf=psf,use_normalized_psf=False).apply_mask(mask)
ovs=aa.OverSamplerUniform(mask=mask,sub_size=2); grid=ovs.over_sampled_grid
def mapper(shape, reg):
    mesh=aa.mesh.Rectangular(shape=shape)
    mg=mesh.mapper_grids_from(mask=mask,border_relocator=None,source_plane_data_grid=grid)
    return aa.Mapper(mapper_grids=mg,over_sampler=ovs,regularization=reg)
mp=mapper((3,3),aa.reg.Constant(1.0))
M=mp.mapping_matrix
print('row sums ok',np.allclose(M.sum(1),1), 'nonneg',(M>=0).all())
um=mp.unique_mappings
D=np.zeros_like(M)
for i in range(M.shape[0]):
    for c in range(um.pix_lengths[i]): D[i,um.data_to_pix_unique[i,c]]+=um.data_weights[i,c]
print('unique==dense',np.allclose(D,M))
def quantities(inv):
    return dict(D=inv.data_vector.copy(),F=np.array(inv.curvature_matrix).copy(),R=inv.regularization_matrix.copy(),s=inv.reconstruction.copy(),
       md=np.array(inv.mapped_reconstructed_data).copy(), rt=inv.regularization_term, l1=inv.log_det_curvature_reg_matrix_term, l2=inv.log_det_regularization_matrix_term)
for usew in [False,True]:
    st=aa.SettingsInversion(use_w_tilde=usew,use_positive_only_solver=False)
    base=quantities(aa.Inversion(dataset=ds,linear_obj_list=[mp],settings=st))
    inv0=aa.Inversion(dataset=ds,linear_obj_list=[mp],settings=st)
    pre=aa.Preloads(curvature_matrix=np.array(inv0.curvature_matrix).copy(),regularization_matrix=inv0.regularization_matrix.copy(),
                    log_det_regularization_matrix_term=inv0.log_det_regularization_matrix_term, operated_mapping_matrix=inv0.operated_mapping_matrix.copy() if not usew else None)
    fp=pre.curvature_matrix.copy()
    for rep in range(3):
        q=quantities(aa.Inversion(dataset=ds,linear_obj_list=[mp],settings=st,preloads=pre))
        ok=all(np.allclose(q[k],base[k]) for k in base)
        print('w_tilde',usew,'rep',rep,'same',ok,'preload curv unchanged',(pre.curvature_matrix==fp).all())
