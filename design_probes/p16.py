import numpy as np, warnings, logging, os, tempfile
warnings.filterwarnings("ignore")
logging.disable(logging.CRITICAL)
import autoarray as aa
d=tempfile.mkdtemp(); os.chdir(d)
a=aa.Array2D.no_mask(np.arange(12.).reshape(3,4),pixel_scales=(1.0,2.0))
try:
    a.output_to_fits('bare.fits'); print('bare ok', os.path.exists('bare.fits'))
except Exception as e: print('bare filename:',type(e).__name__,e)
a.output_to_fits(os.path.join(d,'sub','x.fits'))
try:
    a.output_to_fits(os.path.join(d,'sub','x.fits'))
    print('second write no error')
except Exception as e: print('exists, no overwrite:',type(e).__name__)
a.output_to_fits(os.path.join(d,'sub','x.fits'),overwrite=True)
b=aa.Array2D.from_fits(os.path.join(d,'sub','x.fits'),pixel_scales=(1.0,2.0))
print((b.native==a.native).all())
h=a.hdu_for_output
print(dict(h.header))
c=aa.Array2D.from_primary_hdu(h)
print(c.pixel_scales, (c.native==a.native).all())
from autoconf import conf
conf.instance["general"]["fits"]["flip_for_ds9"]=True
h=a.hdu_for_output
c=aa.Array2D.from_primary_hdu(h); print('flip', (c.native==a.native).all(), h.data[0])
m=aa.Mask2D(mask=[[True,False,False],[False,True,True]],pixel_scales=1.0)
c=aa.Mask2D.from_primary_hdu(m.hdu_for_output); print((np.array(c)==np.array(m)).all())
m.output_to_fits(os.path.join(d,'m.fits')); c=aa.Mask2D.from_fits(os.path.join(d,'m.fits'),pixel_scales=1.0); print((np.array(c)==np.array(m)).all())
a1=aa.Array1D.no_mask([1.,2.,3.],pixel_scales=1.0)
a1.output_to_fits(os.path.join(d,'a1.fits')); print(aa.Array1D.from_fits(os.path.join(d,'a1.fits'),pixel_scales=1.0))
k=aa.Kernel2D.no_mask(np.arange(9.).reshape(3,3),pixel_scales=1.0)
print(aa.Kernel2D.from_primary_hdu(k.hdu_for_output).native)
