import numpy as np, warnings, logging, sys, types
warnings.filterwarnings("ignore"); logging.disable(logging.CRITICAL)
# stub pylops
pl=types.ModuleType('pylops')
class LinearOperator:
    def __init__(self,*a,**k): pass
pl.LinearOperator=LinearOperator; sys.modules['pylops']=pl
import autoarray as aa
from autoconf import conf
import os
conf.instance.push(new_path='/repo/test_autoarray/config')
from autoarray.structures.mock.mock_decorators import MockGridRadialMinimum
g=aa.Grid2DIrregular([[0.0,0.0],[0.1,0.0],[0.0,-0.3],[3.0,4.0]])
o=MockGridRadialMinimum()
print(conf.instance["grids"]["radial_minimum"]["radial_minimum"]["MockGridRadialMinimum"])
print(np.array(o.deflections_yx_2d_from(grid=g)))
# C03 signed mapping
m=np.ones((5,5),bool); m[1:4,1:4]=False
mask=aa.Mask2D(m,pixel_scales=1.0)
k=aa.Kernel2D.no_mask(np.arange(9.).reshape(3,3)-2,pixel_scales=1.0)
cv=aa.Convolver(mask=mask,kernel=k)
M=np.zeros((9,2)); M[4,0]=1.0; M[4,1]=-1.0
B=cv.convolve_mapping_matrix(M); print('neg column all zero:',(B[:,1]==0).all(), 'pos col', B[:,0])
# C13
uv=np.array([[1.0,2.0],[0.0,0.0],[-3.0,0.5]])*1e4
t0=aa.TransformerDFT(uv_wavelengths=uv,real_space_mask=mask,preload_transform=False)
t1=aa.TransformerDFT(uv_wavelengths=uv,real_space_mask=mask,preload_transform=True)
img=aa.Array2D(np.arange(25.).reshape(5,5),mask)
print(np.abs(np.array(t0.visibilities_from(img))-np.array(t1.visibilities_from(img))).max())
Mm=np.random.default_rng(0).normal(size=(9,3))
T=t0.transform_mapping_matrix(Mm); 
grid=np.array(t0.grid); A=np.exp(-2j*np.pi*(np.outer(uv[:,0],grid[:,1])+np.outer(uv[:,1],grid[:,0])))
print('signed mm err',np.abs(T-A@Mm).max(), 'nonneg err', np.abs(t0.transform_mapping_matrix(np.abs(Mm))-A@np.abs(Mm)).max())
