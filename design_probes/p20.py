import numpy as np, warnings, logging
warnings.filterwarnings("ignore"); logging.disable(logging.CRITICAL)
import autoarray as aa
from autoarray.structures.triangles.coordinate_array import CoordinateArrayTriangles as CAT
from autoarray.structures.triangles.array import ArrayTriangles as AT
def canon(tris): 
    return sorted(tuple(sorted((round(float(v[0]),6),round(float(v[1]),6)) for v in t)) for t in tris)
for coords,fl in [([[0,0]],False),([[0,0]],True),([[1,0]],False),([[0,1]],False),([[-1,-3],[0,-2],[2,-2]],True)]:
    c=CAT(coordinates=np.array(coords),side_length=1.0,flipped=fl)
    arr=AT(indices=c.indices,vertices=c.vertices)
    a=canon(c.neighborhood().triangles); b=canon(arr.neighborhood().triangles)
    print(coords,fl,'flipmask',c.flip_mask.tolist(),'coordN',len(a),'arrN',len(b),'equal',a==b)
    if a!=b:
        sa,sb=set(a),set(b)
        print('  only coord:',sorted(sa-sb)); print('  only array:',sorted(sb-sa))
        print('  parent tris',canon(c.triangles)); print('  nb coords',c.neighborhood().coordinates.tolist())
