import numpy as np, warnings, logging, itertools
warnings.filterwarnings("ignore"); logging.disable(logging.CRITICAL)
import autoarray as aa
from autoconf import conf
conf.instance.push(new_path='/repo/test_autoarray/config')
rng=np.random.default_rng(5)
from autoarray.structures.grids import grid_2d_util as gu
# ---- C18
bad=0
for t in range(200):
    nb=rng.integers(3,12); border=rng.normal(size=(nb,2))*rng.uniform(0.5,2)+rng.normal(size=2)
    pts=rng.normal(size=(30,2))*3+border.mean(0)
    pts[:3]=border[:3]
    out=gu.relocated_grid_via_jit_from(pts,border)
    o=border.mean(0); rb=np.hypot(*(border-o).T); rp=np.hypot(*(pts-o).T); ro=np.hypot(*(out-o).T)
    same=(out==pts).all(1)
    if not same[rp<=rb.min()].all(): bad+=1; print('interior moved')
    if (ro>rb.max()*(1+1e-12)).any(): bad+=1; print('beyond max', ro.max(), rb.max())
    if (ro>rp*(1+1e-12)).any(): bad+=1; print('outward')
    mv=~same
    cr=np.abs(np.cross(out[mv]-o,pts[mv]-o)); 
    if (cr>1e-9).any(): bad+=1; print('off ray')
print('C18 bad',bad)
# ---- C20
from autoarray.structures.triangles.coordinate_array import CoordinateArrayTriangles as CAT
from autoarray.structures.triangles.array import ArrayTriangles as AT
def canon(tris): 
    return sorted(tuple(sorted((round(float(v[0]),9),round(float(v[1]),9)) for v in t)) for t in tris)
bad=0
for t in range(100):
    n=rng.integers(1,6); coords=rng.integers(-4,5,size=(n,2)); coords=np.unique(coords,axis=0)
    c=CAT(coordinates=coords,side_length=float(rng.choice([1.0,0.5,2.0])),x_offset=float(rng.normal()),y_offset=float(rng.normal()),flipped=bool(rng.integers(0,2)))
    up=c.up_sample()
    arr=AT(indices=c.indices,vertices=c.vertices)
    if canon(up.triangles)!=canon(arr.up_sample().triangles): bad+=1; print('upsample mismatch',coords.tolist(),c.flipped)
    if not np.isclose(up.area,c.area) or not np.isclose(arr.up_sample().area,arr.area): bad+=1; print('area')
    if canon(c.neighborhood().triangles)!=canon(arr.neighborhood().triangles): bad+=1; print('nbhd mismatch',coords.tolist(),c.flipped)
    if not np.isclose(c.area, arr.area): bad+=1; print('area reps', c.area, arr.area)
print('C20 bad',bad)
# ---- C07
from autoarray.inversion.regularization import regularization_util as ru
from autoarray.inversion.pixelization.mesh import mesh_util
bad=0
for (H,W) in itertools.product(range(3,6),range(3,6)):
    nb,sz=mesh_util.rectangular_neighbors_from((H,W)); nb=nb.astype(int); sz=sz.astype(int)
    n=H*W
    # adjacency check
    for p in range(n):
        y,x=divmod(p,W); exp=sorted(q for q in [p-W if y>0 else -1,p-1 if x>0 else -1,p+1 if x<W-1 else -1,p+W if y<H-1 else -1] if q>=0)
        if sorted(nb[p][:sz[p]].tolist())!=exp: bad+=1
    Hm=ru.constant_regularization_matrix_from(1.5,nb,sz); x=rng.normal(size=n)
    q=x@Hm@x; ref=1.5**2*sum((x[i]-x[j])**2 for i in range(n) for j in nb[i][:sz[i]] if i<j)+1e-8*(x@x)
    if not np.isclose(q,ref): bad+=1; print('const quad')
    w=rng.uniform(0.1,2,size=n); Hw=ru.weighted_regularization_matrix_from(w,nb,sz)
    q=x@Hw@x; ref=sum((w[i]**2+w[j]**2)*(x[i]-x[j])**2 for i in range(n) for j in nb[i][:sz[i]] if i<j)+1e-8*(x@x)
    if not np.isclose(q,ref): bad+=1; print('weighted quad',q,ref)
    if not np.allclose(Hm,Hm.T) or not np.allclose(Hw,Hw.T): bad+=1
print('C07 bad',bad)
