"""
harness/common.py — shared machinery of every property check (DESIGN.md §2.2, §3).

A property module `harness/props/cXX.py` defines `CHECK = <subclass of PropertyCheck>()`.
`run_check` then:
  1. builds the Lean targets of the property (+ the driver) and audits the axioms of every theorem in
     namespace CXX of Props/CXX.lean                      -> obligations / discharged
  2. generates cases, runs each on the real implementation (in-process, /repo working tree) and on the
     Lean model (compiled driver, JSON lines), canonicalises and diffs            -> correspondence
  3. evaluates the property oracle on the implementation's own outputs            -> classification
  4. on a broken proof / correspondence without an oracle failure: failing-input search
  5. writes evidence/CXX.json, replays/CXX-*.json, prints VIOLATION / KNOWN-FINDING lines.
Exit codes: 0 held (or only known findings); 1 violation; 2 internal error.
"""
from __future__ import annotations

import copy
import hashlib
import json
import os
import random
import re
import subprocess
import sys
import time
import traceback
from fractions import Fraction
from pathlib import Path

VERIF = Path(__file__).resolve().parent.parent
LEAN_DIR = VERIF / "lean"
BIN_DIR = LEAN_DIR / ".lake" / "build" / "bin"
REPO = Path(os.environ.get("VERIF_REPO", "/repo"))
ALLOWED_AXIOMS = {"propext", "Classical.choice", "Quot.sound"}
FORBIDDEN = re.compile(
    r"\b(sorry|admit|native_decide|bv_decide|implemented_by|unsafe)\b|^\s*axiom\s|maxHeartbeats\s+0\b"
)

GUARD_ENV = "PYAUTOARRAY_VERIF"


# ----------------------------------------------------------------------------------------------
# implementation import (always the current /repo working tree) and config pinning
# ----------------------------------------------------------------------------------------------
_aa = None


def load_autoarray():
    """import autoarray from REPO with the pinned config; pylops stub for TransformerDFT."""
    global _aa
    if _aa is not None:
        return _aa
    os.environ.setdefault(GUARD_ENV, "1")
    os.environ.setdefault("NUMBA_DISABLE_JIT", "1")
    if str(REPO) not in sys.path:
        sys.path.insert(0, str(REPO))
    import types

    if "pylops" not in sys.modules:
        try:
            import pylops  # noqa: F401
        except Exception:
            stub = types.ModuleType("pylops")

            class LinearOperator:  # minimal stand-in for the optional base class
                def __init__(self, *a, **k):
                    pass

            stub.LinearOperator = LinearOperator
            sys.modules["pylops"] = stub
    import warnings
    import logging

    warnings.filterwarnings("ignore")
    logging.disable(logging.WARNING)
    from autoconf import conf

    conf.instance.push(new_path=str(VERIF / "harness" / "config"))
    import autoarray as aa

    mod_file = Path(aa.__file__).resolve()
    if REPO.resolve() not in mod_file.parents:
        raise RuntimeError(f"autoarray imported from {mod_file}, expected under {REPO}")
    _aa = aa
    return aa


# ----------------------------------------------------------------------------------------------
# numbers
# ----------------------------------------------------------------------------------------------
def q(x) -> str:
    """exact "p/q" string of an int / Fraction / float / numpy scalar."""
    if isinstance(x, str):
        return x
    if isinstance(x, bool):
        return "1" if x else "0"
    if isinstance(x, int):
        return str(x)
    if isinstance(x, Fraction):
        f = x
    else:
        try:
            import numpy as np

            if isinstance(x, np.integer):
                return str(int(x))
            if isinstance(x, np.bool_):
                return "1" if x else "0"
        except Exception:
            pass
        xf = float(x)
        if xf != xf:
            return "nan"
        if xf in (float("inf"), float("-inf")):
            return "inf" if xf > 0 else "-inf"
        f = Fraction(xf)
    return str(f.numerator) if f.denominator == 1 else f"{f.numerator}/{f.denominator}"


def unq(s) -> Fraction:
    if isinstance(s, (int, Fraction)):
        return Fraction(s)
    if isinstance(s, float):
        return Fraction(s)
    return Fraction(s)


def qlist(xs):
    return [q(x) for x in xs]


def qmat(m):
    return [[q(x) for x in row] for row in m]


def dyadic(rng: random.Random, lo=-8, hi=8, bits=3) -> Fraction:
    """random dyadic rational in [lo,hi] with `bits` fractional bits (exact double)."""
    d = 1 << bits
    return Fraction(rng.randint(lo * d, hi * d), d)


def mask_json(mask_bool_2d) -> dict:
    """numpy / nested-list boolean mask (True = masked) -> protocol mask."""
    rows = [list(r) for r in mask_bool_2d]
    h = len(rows)
    w = len(rows[0]) if h else 0
    return {"h": h, "w": w, "bits": "".join("1" if b else "0" for r in rows for b in r)}


def mask_from_json(mj):
    import numpy as np

    return np.array([c == "1" for c in mj["bits"]], dtype=bool).reshape(mj["h"], mj["w"])


# ----------------------------------------------------------------------------------------------
# comparison of observations
# ----------------------------------------------------------------------------------------------
class Cmp:
    """deep comparison with exact/tolerant accounting.  Numbers may be ints, Fractions, floats or
    "p/q" strings; strings that do not parse as rationals are compared literally."""

    def __init__(self, rtol=Fraction(0), atol=Fraction(0)):
        self.rtol = Fraction(rtol)
        self.atol = Fraction(atol)
        self.exact = 0
        self.tolerant = 0

    _rat = re.compile(r"^-?\d+(/\d+)?$")

    def _num(self, x):
        if isinstance(x, bool):
            return None
        if isinstance(x, int):
            return Fraction(x)
        if isinstance(x, Fraction):
            return x
        if isinstance(x, float):
            if x != x or x in (float("inf"), float("-inf")):
                return None
            return Fraction(x)
        if isinstance(x, str) and self._rat.match(x):
            return Fraction(x)
        return None

    _bits = re.compile(r"^[01]{10,}$")

    def diff(self, a, b, path="$"):
        """None if equal else a description of the first difference."""
        if isinstance(a, str) and isinstance(b, str) and self._bits.match(a) and self._bits.match(b):
            # long 0/1 strings are mask bit strings, not numbers: a relative tolerance on the "number" would
            # hide differences in the late pixels
            if a == b:
                self.exact += 1
                return None
            k = next((i for i, (x, y) in enumerate(zip(a, b)) if x != y), min(len(a), len(b)))
            return f"{path}: bit strings differ at position {k} (lengths {len(a)}, {len(b)})"
        na, nb = self._num(a), self._num(b)
        if na is not None and nb is not None:
            if na == nb:
                self.exact += 1
                return None
            tol = max(self.atol, self.rtol * max(1, abs(na), abs(nb)))
            if abs(na - nb) <= tol:
                self.tolerant += 1
                return None
            def _f(v):  # huge integers (e.g. an all-digit bit string parsed as a number) overflow float()
                try:
                    return repr(float(v))
                except OverflowError:
                    t = str(v)
                    return f"{t[:12]}…({len(t)} digits)"
            try:
                d = f"{float(abs(na - nb)):.3e}"
            except OverflowError:
                d = "huge"
            return f"{path}: impl={_f(na)} model={_f(nb)} (|Δ|={d})"
        if isinstance(a, (list, tuple)) and isinstance(b, (list, tuple)):
            if len(a) != len(b):
                return f"{path}: length impl={len(a)} model={len(b)}"
            for i, (x, y) in enumerate(zip(a, b)):
                d = self.diff(x, y, f"{path}[{i}]")
                if d:
                    return d
            return None
        if isinstance(a, dict) and isinstance(b, dict):
            if set(a) != set(b):
                return f"{path}: keys impl={sorted(a)} model={sorted(b)}"
            for k in sorted(a):
                d = self.diff(a[k], b[k], f"{path}.{k}")
                if d:
                    return d
            return None
        if a == b:
            self.exact += 1
            return None
        return f"{path}: impl={a!r} model={b!r}"


# ----------------------------------------------------------------------------------------------
# Lean side: build, audit, driver
# ----------------------------------------------------------------------------------------------
def sh(cmd, cwd=None, timeout=3600):
    p = subprocess.run(cmd, cwd=cwd, capture_output=True, text=True, timeout=timeout)
    return p.returncode, p.stdout, p.stderr


def lake_build(targets):
    """returns (ok, log)."""
    rc, out, err = sh(["lake", "build", *targets], cwd=LEAN_DIR)
    return rc == 0, (out + err)


def source_scan(pid, extra=()):
    """grep the hand-written Lean sources for constructs the trusted base excludes."""
    hits = []
    # only the property's own transitive project-local imports (other builders' files are not its business)
    mods = set(local_import_closure(f"Props.{pid}"))
    if extra:  # loop-tie modules of the property (DESIGN §12): their hand-written proof files too
        try:
            import translate2
            for m in extra:
                mods |= set(local_import_closure(translate2.TIE_INFO[m]["tie_module"]))
        except Exception:
            pass
    files = [LEAN_DIR / (m.replace(".", "/") + ".lean") for m in sorted(mods)]
    if True:
        for f in sorted(files):
            in_block = 0
            for n, line in enumerate(f.read_text().splitlines(), 1):
                code = line
                # strip block and line comments (coarse but sufficient: no nested strings with `--`)
                out = ""
                i = 0
                while i < len(code):
                    if code.startswith("/-", i):
                        in_block += 1
                        i += 2
                    elif code.startswith("-/", i) and in_block:
                        in_block -= 1
                        i += 2
                    elif in_block:
                        i += 1
                    elif code.startswith("--", i):
                        break
                    else:
                        out += code[i]
                        i += 1
                if FORBIDDEN.search(out):
                    hits.append(f"{f.relative_to(LEAN_DIR)}:{n}: {line.strip()}")
    return hits


def audit(pid, module=None):
    """[(theorem, [axioms])] for namespace pid in module Props.pid."""
    module = module or f"Props.{pid}"
    rc, out, err = sh(["lake", "env", "lean", "--run", "Audit.lean", module, pid], cwd=LEAN_DIR)
    if rc != 0:
        raise RuntimeError(f"audit failed: {out}\n{err}")
    res = []
    for line in out.splitlines():
        line = line.strip()
        if line.startswith("{"):
            o = json.loads(line)
            res.append((o["theorem"], o["axioms"]))
    return res


def local_import_closure(module):
    """project-local modules (Model.*, Proofs.*, Props.*) transitively imported by `module`."""
    seen, todo = [], [module]
    while todo:
        m = todo.pop()
        if m in seen:
            continue
        f = LEAN_DIR / (m.replace(".", "/") + ".lean")
        if not f.exists():
            continue
        seen.append(m)
        for line in f.read_text().splitlines():
            mm = re.match(r"^\s*import\s+((?:Model|Proofs|Props|Generated)\.[A-Za-z0-9_.]+)", line)
            if mm:
                todo.append(mm.group(1))
    return sorted(seen)


def leanchecker(modules):
    """independent re-check of the compiled .olean files with Lean's external checker (thorough tier)."""
    rc, out, err = sh(["lake", "env", "leanchecker", *modules], cwd=LEAN_DIR, timeout=3600)
    return rc == 0, (out + err)[-2000:]


def regenerate_and_check(modules):
    """Second tie (DESIGN §2.5): regenerate lean/Generated/<M>.lean from the CURRENT Python source with
    harness/translate.py, build it (its tie theorems are `by rfl` against Model.*), audit them.
    Serialised by a file lock because the generated file and its build output are shared.
    returns (tie_theorems [(name, axioms)], broken | None)"""
    import fcntl
    import translate

    gdir = LEAN_DIR / "Generated"
    gdir.mkdir(exist_ok=True)
    thms, broken = [], None
    with open(gdir / ".lock", "w") as lockf:
        fcntl.flock(lockf, fcntl.LOCK_EX)
        try:
            for m in modules:
                f = gdir / f"{m}.lean"
                try:
                    src = translate.GENERATORS[m](REPO)
                except Exception as e:
                    broken = {"kind": "generated_tie", "module": m,
                              "error": f"translator: {type(e).__name__}: {e}"}
                    continue
                if not f.exists() or f.read_text() != src:
                    f.write_text(src)
                ok, log = lake_build([f"Generated.{m}"])
                if not ok:
                    failed = sorted(set(re.findall(r"error: (\S+\.lean:\d+):\d+", log)))
                    names = []
                    lines = src.splitlines()
                    for loc in failed:  # name the tie theorems that no longer check
                        ln = int(loc.split(":")[1])
                        for k in range(min(ln, len(lines)) - 1, -1, -1):
                            mm = re.match(r"theorem (\S+)", lines[k])
                            if mm:
                                names.append(f"GeneratedTie.{mm.group(1)}")
                                break
                    broken = {"kind": "generated_tie", "module": m, "theorems": sorted(set(names)),
                              "log_tail": log[-1500:]}
                else:
                    thms += audit({"Geometry": "GeneratedTie", "OverSample": "GeneratedOSTie"}.get(m, "GeneratedTie"),
                                  module=f"Generated.{m}")
        finally:
            if REPO.resolve() != Path("/repo").resolve():
                # leave the committed (real-tree) version behind after a run against a scratch tree
                for m in modules:
                    try:
                        (gdir / f"{m}.lean").write_text(translate.GENERATORS[m](Path("/repo")))
                    except Exception:
                        pass
            fcntl.flock(lockf, fcntl.LOCK_UN)
    return thms, broken


def regenerate_and_check_loops(modules):
    """Loop ties (DESIGN §12): regenerate lean/Generated/<M>.lean (definitions only) from the CURRENT Python
    source with harness/translate2.py, rebuild the hand-written tie module `Proofs.Tie*` that imports it
    (theorems `Generated.<M>.f … = Model.Impl.g …`, proved for all sizes), audit the tie theorems.
    returns (tie_theorems [(name, axioms)], broken | None)"""
    import fcntl
    import translate2

    gdir = LEAN_DIR / "Generated"
    gdir.mkdir(exist_ok=True)
    thms, broken = [], None
    with open(gdir / ".lock", "w") as lockf:
        fcntl.flock(lockf, fcntl.LOCK_EX)
        try:
            for m in modules:
                info = translate2.TIE_INFO[m]
                tie_mod, ns = info["tie_module"], info["namespace"]
                tie_file = LEAN_DIR / (tie_mod.replace(".", "/") + ".lean")
                all_ties = [f"{ns}.{n}" for n in re.findall(r"^theorem (\S+)", tie_file.read_text(), re.M)] \
                    if tie_file.exists() else [f"{ns}.*"]
                f = gdir / f"{m}.lean"
                try:
                    src = translate2.GENERATORS2[m](REPO)
                except Exception as e:
                    # the source left the translated subset (or a tied function disappeared): every tie of
                    # the module is lost
                    broken = {"kind": "loop_tie", "module": m, "theorems": all_ties,
                              "error": f"translator: {type(e).__name__}: {e}"}
                    continue
                if not f.exists() or f.read_text() != src:
                    f.write_text(src)
                ok, log = lake_build([tie_mod])
                if not ok:
                    names = []
                    tie_lines = tie_file.read_text().splitlines() if tie_file.exists() else []
                    rel = str(tie_file.relative_to(LEAN_DIR)) if tie_file.exists() else ""
                    for fn, ln in re.findall(r"error: (\S+\.lean):(\d+):\d+", log):
                        if rel and fn.endswith(rel):
                            for k in range(min(int(ln), len(tie_lines)) - 1, -1, -1):
                                mm = re.match(r"theorem (\S+)", tie_lines[k])
                                if mm:
                                    names.append(f"{ns}.{mm.group(1)}")
                                    break
                    broken = {"kind": "loop_tie", "module": m,
                              "theorems": sorted(set(names)) or all_ties, "log_tail": log[-1500:]}
                else:
                    thms += audit(ns, module=tie_mod)
        finally:
            if REPO.resolve() != Path("/repo").resolve():
                for m in modules:
                    try:
                        (gdir / f"{m}.lean").write_text(translate2.GENERATORS2[m](Path("/repo")))
                    except Exception:
                        pass
            fcntl.flock(lockf, fcntl.LOCK_UN)
    return thms, broken


def run_driver(pid, requests, timeout=3600):
    """send all requests (list of dicts) to the property's compiled model driver, return responses."""
    if not requests:
        return []
    data = "\n".join(json.dumps(r, separators=(",", ":")) for r in requests) + "\n"
    exe = BIN_DIR / f"driver_{pid.lower()}"
    p = subprocess.run([str(exe)], input=data, capture_output=True, text=True, timeout=timeout)
    if p.returncode != 0:
        raise RuntimeError(f"driver exited {p.returncode}: {p.stderr[:2000]}")
    lines = [l for l in p.stdout.splitlines() if l.strip()]
    if len(lines) != len(requests):
        raise RuntimeError(f"driver returned {len(lines)} lines for {len(requests)} requests")
    return [json.loads(l) for l in lines]


# ----------------------------------------------------------------------------------------------
# modelled-function fingerprints (search heuristic only, DESIGN §9: never part of the argument)
# ----------------------------------------------------------------------------------------------
def function_hashes(names):
    """names: ["autoarray/mask/mask_2d_util.py:mask_slim_indexes_from", "pkg/file.py:Class.method", ...]
    -> {name: sha1 of the docstring-free AST dump, or "missing"} for the current REPO tree."""
    import ast

    out = {}
    cache = {}
    for name in names:
        try:
            path, qual = name.split(":")
            if path not in cache:
                cache[path] = ast.parse((REPO / path).read_text())
            node = cache[path]
            for part in qual.split("."):
                node = next(n for n in node.body
                            if isinstance(n, (ast.FunctionDef, ast.ClassDef, ast.AsyncFunctionDef))
                            and n.name == part)
            for sub in ast.walk(node):  # drop docstrings
                if isinstance(sub, (ast.FunctionDef, ast.ClassDef)) and sub.body and isinstance(
                        sub.body[0], ast.Expr) and isinstance(getattr(sub.body[0], "value", None), ast.Constant) \
                        and isinstance(sub.body[0].value.value, str):
                    sub.body = sub.body[1:] or [ast.Pass()]
            out[name] = hashlib.sha1(ast.dump(node).encode()).hexdigest()[:16]
        except Exception:
            out[name] = "missing"
    return out


def changed_modelled_functions(chk):
    names = list(getattr(chk, "modelled_functions", []) or [])
    if not names:
        return []
    f = VERIF / "harness" / "model_map.json"
    base = json.loads(f.read_text()).get(chk.pid, {}) if f.exists() else {}
    cur = function_hashes(names)
    return sorted(n for n in names if n in base and base[n] != cur[n])


def anchor_files(pid):
    """the source files the property is anchored in (properties.jsonl `anchors.files`) plus the files of
    its modelled functions."""
    files = set()
    try:
        for line in (VERIF / "properties.jsonl").read_text().splitlines():
            p = json.loads(line)
            if p.get("id") == pid:
                files |= {f for f in p.get("anchors", {}).get("files", []) if f.endswith(".py")}
    except Exception:
        pass
    return files


_DTYPE_LIMITS = {"int8": 128, "uint8": 256, "int16": 32768, "uint16": 65536, "float16": 2048,
                 "float32": 16777216 // 2, "half": 2048, "single": 16777216 // 2}


def file_int_constants(paths, repo=None):
    """{path: sorted integer literals in [8, 10**7] of the file (incl. constant powers such as 2**16)}"""
    import ast

    out = {}
    for path in paths:
        vals = set()
        try:
            tree = ast.parse(((repo or REPO) / path).read_text())
        except Exception:
            out[path] = None
            continue
        for node in ast.walk(tree):
            v = None
            if isinstance(node, ast.Constant) and isinstance(node.value, int) and not isinstance(node.value, bool):
                v = node.value
            elif isinstance(node, ast.Constant) and isinstance(node.value, float) and node.value == int(node.value):
                v = int(node.value)
            elif isinstance(node, ast.BinOp) and isinstance(node.op, ast.Pow) and isinstance(node.left, ast.Constant) \
                    and isinstance(node.right, ast.Constant) and isinstance(node.left.value, int) \
                    and isinstance(node.right.value, int) and 0 <= node.right.value <= 24:
                v = node.left.value ** node.right.value
            elif isinstance(node, ast.BinOp) and isinstance(node.op, ast.LShift) and isinstance(node.left, ast.Constant) \
                    and isinstance(node.right, ast.Constant) and isinstance(node.left.value, int) \
                    and isinstance(node.right.value, int) and 0 <= node.right.value <= 24:
                v = node.left.value << node.right.value
            elif isinstance(node, ast.BinOp) and isinstance(node.op, ast.Mult) and isinstance(node.left, ast.Constant) \
                    and isinstance(node.right, ast.Constant) and isinstance(node.left.value, int) \
                    and isinstance(node.right.value, int):
                v = node.left.value * node.right.value
            # narrowed dtypes bound the values / indices an array can hold: treat the bound as a size constant
            name = node.attr if isinstance(node, ast.Attribute) else node.id if isinstance(node, ast.Name) else \
                node.value if isinstance(node, ast.Constant) and isinstance(node.value, str) else None
            if name in _DTYPE_LIMITS:
                vals.add(_DTYPE_LIMITS[name])
            if v is not None and 8 <= v <= 10 ** 7:
                vals.add(v)
        out[path] = sorted(vals)
    return out


def size_hints(chk):
    """Search heuristic (DESIGN §13, never part of the argument): integer constants that appear in the
    property's anchored / modelled source files NOW but not in the recorded baseline
    (harness/model_map.json["__consts__"]).  A size-gated fast path, a block size, an iteration period or
    a dtype limit introduced by a change shows up here; the generators then place cases on both sides of
    each constant (`generate_large`)."""
    files = sorted(anchor_files(chk.pid) | {n.split(":")[0] for n in (getattr(chk, "modelled_functions", []) or [])})
    f = VERIF / "harness" / "model_map.json"
    base = json.loads(f.read_text()).get("__consts__", {}) if f.exists() else {}
    cur = file_int_constants(files)
    hints = set()
    for path in files:
        if base.get(path) is None or cur.get(path) is None:
            continue
        hints |= set(cur[path]) - set(base[path])
    return sorted(hints)


# ----------------------------------------------------------------------------------------------
# the property-check base class
# ----------------------------------------------------------------------------------------------
class Skip(Exception):
    """raised by run_impl / compare when a case falls inside the property's own exclusion band."""


class PropertyCheck:
    pid = "C00"
    title = ""
    lean_targets = None  # default: [f"Props.{pid}"]
    rtol = Fraction(0)  # comparison tolerance for real outputs (0 = exact)
    atol = Fraction(0)
    nontrivial_rule = "case has at least one unmasked and one masked pixel / non-degenerate input"
    trusted_extra = []  # property-specific trusted-base entries
    # "path/under/repo.py:function" or "path.py:Class.method" of every Python function the Lean model
    # transliterates; when one of them differs from the fingerprint recorded in harness/model_map.json
    # the quick tier generates with the thorough budget (bounded by escalation_budget_s)
    modelled_functions = []
    escalation_budget_s = 240
    search_budget_s = {"quick": 60, "thorough": 600}

    # -- to be provided by the property module -------------------------------------------------
    def generate(self, tier: str, rng: random.Random):
        """yield case dicts.  Required keys: 'tag' (generator class, for the distribution histogram).
        Everything else is up to the property; cases must be JSON-serialisable."""
        raise NotImplementedError

    size_hints = []  # set by the runner: new integer constants in the anchored source (see size_hints())

    def generate_large(self, hints, rng: random.Random):
        """yield cases whose sizes (pixels, sub-pixels, mesh pixels, kernel pixels, baselines, points,
        iterations … whatever the property's code loops over) straddle each hint: just below, at, just above,
        a non-multiple above (c + c//3 + 1) and 2c+1.  Only called when `hints` is non-empty, i.e. when the
        anchored source gained an integer constant; keep each case as cheap as the size allows."""
        return []

    def corpus(self):
        """minimised past disagreements / defect witnesses: run first on every tier."""
        d = VERIF / "harness" / "corpus" / self.pid
        out = []
        if d.is_dir():
            for f in sorted(d.glob("*.json")):
                c = json.loads(f.read_text())
                c.setdefault("tag", "corpus")
                c["corpus_file"] = f.name
                out.append(c)
        return out

    def run_impl(self, case):
        """call the real code; return a JSON-able canonical observation.  Map documented exceptions
        to {"err": kind}."""
        raise NotImplementedError

    def model_requests(self, case, impl_obs):
        """list of driver request dicts for this case (may use implementation-side tables that the
        property does not itself constrain, e.g. Qhull output)."""
        raise NotImplementedError

    def model_obs(self, case, responses):
        """fold driver responses into an observation comparable with run_impl's."""
        r = responses[0]
        return r["ok"] if "ok" in r else {"err": r.get("err")}

    def compare(self, case, impl_obs, model_obs, cmp: Cmp):
        return cmp.diff(impl_obs, model_obs)

    def oracle(self, case, impl_obs):
        """the property stated directly on the implementation's outputs: (holds, detail).
        Used only to classify disagreements and to find failing inputs (DESIGN §2.2)."""
        return True, ""

    def nontrivial(self, case, impl_obs):
        return True

    def known_finding(self, case, impl_obs):
        """id of the known_findings.json entry this failing case belongs to, or None."""
        return None

    def shrink(self, case):
        """yield smaller variants of a case (optional)."""
        return []

    def theorems_for(self, case):
        """names of theorems whose link to the code a disagreement on this case breaks."""
        return [f"{self.pid}.*"]

    def sample_view(self, case):
        """compact form of a case for evidence['coverage']['samples']."""
        return {k: v for k, v in case.items() if k not in ("_impl",)}


# ----------------------------------------------------------------------------------------------
# runner
# ----------------------------------------------------------------------------------------------
def case_key(case):
    c = {k: v for k, v in case.items() if not k.startswith("_") and k != "corpus_file"}
    return hashlib.sha1(json.dumps(c, sort_keys=True, default=str).encode()).hexdigest()


def load_known():
    """committed known findings: known_findings.json (merged file) plus the per-property fragments
    known_findings.d/*.json it is generated from.  Read-only: nothing is ever added at run time."""
    out = {"findings": [], "fixed": []}
    f = VERIF / "known_findings.json"
    if f.exists():
        out = json.loads(f.read_text())
    seen = {x.get("id") for x in out.get("findings", [])}
    d = VERIF / "known_findings.d"
    if d.is_dir():
        for frag in sorted(d.glob("*.json")):
            try:
                fr = json.loads(frag.read_text())
            except Exception:
                continue
            for x in fr.get("findings", []):
                if x.get("id") not in seen:
                    out.setdefault("findings", []).append(x)
                    seen.add(x.get("id"))
    return out


def write_replay(pid, payload):
    d = VERIF / "replays"
    d.mkdir(exist_ok=True)
    h = hashlib.sha1(json.dumps(payload, sort_keys=True, default=str).encode()).hexdigest()[:12]
    p = d / f"{pid}-{h}.json"
    p.write_text(json.dumps(payload, indent=1, default=str))
    return p.relative_to(VERIF)


def safe_impl(chk, case):
    try:
        return chk.run_impl(case), None
    except Skip as s:
        return None, ("skip", str(s))
    except Exception as e:  # undocumented exception: reported as an observation, never swallowed
        return {"err": f"{type(e).__name__}", "msg": str(e)[:300]}, None


def run_check(chk: PropertyCheck, tier: str, seed: int, replay: str | None = None,
              max_cases: int | None = None):
    t0 = time.time()
    pid = chk.pid
    known = load_known()
    known_ids = {f["id"]: f for f in known.get("findings", []) if f.get("property") == pid}
    lines_out = []
    violations = []  # (replay_path, no_failing_input_found)
    known_seen = {}

    def emit(s):
        print(s, flush=True)
        lines_out.append(s)

    # ---------------------------------------------------------------- 1. proofs
    targets = chk.lean_targets or [f"Props.{pid}"]
    drv = f"driver_{pid.lower()}"
    ok_build, build_log = lake_build([*targets, drv])
    proof_broken = []
    thms = []
    if not ok_build:
        failed = sorted(set(re.findall(r"error: (\S+\.lean):\d+", build_log)))
        proof_broken.append({"kind": "build", "files": failed, "log_tail": build_log[-3000:]})
        # the driver may still be buildable on its own
        ok_drv, _ = lake_build([drv])
        if not ok_drv:
            emit(f"INTERNAL: model driver does not build\n{build_log[-3000:]}")
            return 2
    else:
        thms = audit(pid)
    gen_mods = list(getattr(chk, "generated_modules", []) or [])
    tie_thms = []
    if gen_mods and not replay:
        tie_thms, tie_broken = regenerate_and_check(gen_mods)
        thms = thms + tie_thms
        if tie_broken:
            proof_broken.append(tie_broken)
    loop_mods = list(getattr(chk, "loop_tie_modules", []) or [])
    if loop_mods and not replay:
        loop_thms, loop_broken = regenerate_and_check_loops(loop_mods)
        tie_thms = tie_thms + loop_thms
        thms = thms + loop_thms
        if loop_broken:
            proof_broken.append(loop_broken)
    scan_hits = source_scan(pid, extra=loop_mods) if ok_build else []
    bad_axioms = [(t, a) for t, a in thms if not set(a) <= ALLOWED_AXIOMS]
    obligations = len(thms)
    discharged = len(thms) - len(bad_axioms)
    if ok_build and (bad_axioms or scan_hits or obligations == 0):
        proof_broken.append({"kind": "audit", "bad_axioms": bad_axioms, "scan_hits": scan_hits,
                             "obligations": obligations})
    rechecked = None
    if ok_build and tier == "thorough" and not replay:
        mods = local_import_closure(f"Props.{pid}")
        if loop_mods:
            try:
                import translate2
                for m in loop_mods:
                    mods = sorted(set(mods) | set(local_import_closure(translate2.TIE_INFO[m]["tie_module"])))
            except Exception:
                pass
        ok_lc, lc_log = leanchecker(mods)
        rechecked = {"modules": mods, "ok": ok_lc}
        if not ok_lc:
            proof_broken.append({"kind": "leanchecker", "log_tail": lc_log})

    # ---------------------------------------------------------------- 2/3. correspondence + oracle
    load_autoarray()
    rng = random.Random(seed)
    changed_fns = [] if replay else changed_modelled_functions(chk)
    hints = [] if replay else size_hints(chk)
    chk.size_hints = hints
    if hints:
        changed_fns = changed_fns + [f"new integer constants in anchored source: {hints}"]
    n_base = None
    if replay:
        rp = json.loads(Path(replay).read_text())
        cases = [rp["input"]] if "input" in rp and rp["input"] else []
    else:
        cases = list(chk.corpus())
        for c in chk.generate(tier, rng):
            cases.append(c)
            if max_cases and len(cases) >= max_cases:
                break
        n_base = len(cases)
        if tier == "quick" and changed_fns and not max_cases:
            # modelled code changed: after the complete quick set, look harder with the thorough
            # generators for a bounded extra time (heuristic, see DESIGN §9)
            t_gen = time.time()
            rng2 = random.Random(seed * 1000003 + 17)
            if hints:  # constant-directed cases first: sizes on both sides of every new constant
                try:
                    for c in chk.generate_large(hints, rng2):
                        c.setdefault("tag", "large")
                        cases.append(c)
                        if time.time() - t_gen > chk.escalation_budget_s / 2:
                            break
                except Exception as e:
                    print(f"NOTE: generate_large failed: {type(e).__name__}: {e}", flush=True)
            t_gen = time.time()
            for c in chk.generate("thorough", rng2):
                cases.append(c)
                if time.time() - t_gen > chk.escalation_budget_s / 4 and len(cases) - n_base > 200:
                    break

    tags = {}
    evaluated = []
    skipped = 0
    impl_errs = {}
    t_extra0 = None
    for k_case, c in enumerate(cases):
        if n_base is not None and k_case >= n_base:
            # extra (escalated) cases: bounded effort; the complete quick set above is never cut
            t_extra0 = t_extra0 or time.time()
            if time.time() - t_extra0 > chk.escalation_budget_s / 2:
                break
            c["_extra"] = True
        obs, sk = safe_impl(chk, c)
        if sk:
            skipped += 1
            continue
        if isinstance(obs, dict) and "err" in obs and len(obs) <= 2:
            impl_errs[obs["err"]] = impl_errs.get(obs["err"], 0) + 1
        tags[c.get("tag", "?")] = tags.get(c.get("tag", "?"), 0) + 1
        evaluated.append((c, obs))

    # Order-of-evaluation stream (DESIGN §15): a spread sample of the base cases is evaluated a SECOND time, in
    # reverse order, in this same process, after everything else has run.  An implementation that is a function
    # of its inputs gives the same observation; one with process-wide state (a memo keyed too loosely, a class-
    # level cache of a config value, a buffer handed out twice) may not.  A changed observation is not reported
    # by itself: it is appended as one more evaluated case and goes through the model comparison and the oracle
    # like every other case (so only an observation that now VIOLATES something is reported).
    n_rerun = n_rerun_changed = 0
    if not replay and getattr(chk, "rerun_sample", 160) and evaluated:
        base = [(c, o) for c, o in evaluated if not c.get("_extra")]
        want = min(len(base), int(getattr(chk, "rerun_sample", 160)))
        step = max(1, len(base) // max(1, want))
        t_impl = max(1.0, time.time() - t0)
        t_rr = time.time()
        budget = min(20.0, 0.08 * t_impl + 2.0)
        for c, o in reversed(base[::step]):
            if time.time() - t_rr > budget:
                break
            c2 = copy.deepcopy({k: v for k, v in c.items() if k != "_extra"})
            o2, sk = safe_impl(chk, c2)
            n_rerun += 1
            if sk:
                continue
            try:  # observations are normally JSON-able; some large cases carry raw ndarrays (repr via default=str
                #   would truncate them), so those are compared by dtype / shape / bytes
                def _canon(v):
                    if hasattr(v, "tobytes") and hasattr(v, "shape"):
                        return f"ndarray:{getattr(v, 'dtype', '')}:{v.shape}:{hashlib.sha1(v.tobytes()).hexdigest()}"
                    return str(v)
                same = (json.dumps(o2, sort_keys=True, default=_canon)
                        == json.dumps(o, sort_keys=True, default=_canon))
            except Exception:
                same = True  # not comparable: never turn that into a report
            if same:
                continue
            n_rerun_changed += 1
            c2["tag"] = str(c2.get("tag", "?")) + "+rerun"
            c2["_rerun"] = True
            tags[c2["tag"]] = tags.get(c2["tag"], 0) + 1
            k_ins = next((k for k, (cc, _) in enumerate(evaluated) if cc.get("_extra")), len(evaluated))
            evaluated.insert(k_ins, (c2, o2))  # keep "base cases first, escalated extras last"

    # model side, batched.  The complete base set always goes through the driver; the extra (escalated)
    # cases go in chunks under a time budget — what does not fit is judged by the oracle alone.
    n_eval_base = len(evaluated) if n_base is None else sum(1 for c, _ in evaluated if not c.get("_extra"))
    reqs, spans = [], []
    for c, obs in evaluated:
        try:
            rs = chk.model_requests(c, obs)
        except Skip:
            rs = []
        spans.append((len(reqs), len(reqs) + len(rs)))
        reqs.extend(rs)
    n_req_base = spans[n_eval_base - 1][1] if n_eval_base and spans else 0
    if n_eval_base >= len(evaluated):
        resps = run_driver(pid, reqs)
    else:
        resps = run_driver(pid, reqs[:n_req_base])
        t_drv = time.time()
        k = n_eval_base
        model_dropped = 0
        while k < len(evaluated):
            k2 = min(len(evaluated), k + 150)
            a0, b0 = spans[k][0], spans[k2 - 1][1]
            if time.time() - t_drv > chk.escalation_budget_s:
                for q in range(k, len(evaluated)):
                    spans[q] = (0, 0)
                    model_dropped += 1
                break
            resps.extend(run_driver(pid, reqs[a0:b0]))
            k = k2
        if model_dropped:
            print(f"NOTE: {model_dropped} escalated cases judged by the oracle only (driver time budget)", flush=True)

    cmp = Cmp(chk.rtol, chk.atol)
    disagreements = []
    oracle_fail = []
    distinct = set()
    compared = 0
    for (c, obs), (a, b) in zip(evaluated, spans):
        holds, detail = True, ""
        try:
            holds, detail = chk.oracle(c, obs)
        except Skip:
            pass
        except Exception as e:
            holds, detail = False, f"oracle raised {type(e).__name__}: {e}"
        if not holds:
            oracle_fail.append((c, obs, detail))
        d = None
        mobs = None
        if b > a:
            try:
                mobs = chk.model_obs(c, resps[a:b])
                d = chk.compare(c, obs, mobs, cmp)
                compared += 1
            except Skip:
                d = None
        if d:
            disagreements.append((c, obs, mobs, d))
        try:
            if chk.nontrivial(c, obs):
                distinct.add(case_key(c))
        except Exception:
            pass

    if replay:
        for c, obs in evaluated:
            print("INPUT ", json.dumps(chk.sample_view(c), default=str)[:4000])
            print("IMPL  ", json.dumps(obs, default=str)[:4000])
        for (c, obs), (a, b) in zip(evaluated, spans):
            if b > a:
                print("MODEL ", json.dumps(chk.model_obs(c, resps[a:b]), default=str)[:4000])
        for c, obs, detail in oracle_fail:
            print("ORACLE fails:", detail)
        for c, obs, mobs, d in disagreements:
            print("DISAGREE:", d)

    # ---------------------------------------------------------------- 4. classify
    def report_case(c, obs, mobs, detail, kind, broken=None):
        kf = None
        try:
            kf = chk.known_finding(c, obs)
        except Exception:
            kf = None
        if kf and kf in known_ids:
            known_seen.setdefault(kf, (c, detail))
            return
        payload = {
            "property": pid, "seed": seed, "tier": tier, "kind": kind, "input": chk.sample_view(c),
            "impl_output": obs, "model_output": mobs, "oracle": {"holds": False, "detail": detail},
            "broken": broken, "repro": f"./check {pid} --replay <this file>",
        }
        violations.append((write_replay(pid, payload), False))

    seen_fail_keys = set()
    n_minimised = 0
    for c, obs, detail in oracle_fail:
        if n_minimised >= 25:  # many failures shrinking to few witnesses: enough has been minimised
            break
        kf0 = None
        try:
            kf0 = chk.known_finding(c, obs)
        except Exception:
            kf0 = None
        if kf0 and kf0 in known_ids and kf0 in known_seen:
            continue  # this recorded finding has already been reported once in this run
        n_minimised += 1
        c2, obs2, detail2 = minimise(chk, c, obs, detail)
        k = case_key(c2)
        if k in seen_fail_keys:
            continue
        seen_fail_keys.add(k)
        report_case(c2, obs2, None, detail2, "oracle")
        if len(violations) >= 3:
            break

    fail_keys = {case_key(c) for c, _, _ in oracle_fail}
    unexplained = [x for x in disagreements if case_key(x[0]) not in fail_keys]
    searched = 0
    if (unexplained or proof_broken) and not violations and not replay:
        # failing-input search on the real code with the thorough generators
        found, searched = failing_input_search(chk, tier, seed, t0)
        for c, obs, detail in found[:3]:
            report_case(c, obs, None, detail, "search")
        if not violations:
            if unexplained:
                c, obs, mobs, d = unexplained[0]
                payload = {
                    "property": pid, "seed": seed, "tier": tier, "kind": "correspondence",
                    "input": chk.sample_view(c), "impl_output": obs, "model_output": mobs,
                    "oracle": {"holds": True, "detail": "property oracle holds on this input"},
                    "broken": {"kind": "correspondence", "first_difference": d,
                               "disagreeing_cases": len(unexplained),
                               "names": chk.theorems_for(c)},
                    "search": {"cases_tried": searched, "failing_input": None},
                    "repro": f"./check {pid} --replay <this file>",
                }
                violations.append((write_replay(pid, payload), True))
            else:
                payload = {
                    "property": pid, "seed": seed, "tier": tier, "kind": "proof", "input": None,
                    "broken": {"kind": "theorem", "details": proof_broken,
                               "names": [t for t, a in bad_axioms]
                               or [n for b in proof_broken for n in b.get("theorems", [])]
                               or [f"{pid}.* (build failed)"]},
                    "search": {"cases_tried": searched, "failing_input": None},
                }
                violations.append((write_replay(pid, payload), True))

    # ---------------------------------------------------------------- 5. evidence + report
    for kf, (c, detail) in known_seen.items():
        f = known_ids[kf]
        emit(f"KNOWN-FINDING: property={pid} {kf} {f.get('call_site','')}: {f.get('what','')}")
    samples = [chk.sample_view(c) for c, _ in evaluated[:2]]
    if len(evaluated) > 4:
        samples.append(chk.sample_view(evaluated[len(evaluated) // 2][0]))
        samples.append(chk.sample_view(evaluated[-1][0]))
    samples = json.loads(json.dumps(samples, default=str))
    evidence = {
        "property_id": pid,
        "tier": tier,
        "seed": seed,
        "level": "proof",
        "coverage": {
            "obligations": obligations,
            "discharged": discharged,
            "checker_cmd": f"cd lean && lake build {' '.join(targets)} && lake env lean --run Audit.lean Props.{pid} {pid}",
            "trusted_base": [
                "Lean 4.33.0 kernel; Mathlib v4.33.0 as installed",
                "axioms accepted: propext, Classical.choice, Quot.sound (audited per theorem on this run)",
                "hand transliteration Python -> Model/*.lean, validated by the correspondence run counted below",
                "Lean compiler/runtime executing the driver; JSON-lines protocol; Python harness",
                *chk.trusted_extra,
            ],
            "theorems": [t for t, _ in thms],
            "generated_tie_theorems": [t for t, _ in tie_thms],
            "axioms_used": sorted({a for _, ax in thms for a in ax}),
            "evaluations": len(evaluated),
            "distinct_nontrivial": len(distinct),
            "rule": chk.nontrivial_rule,
            "samples": samples or [{"note": "no cases"}],
            "traces_validated_against_impl": compared,
            "disagreements_checked": len(disagreements),
            "oracle_failures": len(oracle_fail),
            "comparisons_exact": cmp.exact,
            "comparisons_tolerant": cmp.tolerant,
            "skipped_in_exclusion_band": skipped,
            "input_distribution": tags,
            "order_of_evaluation_stream": {"cases_evaluated_twice": n_rerun,
                                           "observation_changed_on_second_evaluation": n_rerun_changed},
            "impl_exception_kinds": impl_errs,
            "known_findings_seen": sorted(known_seen),
            "failing_input_search_cases": searched,
            "leanchecker": rechecked,
            "modelled_functions": len(getattr(chk, "modelled_functions", []) or []),
            "modelled_functions_changed": changed_fns,
            "size_hints": hints,
            "exhaustive": bool(getattr(chk, "exhaustive_note", {}).get(tier)),
            "exhaustive_note": getattr(chk, "exhaustive_note", {}).get(tier, ""),
        },
        "assumptions": list(getattr(chk, "assumptions", [])),
        "wall_s": round(time.time() - t0, 2),
        "violations": len(violations),
    }
    if not replay:
        # VERIF_EVIDENCE_DIR is only set by tools/run_mutant.sh so that mutant runs never overwrite the
        # evidence of the real tree
        edir = Path(os.environ.get("VERIF_EVIDENCE_DIR") or (VERIF / "evidence"))
        edir.mkdir(exist_ok=True, parents=True)
        (edir / f"{pid}.json").write_text(json.dumps(evidence, indent=1))
    for path, nofail in violations:
        emit(f"VIOLATION property={pid} replay={path}" + (" no-failing-input-found" if nofail else ""))
    if not violations:
        emit(f"OK property={pid} tier={tier} seed={seed} theorems={discharged}/{obligations} "
             f"cases={len(evaluated)} compared={compared} exact={cmp.exact} tolerant={cmp.tolerant} "
             f"known={sorted(known_seen)} wall={evidence['wall_s']}s")
    return 1 if violations else 0


def minimise(chk, c, obs, detail, budget=200):
    """greedy shrinking of an oracle failure.  A shrink step never leaves the class of the original
    failure: a failure that is NOT a recorded known finding is never shrunk into one (it would then be
    filed as known and silently dropped)."""
    def _kf(case, o):
        try:
            return chk.known_finding(case, o)
        except Exception:
            return None

    kf_orig = _kf(c, obs)
    steps = 0
    improved = True
    while improved and steps < budget:
        improved = False
        for c2 in chk.shrink(c):
            steps += 1
            o2, sk = safe_impl(chk, c2)
            if sk:
                continue
            try:
                h, d = chk.oracle(c2, o2)
            except Exception:
                continue
            if not h:
                if _kf(c2, o2) != kf_orig:
                    continue
                c, obs, detail = c2, o2, d
                improved = True
                break
            if steps >= budget:
                break
    return c, obs, detail


def failing_input_search(chk, tier, seed, t0):
    """evaluate only implementation + oracle on fresh thorough-tier cases within a time budget."""
    budget = chk.search_budget_s.get(tier, 60)
    start = time.time()
    found = []
    tried = 0
    for s in range(1, 6):
        rng = random.Random(seed * 7919 + s)
        gens = chk.generate("thorough", rng)
        if s == 1 and getattr(chk, "size_hints", None):
            import itertools
            try:
                gens = itertools.chain(list(chk.generate_large(chk.size_hints, rng)), gens)
            except Exception:
                pass
        for c in gens:
            if time.time() - start > budget:
                return found, tried
            o, sk = safe_impl(chk, c)
            if sk:
                continue
            tried += 1
            try:
                h, d = chk.oracle(c, o)
            except Skip:
                continue
            except Exception as e:
                h, d = False, f"oracle raised {type(e).__name__}: {e}"
            if not h:
                try:
                    if chk.known_finding(c, o):
                        continue
                except Exception:
                    pass
                found.append(minimise(chk, c, o, d))
                if len(found) >= 3:
                    return found, tried
    return found, tried
