"""
harness/gen.py — shared structured generators (DESIGN.md Appendix B).
Masks are lists of lists of bool, True = masked.  Every generator takes the one PRNG of the run.
"""
from __future__ import annotations

import itertools
import random
from fractions import Fraction


def all_masks(h, w, min_unmasked=1):
    """every boolean mask of shape h×w with at least `min_unmasked` unmasked pixels."""
    n = h * w
    for bits in range(1 << n):
        if n - bin(bits).count("1") < min_unmasked:
            continue
        yield [[bool((bits >> (y * w + x)) & 1) for x in range(w)] for y in range(h)]


def shapes_upto(cells, min_side=1, max_side=None):
    out = []
    for h in range(min_side, (max_side or cells) + 1):
        for w in range(min_side, (max_side or cells) + 1):
            if h * w <= cells:
                out.append((h, w))
    return out


def full(h, w, val=True):
    return [[val] * w for _ in range(h)]


def mask_block(h, w, y0, y1, x0, x1):
    m = full(h, w)
    for y in range(max(0, y0), min(h, y1)):
        for x in range(max(0, x0), min(w, x1)):
            m[y][x] = False
    return m


def mask_stats(m):
    h, w = len(m), len(m[0]) if m else 0
    un = sum(1 for r in m for b in r if not b)
    ring = any(
        not m[y][x]
        for y in range(h)
        for x in range(w)
        if y in (0, h - 1) or x in (0, w - 1)
    )
    return {"h": h, "w": w, "unmasked": un, "ring_contact": ring}


def random_mask(rng: random.Random, h, w, margin=0, kind=None):
    """structured random mask; `margin` rows/cols on each side stay masked (kernel footprint).
    returns (mask, kind)."""
    kinds = ["block", "blocks", "annulus", "cross", "diagonal", "bernoulli", "all", "ring_touching",
             "single"]
    kind = kind or rng.choice(kinds)
    ih, iw = h - 2 * margin, w - 2 * margin
    if ih <= 0 or iw <= 0:
        return full(h, w), "empty"
    inner = [[True] * iw for _ in range(ih)]

    def unm(y, x):
        if 0 <= y < ih and 0 <= x < iw:
            inner[y][x] = False

    if kind == "all":
        inner = [[False] * iw for _ in range(ih)]
    elif kind == "single":
        unm(rng.randrange(ih), rng.randrange(iw))
    elif kind == "block":
        y0, x0 = rng.randrange(ih), rng.randrange(iw)
        y1, x1 = rng.randint(y0 + 1, ih), rng.randint(x0 + 1, iw)
        for y in range(y0, y1):
            for x in range(x0, x1):
                unm(y, x)
    elif kind == "blocks":
        for _ in range(rng.randint(2, 3)):
            y0, x0 = rng.randrange(ih), rng.randrange(iw)
            for y in range(y0, min(ih, y0 + rng.randint(1, 2))):
                for x in range(x0, min(iw, x0 + rng.randint(1, 2))):
                    unm(y, x)
    elif kind == "annulus":
        for y in range(ih):
            for x in range(iw):
                inner[y][x] = False
        if ih >= 3 and iw >= 3:
            y0, x0 = rng.randint(1, ih - 2), rng.randint(1, iw - 2)
            inner[y0][x0] = True
            if rng.random() < 0.5 and x0 + 1 < iw - 1:
                inner[y0][x0 + 1] = True
    elif kind == "cross":
        cy, cx = rng.randrange(ih), rng.randrange(iw)
        for y in range(ih):
            unm(y, cx)
        for x in range(iw):
            unm(cy, x)
    elif kind == "diagonal":
        for k in range(min(ih, iw)):
            unm(k, k)
            if rng.random() < 0.3:
                unm(k, iw - 1 - k)
    elif kind == "ring_touching":
        for _ in range(rng.randint(1, 4)):
            side = rng.randrange(4)
            if side == 0:
                unm(0, rng.randrange(iw))
            elif side == 1:
                unm(ih - 1, rng.randrange(iw))
            elif side == 2:
                unm(rng.randrange(ih), 0)
            else:
                unm(rng.randrange(ih), iw - 1)
        for _ in range(rng.randint(0, 3)):
            unm(rng.randrange(ih), rng.randrange(iw))
    else:  # bernoulli
        p = rng.choice([0.2, 0.5, 0.8])
        for y in range(ih):
            for x in range(iw):
                inner[y][x] = rng.random() < p
    if all(b for r in inner for b in r):
        unm(rng.randrange(ih), rng.randrange(iw))
    m = full(h, w)
    for y in range(ih):
        for x in range(iw):
            m[y + margin][x + margin] = inner[y][x]
    return m, kind


def dyadic(rng, lo=-8, hi=8, bits=3):
    d = 1 << bits
    return Fraction(rng.randint(lo * d, hi * d), d)


def pos_dyadic(rng, lo_num=1, hi=8, bits=2):
    d = 1 << bits
    return Fraction(rng.randint(lo_num, hi * d), d)


def distinct_ints(rng, n, lo=1, hi=None, signed=True):
    hi = hi or max(10, 3 * n)
    vals = rng.sample(range(lo, hi + lo + n), n)
    if signed:
        vals = [v if rng.random() < 0.5 else -v for v in vals]
    return vals


def odd_kernel_shape(rng, max_side=5):
    sides = [s for s in (1, 3, 5, 7) if s <= max_side]
    return rng.choice(sides), rng.choice(sides)


def kernel_values(rng, kh, kw, signed=True, zeros=True):
    out = []
    for _ in range(kh):
        row = []
        for _ in range(kw):
            v = rng.randint(-3 if signed else 0, 4)
            if not zeros and v == 0:
                v = 1
            row.append(Fraction(v))
        out.append(row)
    if all(v == 0 for r in out for v in r):
        out[kh // 2][kw // 2] = Fraction(1)
    return out


SCALES = [Fraction(1, 4), Fraction(1, 2), Fraction(3, 4), Fraction(1), Fraction(3, 2), Fraction(2),
          Fraction(3)]


def scales_pair(rng):
    return rng.choice(SCALES), rng.choice(SCALES)


def origin_pair(rng):
    return dyadic(rng, -4, 4, 3), dyadic(rng, -4, 4, 3)
