"""C01 — slim and native forms are exact, order-preserving inverses under any mask."""
from __future__ import annotations

import copy as _copy
import hashlib
import itertools
import json
import math
from fractions import Fraction

import numpy as np

import gen
from common import PropertyCheck, Skip, load_autoarray, mask_json, q, qlist


def _mask2d(aa, m, scales=(1.0, 1.0), origin=(0.0, 0.0)):
    return aa.Mask2D(mask=np.array(m, dtype=bool), pixel_scales=scales, origin=origin)


# ======================================================================================================
# Round-4 hardening, part 1: REUSE HISTORIES on real objects (kind "hist")
#
# A history is a list of typed steps on a small world of real library objects: one or two masks (Mask2D, or
# Mask1D when case["dim"] == 1), DeriveIndexes2D objects the user keeps, and named structures.  `_hist_walk`
# is pure bookkeeping on the INPUT (what the mask bits / the values of every structure are after each step);
# it yields one snapshot per observing step.  Every observation is compared with the model's value and the
# oracle's direct expectation for a FRESH object in the state of the snapshot.
# ======================================================================================================
class HistInvalid(Exception):
    """the history is not well-formed (only raised for shrink candidates)"""


_INDEX_NAMES = {"nfs": "native_for_slim", "unm": "unmasked_slim", "msk": "masked_slim", "pix": "pixels_in_mask"}
_ARITH = {"mul2": lambda v: 2 * v, "neg": lambda v: -v, "add1": lambda v: v + 1}


def _mask_state(mj, dim1):
    if dim1:
        return {"h": None, "w": len(mj["bits"]), "bits": [c == "1" for c in mj["bits"]]}
    return {"h": mj["h"], "w": mj["w"], "bits": [c == "1" for c in mj["bits"]]}


def _cell_index(ms, cell):
    if ms["h"] is None:
        i = cell[0]
        if not 0 <= i < ms["w"]:
            raise HistInvalid("cell")
        return i
    y, x = cell[0], cell[1]
    if not (0 <= y < ms["h"] and 0 <= x < ms["w"]):
        raise HistInvalid("cell")
    return y * ms["w"] + x


def _hist_walk(case):
    """yield a snapshot dict for every observing step (read_index / read_struct) of the history"""
    dim1 = case.get("dim") == 1
    masks = [_mask_state(mj, dim1) for mj in case["masks"]]
    structs = {}
    for st in case["steps"]:
        op = st["op"]
        if op in ("hold_di", "decoy", "caller_edit"):
            if "name" in st and (st["name"] not in structs or not structs[st["name"]]["alive"]):
                raise HistInvalid("name")
            if op == "caller_edit":
                s = structs[st["name"]]
                if s["struct"] != "array" or s["container"] == "list":
                    raise HistInvalid("caller_edit")
            if "m" in st and not 0 <= st["m"] < len(masks):
                raise HistInvalid("m")
        elif op == "read_index":
            if dim1 or not 0 <= st["m"] < len(masks):
                raise HistInvalid("read_index")
            ms = masks[st["m"]]
            yield {"what": "index", "h": ms["h"], "w": ms["w"], "bits": list(ms["bits"]), "order": st["order"]}
        elif op == "edit_mask":
            ms = masks[st["m"]]
            for cell in st["cells"]:
                ms["bits"][_cell_index(ms, cell)] = bool(cell[-1])
            if all(ms["bits"]):
                raise HistInvalid("no unmasked pixel left")
            for s in structs.values():  # structures built on the old mask contents have no defined meaning now
                if s["m"] == st["m"]:
                    s["alive"] = False
        elif op == "build":
            ms = masks[st["m"]]
            n_un = ms["bits"].count(False)
            want = len(ms["bits"]) if st["form"] == "native" else n_un
            if len(st["values"]) != want:
                raise HistInvalid("values length")
            if (st["struct"] == "array1d") != dim1:
                raise HistInvalid("struct")
            structs[st["name"]] = {"struct": st["struct"], "m": st["m"], "form": st["form"], "sn": st["sn"],
                                   "vals": list(st["values"]), "container": st.get("container", "float"),
                                   "alive": True}
        elif op == "read_struct":
            s = structs.get(st["name"])
            if s is None or not s["alive"]:
                raise HistInvalid("name")
            ms = masks[s["m"]]
            yield {"what": "struct", "struct": s["struct"], "h": ms["h"], "w": ms["w"], "bits": list(ms["bits"]),
                   "form": s["form"], "sn": s["sn"], "vals": list(s["vals"]), "views": st["views"]}
        elif op == "edit_struct":
            s = structs.get(st["name"])
            if s is None or not s["alive"] or (s["form"] == "native") != s["sn"]:
                raise HistInvalid("edit_struct")
            if not 0 <= st["index"] < len(s["vals"]):
                raise HistInvalid("index")
            s["vals"][st["index"]] = st["value"]
        elif op == "derive":
            s = structs.get(st["from"])
            if s is None or not s["alive"]:
                raise HistInvalid("from")
            how = st["how"]
            d = dict(s)
            if how in _ARITH:
                f = _ARITH[how]
                if s["struct"] in ("array", "array1d"):
                    d["vals"] = [q(f(Fraction(v))) for v in s["vals"]]
                else:
                    d["vals"] = [[q(f(Fraction(a))), q(f(Fraction(b)))] for a, b in s["vals"]]
            elif how in ("copy", "deepcopy"):
                d["vals"] = list(s["vals"])
            else:
                raise HistInvalid("how")
            structs[st["name"]] = d
        elif op == "fault":
            how = st["how"]
            if how == "stale_read":
                s = structs.get(st["name"])
                if s is None or not s["alive"]:
                    raise HistInvalid("name")
                ms = masks[s["m"]]
                i = _cell_index(ms, st["cell"])
                bits = list(ms["bits"])
                bits[i] = not bits[i]
                if all(bits):
                    raise HistInvalid("stale_read")
            elif not 0 <= st.get("m", 0) < len(masks):
                raise HistInvalid("m")
        else:
            raise HistInvalid(f"op {op}")


def _snap_mask_json(snap):
    return {"h": snap["h"], "w": snap["w"], "bits": "".join("1" if b else "0" for b in snap["bits"])}


def _snap_requests(snap):
    """driver requests for a FRESH object in the snapshot's state"""
    if snap["what"] == "index":
        mk = _snap_mask_json(snap)
        return [{"op": "c01.native_for_slim", "mask": mk},
                {"op": "c01.mask_slim_indexes", "mask": mk, "flag": False},
                {"op": "c01.mask_slim_indexes", "mask": mk, "flag": True},
                {"op": "c01.total_pixels", "mask": mk}]
    if snap["struct"] == "array1d":
        return [{"op": "c01.array1d_convert", "bits": "".join("1" if b else "0" for b in snap["bits"]),
                 "values": snap["vals"], "store_native": snap["sn"]}]
    op = "c01.array_convert" if snap["struct"] == "array" else "c01.grid_convert"
    return [{"op": op, "mask": _snap_mask_json(snap), "form": snap["form"], "values": snap["vals"],
             "store_native": snap["sn"]}]


def _snap_fold(snap, responses):
    for r in responses:
        if "err" in r:
            return {"err": r["err"]}
    if snap["what"] == "index":
        full = {"native_for_slim": responses[0]["ok"], "unmasked_slim": responses[1]["ok"],
                "masked_slim": responses[2]["ok"], "pixels_in_mask": responses[3]["ok"]}
        return {_INDEX_NAMES[k]: full[_INDEX_NAMES[k]] for k in snap["order"]}
    r = responses[0]["ok"]
    st = r["stored"]
    out = {"stored": st["stored"] if isinstance(st, dict) else st}
    for v in snap["views"]:
        out[v] = r[v]
    return out


def _conv_for(struct):
    if struct in ("array", "array1d"):
        return (lambda x: Fraction(x)), 0
    return (lambda x: (Fraction(x[0]), Fraction(x[1]))), (0, 0)


def _expected_views(struct, bits, form, vals):
    """the property, directly: (.slim, .native) of a structure whose constructor received `vals` in `form`"""
    conv, zero = _conv_for(struct)
    v = [conv(x) for x in vals]
    unm = [i for i, b in enumerate(bits) if not b]
    exp_slim = v if form == "slim" else [v[i] for i in unm]
    exp_native = [zero] * len(bits)
    for k, i in enumerate(unm):
        exp_native[i] = exp_slim[k]
    return exp_slim, exp_native


def _oracle_snapshot(snap, got, where):
    if isinstance(got, dict) and "err" in got:
        return False, f"{where}: the read raised {got}"
    if snap["what"] == "index":
        w, bits = snap["w"], snap["bits"]
        unm = [i for i, b in enumerate(bits) if not b]
        msk = [i for i, b in enumerate(bits) if b]
        exp = {"native_for_slim": [[i // w, i % w] for i in unm], "unmasked_slim": unm, "masked_slim": msk,
               "pixels_in_mask": len(unm)}
        for k in snap["order"]:
            name = _INDEX_NAMES[k]
            if got.get(name) != exp[name]:
                return False, (f"{where}: {name} does not describe the mask as it is now "
                               f"(got {got.get(name)}, the mask's unmasked flat indices are {unm})")
        return True, ""
    conv, _ = _conv_for(snap["struct"])
    exp_slim, exp_native = _expected_views(snap["struct"], snap["bits"], snap["form"], snap["vals"])
    for view, exp in (("slim", exp_slim), ("native", exp_native)):
        if view in snap["views"] and [conv(x) for x in got[view]] != exp:
            return False, (f"{where}: .{view} of the {snap['struct']} (input form {snap['form']}, "
                           f"store_native={snap['sn']}) is not what a freshly built equal object reports")
    want = "native" if snap["sn"] else "slim"
    if got.get("stored") != want:
        return False, f"{where}: stored form {got.get('stored')} != requested {want}"
    return True, ""


def _np_values(struct, form, vals, h, w):
    if struct in ("array", "array1d"):
        a = np.array([float(Fraction(v)) for v in vals])
        if form == "native" and struct == "array":
            a = a.reshape(h, w)
        return a
    a = np.array([[float(Fraction(p[0])), float(Fraction(p[1]))] for p in vals]).reshape(-1, 2)
    if form == "native":
        a = a.reshape(h, w, 2)
    return a


def _box(a, cont):
    if cont == "int":
        return a.astype(np.int64)
    if cont == "list":
        return a.tolist()
    if cont == "fortran":
        return np.array(a, order="F", copy=True)
    return a


def _flat_view(struct, arr):
    arr = np.asarray(arr)
    if struct in ("array", "array1d"):
        return qlist(arr.ravel())
    return [qlist(p) for p in arr.reshape(-1, 2)]


def _quiet(f):
    try:
        return f()
    except Exception:
        return None


def _decoy_mask(mask, dim1):
    """read every OTHER public derived quantity of a mask (results and exceptions are ignored)"""
    if dim1:
        for n in ("pixels_in_mask", "shape_slim", "shape_native", "is_all_false", "is_all_true", "geometry",
                  "derive_grid", "pixel_scale", "native"):
            _quiet(lambda n=n: getattr(mask, n))
        _quiet(lambda: np.asarray(mask.derive_grid.all_false))
        return
    for grp, names in (("derive_indexes", ("edge_slim", "border_slim", "edge_native", "border_native")),
                       ("derive_mask", ("edge", "border", "all_false", "edge_buffed")),
                       ("derive_grid", ("unmasked", "edge", "border", "all_false"))):
        g = _quiet(lambda grp=grp: getattr(mask, grp))
        if g is None:
            continue
        for n in names:
            _quiet(lambda g=g, n=n: np.asarray(getattr(g, n)))
    for n in ("geometry", "shape_native", "shape_slim", "pixels_in_mask", "is_all_false", "is_all_true",
              "mask_centre", "shape_native_masked_pixels", "zoom_centre", "zoom_offset_pixels", "zoom_region",
              "zoom_shape_native", "zoom_mask_unmasked", "native", "pixel_scale", "is_circular",
              "circular_radius", "hdu_for_output"):
        _quiet(lambda n=n: getattr(mask, n))
    _quiet(lambda: mask.derive_mask.blurring_from(kernel_shape_native=(3, 3)))


def _decoy_struct(s):
    for n in ("native_skip_mask", "binned_across_rows", "binned_across_columns", "shape_slim", "shape_native",
              "total_pixels", "geometry", "unmasked_grid", "origin", "pixel_area", "total_area", "pixel_scales",
              "derive_indexes", "derive_mask", "derive_grid", "store_native", "values", "magnitudes", "y", "x",
              "flipped", "in_radians", "is_uniform", "scaled_minima", "scaled_maxima",
              "shape_native_scaled_interior", "original_orientation", "readout_offsets", "hdu_for_output"):
        _quiet(lambda n=n: getattr(s, n))
    _quiet(lambda: np.asarray(s.native.array))
    _quiet(lambda: np.asarray(s.slim.array))
    _quiet(lambda: np.asarray(s.derive_indexes.native_for_slim))


def _shrink_hist(case):
    steps = case["steps"]
    for i in range(len(steps) - 1, -1, -1):
        cand = {**case, "steps": steps[:i] + steps[i + 1:]}
        try:
            if not list(_hist_walk(cand)):
                continue
        except HistInvalid:
            continue
        yield cand
    if len(case["masks"]) > 1 and not any(st.get("m", 0) == 1 for st in steps):
        yield {**case, "masks": case["masks"][:1]}


# ======================================================================================================
# Round-4 hardening, part 2: SIZE-DIRECTED large cases (kind "large"), judged by a vectorised oracle
#
# A large case is a compact RECIPE (shape, mask recipe, value flavour), expanded deterministically with
# integer numpy arithmetic, so evidence and replays stay small.  The implementation's arrays are summarised
# losslessly enough for an exact verdict: shape + sha1 of the float64 bytes + probes at fixed positions.
# ======================================================================================================
_MASK_CACHE = {}
_U = np.uint64


def _mix(a, b, seed):
    """deterministic 64-bit integer hash of two index arrays (wrap-around arithmetic, no RNG involved)"""
    with np.errstate(over="ignore"):
        z = a.astype(_U) * _U(0x9E3779B97F4A7C15) + b.astype(_U) * _U(0xBF58476D1CE4E5B9) \
            + _U((seed * 0x94D049BB133111EB + 0x2545F4914F6CDD1D) % (1 << 64))
        z ^= z >> _U(30)
        z = z * _U(0xBF58476D1CE4E5B9)
        z ^= z >> _U(27)
        z = z * _U(0x94D049BB133111EB)
        z ^= z >> _U(31)
    return z


def _expand_mask(case):
    """numpy bool array (True = masked): (h, w), or (L,) for the 1-D cases"""
    rc = case["mask_recipe"]
    key = json.dumps([case.get("h"), case.get("w"), case.get("L"), rc], sort_keys=True)
    if key in _MASK_CACHE:
        return _MASK_CACHE[key]
    if case["sub"] == "1d":
        h, w = 1, case["L"]
    else:
        h, w = case["h"], case["w"]
    yy, xx = np.mgrid[0:h, 0:w]
    kind, seed = rc["kind"], rc.get("seed", 0)
    hv = _mix(yy, xx, seed)
    if kind == "full":
        m = np.zeros((h, w), dtype=bool)
    elif kind == "hash":
        m = (hv % _U(1000)) < _U(rc.get("dens", 400))
    elif kind == "annulus":
        # elliptical annulus, off-centre, in integer arithmetic; masked outside and in the hole
        cy, cx = (2 * h) // 5, (4 * w) // 7
        r2 = ((yy - cy) * (yy - cy)) * (w * w) + ((xx - cx) * (xx - cx)) * (h * h)
        hw2 = (h * h) * (w * w)
        m = (r2 * 9 > hw2) | (r2 * 150 < hw2)
        m |= (hv % _U(1000)) < _U(30)  # isolated masked pixels inside
    else:
        raise ValueError(f"mask recipe {kind}")
    if kind != "full":
        # unmasked pixels on every side of the frame, the four corners' neighbourhood, a fully unmasked row,
        # isolated unmasked pixels in the last column / last row
        m[0, : min(7, w)] = False
        m[h - 1, max(0, w - 3):] = False
        m[min(5, h - 1): min(9, h), w - 1] = False
        if h > 4:
            m[h // 2, :] = False
        if w > 4:
            m[::5, 0] = False
        if h > 2 and w > 2:
            m[h // 3, :: 5] = True
            m[1, 1] = True
    n_t = rc.get("n_unmasked")
    if n_t is not None:
        n_t = max(1, min(int(n_t), h * w))
        flat = m.ravel()
        order = np.argsort(hv.ravel(), kind="stable")  # a fixed pseudo-random order of the pixels
        cur = int((~flat).sum())
        if cur > n_t:
            cand = order[~flat[order]]
            flat[cand[: cur - n_t]] = True
        elif cur < n_t:
            cand = order[flat[order]]
            flat[cand[: n_t - cur]] = False
        m = flat.reshape(h, w)
    if not (~m).any():
        m[h - 1, w - 1] = False
    if case["sub"] == "1d":
        m = m.reshape(w)
    if len(_MASK_CACHE) > 6:
        _MASK_CACHE.clear()
    _MASK_CACHE[key] = m
    return m


def _expand_values(case, n):
    """n distinct non-zero exact doubles (signed; flavour 'fine' needs > 24 mantissa bits, 'quarter' is dyadic)"""
    i = np.arange(n, dtype=np.int64)
    sign = np.where((_mix(i, i * 0 + 7, case.get("vseed", 0)) & _U(1)).astype(bool), 1.0, -1.0)
    base = (i + 1).astype(np.float64)
    fl = case.get("flavour", "int")
    if fl == "quarter":
        base = base / 4.0
    elif fl == "fine":
        base = base + (1 + (i % 3)).astype(np.float64) * 2.0 ** -20
    return sign * base


def _digest(arr):
    a = np.ascontiguousarray(np.asarray(arr), dtype=np.float64) + 0.0  # -0.0 -> 0.0
    flat = a.ravel()
    n = flat.size
    pos = sorted(set(list(range(min(8, n))) + list(range(max(0, n - 8), n))
                     + [int(k * (n - 1) // 15) for k in range(16) if n > 0]))
    return {"shape": [int(d) for d in a.shape], "sha": hashlib.sha1(flat.tobytes()).hexdigest(),
            "probe": {str(p): q(float(flat[p])) for p in pos}}


def _digest_eq(name, got, exp_arr):
    exp = _digest(exp_arr)
    if got == exp:
        return True, ""
    if got.get("shape") != exp["shape"]:
        return False, f"{name} has shape {got.get('shape')}, expected {exp['shape']}"
    for p in sorted(exp["probe"], key=int):
        if got.get("probe", {}).get(p) != exp["probe"][p]:
            return False, (f"{name} differs from the expected array, e.g. flat entry {p}: got "
                           f"{got.get('probe', {}).get(p)}, expected {exp['probe'][p]}")
    return False, f"{name} differs from the expected array (sha1 of the float64 bytes; the probed entries agree)"


def _factor_pairs(t):
    out = []
    a = 1
    while a * a <= t:
        if t % a == 0:
            out.append((a, t // a))
        a += 1
    return out


def _frame_shapes(t, c):
    """non-square shapes (both orientations) with exactly t pixels, or — when t has no reasonably balanced
    factorisation — the degenerate 1 x t frame plus the nearest size away from c that has one"""
    shapes = []

    def balanced(tt):
        ps = [(a, b) for a, b in _factor_pairs(tt) if a != b and b <= 6 * a]
        return ps[-1] if ps else None

    p = balanced(t)
    if p:
        shapes += [p, (p[1], p[0])]
    else:
        if t <= 70000:
            shapes += [(1, t), (t, 1)]
        step = -1 if t < c else 1
        tt = t + step
        while tt > 1 and abs(tt - t) < 64:
            p = balanced(tt)
            if p:
                shapes += [p, (p[1], p[0])]
                break
            tt += step
    r = math.isqrt(t)
    if r * r == t:
        shapes.append((r, r))
    return shapes


def _shrink_large(case):
    rc = case["mask_recipe"]
    if rc["kind"] != "full" and "n_unmasked" not in rc:
        yield {**case, "mask_recipe": {"kind": "full"}}
    if case.get("flavour", "int") != "int":
        yield {**case, "flavour": "int"}
    if case.get("container", "float") != "float":
        yield {**case, "container": "float"}

    def fix(c):
        rc2 = dict(c["mask_recipe"])
        if "n_unmasked" in rc2:
            size = c["L"] if c["sub"] == "1d" else c["h"] * c["w"]
            rc2["n_unmasked"] = max(1, min(rc2["n_unmasked"], size))
        return {**c, "mask_recipe": rc2}

    if case["sub"] == "1d":
        L = case["L"]
        for L2 in (L // 2, L - 1024, L - 64, L - 8, L - 1):
            if 1 <= L2 < L:
                yield fix({**case, "L": L2})
    else:
        h, w = case["h"], case["w"]
        for dh, dw in ((h - h // 2, 0), (0, w - w // 2), (64, 0), (0, 64), (8, 0), (0, 8), (1, 0), (0, 1)):
            h2, w2 = h - dh, w - dw
            if h2 >= 1 and w2 >= 1 and (h2, w2) != (h, w):
                yield fix({**case, "h": h2, "w": w2})
    n = rc.get("n_unmasked")
    if n is not None:
        for n2 in (n // 2, n - 1024, n - 64, n - 8, n - 1):
            if 1 <= n2 < n:
                yield {**case, "mask_recipe": {**rc, "n_unmasked": n2}}


# ======================================================================================================
# Round 5/6 hardening: VARIANT WORLDS (kind "var")
#
# One case = one small world (mask bits + exact values + requested form / storage) together with HOW it is
# presented to the public API and over which history:
#   mp      presentation of the mask: memory layout / dtype / container of the array handed to Mask2D / Mask1D,
#           construction route (plain, from an existing mask object, the same with an explicit origin of exactly
#           (0.0, 0.0), through `invert=True` on the complement), pixel scales and origin (decades)
#   vp      presentation of the values: layout / dtype / container, or wrapped in an existing structure
#           (slim stored / natively stored / natively stored with junk under the mask / result of arithmetic)
#   opts    constructor options, passed exactly as given ("set but falsy" values, numpy bools, a header, over
#           sampling objects, positional arguments, explicit defaults of every other parameter of the signature)
#   rounds  ownership / configuration history: every round sets `general.structures.native_binned_only`, builds
#           the world from FRESH equal inputs (or on the reused mask object), observes, and then optionally
#           scribbles in place over every array the API returned or accepted
# Every round's observation is compared with the Lean model's value for a fresh world in that state (existing
# driver ops) and with the oracle's direct statement.  All comparisons are exact: C01's code never computes
# with the values (they are copied and multiplied by 0 / 1), so every finite double must come back bit for bit.
# ======================================================================================================
_TOK = {"F": False, "T": True, "0": 0, "1": 1, "npF": np.False_, "npT": np.True_}
_VAL_LAYS = ("c", "f", "tview", "strided", "neg", "ro", "list", "f32", "i64", "i32")
_MASK_LAYS = ("c", "f", "tview", "strided", "neg", "ro", "list", "u8", "i64", "f32")
_CFG_KEY = ("general", "structures", "native_binned_only")


def _tok(opts, name):
    """python value of an option token; an absent option is not passed (default False)"""
    return _TOK[opts[name]] if name in opts else False


def _present(a, lay):
    """`a` (C-contiguous ndarray) as an equal-valued object in another layout / dtype / container.
    Returns (object handed to the API, ndarray to fingerprint for the caller's-buffer check or None)."""
    a = np.array(a, order="C", copy=True)  # never hand out (a view of) the harness's own buffer
    if lay == "tview" and a.ndim < 2:
        lay = "strided"
    if lay == "c":
        out = a
    elif lay == "f":
        out = np.array(a, order="F", copy=True)
    elif lay == "tview":  # a transposed view of a C-contiguous buffer
        out = np.array(a.swapaxes(0, 1), order="C", copy=True).swapaxes(0, 1)
    elif lay == "strided":  # every other element of a larger buffer filled with sentinels
        big = np.full(tuple(2 * s + 1 for s in a.shape), 99, dtype=a.dtype)
        sl = tuple(slice(1, None, 2) for _ in a.shape)
        big[sl] = a
        out = big[sl]
    elif lay == "neg":  # negative stride along the first axis
        out = np.array(a[::-1], order="C", copy=True)[::-1]
    elif lay == "ro":
        out = a.copy()
        out.flags.writeable = False
    elif lay == "list":
        return a.tolist(), None
    elif lay in ("f32", "i64", "i32", "u8"):
        dt = {"f32": np.float32, "i64": np.int64, "i32": np.int32, "u8": np.uint8}[lay]
        with np.errstate(all="ignore"):
            out = a.astype(dt)
            back = out.astype(a.dtype)
        if not np.array_equal(back, a):  # not representable in that dtype: present it plainly
            out = a.copy()
    else:
        raise ValueError(f"layout {lay}")
    return out, out


def _exact_floats(vals):
    """float64 values of exact "p/q" strings; Skip when one is not a double (never for generated cases)"""
    out = []
    for v in vals:
        fr = Fraction(v)
        try:
            f = float(fr)
        except OverflowError:
            raise Skip("value outside the float64 range")
        if Fraction(f) != fr:
            raise Skip("value is not an exact double")
        out.append(f)
    return out


def _var_np_values(case):
    """C-contiguous float64 ndarray of the case's values in the input form"""
    struct, form = case["struct"], case["form"]
    mj = case["mask"]
    if struct in ("array", "array1d", "grid1d"):
        a = np.array(_exact_floats(case["values"]), dtype=np.float64)
        if struct == "array" and form == "native":
            a = a.reshape(mj["h"], mj["w"])
        return a
    flat = _exact_floats([c for p in case["values"] for c in p])
    a = np.array(flat, dtype=np.float64).reshape(-1, 2)
    if form == "native":
        a = a.reshape(mj["h"], mj["w"], 2)
    return a


def _var_bits(case):
    return [c == "1" for c in case["mask"]["bits"]]


def _var_stored_native(case, flag):
    """does the constructor store natively?  (`native_binned_only` forces it for Array2D only)"""
    return bool(_tok(case.get("opts", {}), "store_native")) or (bool(flag) and case["struct"] == "array")


def _var_expect(case, flag):
    """the property, directly (Fractions): what one round of the history must report"""
    struct = case["struct"]
    bits = _var_bits(case)
    pair = struct in ("grid", "vector")
    conv = (lambda x: (Fraction(x[0]), Fraction(x[1]))) if pair else (lambda x: Fraction(x))
    zero = (Fraction(0), Fraction(0)) if pair else Fraction(0)
    v = [conv(x) for x in case["values"]]
    unm = [i for i, b in enumerate(bits) if not b]
    slim = v if case["form"] == "slim" else [v[i] for i in unm]
    native = [zero] * len(bits)
    for k, i in enumerate(unm):
        native[i] = slim[k]
    sn = _var_stored_native(case, flag)
    skip = bool(_tok(case.get("opts", {}), "skip_mask")) and struct == "array"
    if not sn:
        arr = slim
    elif skip and case["form"] == "native":
        arr = v  # the caller asked for the masking to be skipped: junk under the mask is kept as given
    else:
        arr = native
    exp = {"stored": "native" if sn else "slim", "array": arr, "slim": slim, "native": native}
    if struct == "array":
        exp["nsm"] = arr if sn else native
    return exp, conv


def _var_flat(struct, arr):
    arr = np.asarray(arr)
    if struct in ("grid", "vector"):
        return [qlist(p) for p in arr.reshape(-1, 2)]
    return qlist(arr.ravel())


def _set_native_only(value):
    from autoconf import conf

    conf.instance[_CFG_KEY[0]][_CFG_KEY[1]][_CFG_KEY[2]] = bool(value)


def _scribble(arrs, how):
    """overwrite, in place, every writeable ndarray in `arrs` (arrays the API returned or accepted)"""
    for a in arrs:
        if not isinstance(a, np.ndarray) or a.size == 0:
            continue
        try:
            if a.dtype == bool:
                a[...] = ~a if how == "add1" else True
            elif how == "add1":
                a += 1
            elif a.dtype.kind == "f":
                a[...] = np.nan
            else:
                a[...] = -7
        except (ValueError, TypeError):
            pass  # read-only buffer


def _var_wellformed(case):
    struct, form, mj = case["struct"], case["form"], case["mask"]
    dim1 = struct in ("array1d", "grid1d")
    if dim1 != (case.get("dim") == 1):
        return False
    bits = mj["bits"]
    if "0" not in bits:
        return False
    if not dim1 and len(bits) != mj["h"] * mj["w"]:
        return False
    n = len(bits) if form == "native" else bits.count("0")
    if len(case["values"]) != n:
        return False
    via = case.get("vp", {}).get("via", "plain")
    if via in ("struct_junk", "arith") and not (struct == "array" and form == "native"):
        return False
    opts = case.get("opts", {})
    if via in ("struct_slim", "struct_native") and struct == "array" and bool(_tok(opts, "skip_mask")):
        return False
    if via in ("no_mask", "apply_mask"):
        if "store_native" in opts or "skip_mask" in opts or case.get("reuse_mask"):
            return False
        if via == "no_mask" and "1" in bits:
            return False
        if via == "apply_mask" and not (struct in ("array", "vector") and form == "native"):
            return False
    mp = case.get("mp", {})
    if mp.get("via") in ("invert", "invert_from_mask") and mp.get("lay", "c") in ("u8", "i64", "f32"):
        return False  # `invert` is a bitwise NOT: only meaningful for boolean input
    return bool(case.get("rounds"))


def _shrink_var(case):
    def ok(c):
        return _var_wellformed(c)

    # the rounds of a history are never dropped: a failure caused by process-wide state (a memo handing out a
    # scribbled buffer, a cached configuration value) would shrink, inside this process, to a history that
    # passes when replayed in a fresh one
    for key in ("index", "util", "reuse_mask"):
        if case.get(key):
            yield {**case, key: False}
    vp = case.get("vp", {})
    if vp.get("via", "plain") != "plain":
        yield {**case, "vp": {**vp, "via": "plain"}}
    if vp.get("lay", "c") != "c":
        yield {**case, "vp": {**vp, "lay": "c"}}
    mp = case.get("mp", {})
    if mp.get("via", "plain") != "plain":
        yield {**case, "mp": {**mp, "via": "plain"}}
    if mp.get("lay", "c") != "c":
        yield {**case, "mp": {**mp, "lay": "c"}}
    if mp.get("scales") or mp.get("origin"):
        yield {**case, "mp": {k: v for k, v in mp.items() if k not in ("scales", "origin")}}
    opts = case.get("opts", {})
    for k in list(opts):
        c = {**case, "opts": {kk: vv for kk, vv in opts.items() if kk != k}}
        if ok(c):
            yield c


class C01(PropertyCheck):
    pid = "C01"
    title = "slim/native inverses"
    nontrivial_rule = (
        "exhaustive masks per shape (every mask with >=1 unmasked pixel) + structured random masks; "
        "a case is non-trivial when the mask has both masked and unmasked pixels; distinct = distinct "
        "(op, mask, values, form, storage)"
    )
    exhaustive_note = {
        "quick": "all masks with >=1 unmasked pixel for every shape with H*W <= 9 (index ops) and H*W <= 6 (constructors)",
        "thorough": "all masks with >=1 unmasked pixel for every shape with H*W <= 14 (index ops) and H*W <= 9 (constructors)",
    }
    # loop ties (DESIGN §12): Generated/LoopsSlim.lean is regenerated from the source on every run and
    # Proofs/TieSlim.lean proves each generated definition equal to the Impl function, for all sizes
    loop_tie_modules = ["LoopsSlim", "LoopsSlim2"]
    modelled_functions = [
        "autoarray/mask/mask_2d_util.py:native_index_for_slim_index_2d_from",
        "autoarray/mask/mask_2d_util.py:mask_slim_indexes_from",
        "autoarray/mask/mask_2d_util.py:total_pixels_2d_from",
        "autoarray/structures/arrays/array_2d_util.py:array_2d_slim_from",
        "autoarray/structures/arrays/array_2d_util.py:array_2d_native_from",
        "autoarray/structures/arrays/array_2d_util.py:array_2d_via_indexes_from",
        "autoarray/structures/arrays/array_2d_util.py:convert_array_2d",
        "autoarray/structures/arrays/array_2d_util.py:check_array_2d_and_mask_2d",
        "autoarray/structures/grids/grid_2d_util.py:convert_grid_2d",
        "autoarray/structures/grids/grid_2d_util.py:grid_2d_slim_from",
        "autoarray/structures/grids/grid_2d_util.py:grid_2d_native_from",
        "autoarray/structures/arrays/array_1d_util.py:convert_array_1d",
        "autoarray/structures/arrays/array_1d_util.py:array_1d_slim_from",
        "autoarray/structures/arrays/array_1d_util.py:array_1d_native_from",
        "autoarray/structures/arrays/array_1d_util.py:array_1d_via_indexes_1d_from",
        "autoarray/mask/mask_1d_util.py:native_index_for_slim_index_1d_from",
    ]
    trusted_extra = ["numpy broadcasting `*=`/`stack` glue in the constructors is covered by correspondence only"]

    # ------------------------------------------------------------------ generation
    def generate(self, tier, rng):
        idx_cells = 9 if tier == "quick" else 14
        con_cells = 6 if tier == "quick" else 9
        # 0. default size ladder (thorough generators only, hence also the failing-input search and the
        #    escalated quick tier): a size gate written without an integer literal leaves no hint, but it
        #    breaks a loop tie; the search must then reach beyond the small shapes on its own
        if tier == "thorough":
            seed = rng.randrange(1 << 16)
            for c in self.DEFAULT_LADDER:
                yield from self._large_for_hint(c, seed, n_sizes=1, dims=("frame", "1d"))
        # 0b. always-on mid / large sizes (round-5/6 hardening, R5-E): beyond 2^16 pixels / rows / columns /
        #     1-D entries and beyond 2^15 unmasked pixels, judged by the vectorised oracle
        yield from self._always_large(rng)
        # 1. index tables, exhaustive
        for (h, w) in gen.shapes_upto(idx_cells):
            if tier == "thorough" and h * w > 12:
                # sub-sample the largest spaces: every 7th mask, seed-shifted
                off = rng.randrange(7)
                for i, m in enumerate(gen.all_masks(h, w)):
                    if i % 7 == off:
                        yield {"tag": f"idx_exh_{h*w}", "kind": "index", "mask": mask_json(m)}
                continue
            for m in gen.all_masks(h, w):
                yield {"tag": "idx_exhaustive", "kind": "index", "mask": mask_json(m)}
        # 2. constructors, exhaustive masks × input form × storage, pairwise-distinct values
        for (h, w) in gen.shapes_upto(con_cells):
            for m in gen.all_masks(h, w):
                yield from self._constructor_cases(rng, m, "con_exhaustive")
        # 3. structured random larger shapes
        n = 60 if tier == "quick" else 400
        for _ in range(n):
            h, w = rng.randint(2, 12), rng.randint(2, 12)
            m, kind = gen.random_mask(rng, h, w)
            yield {"tag": f"idx_random_{kind}", "kind": "index", "mask": mask_json(m)}
            yield from self._constructor_cases(rng, m, f"con_random_{kind}")
        # 3b. in-place edit histories: build, read both views, write one entry in place, read again
        ne = 40 if tier == "quick" else 300
        for _ in range(ne):
            h, w = rng.randint(2, 6), rng.randint(2, 6)
            m, kind = gen.random_mask(rng, h, w)
            nat = gen.distinct_ints(rng, h * w)
            nat = [0 if m[i // w][i % w] else v for i, v in enumerate(nat)]
            slim = [nat[i] for i in range(h * w) if not m[i // w][i % w]]
            for struct in ("array", "grid"):
                for form in ("slim", "native"):
                    vals = slim if form == "slim" else nat
                    k = rng.randrange(len(vals))
                    new = rng.randint(100, 200)
                    values = qlist(vals) if struct == "array" else [[q(v), q(-3 * v + 1)] for v in vals]
                    newv = q(new) if struct == "array" else [q(new), q(-new)]
                    yield {"tag": f"edit_{kind}", "kind": "edit", "struct": struct, "mask": mask_json(m),
                           "form": form, "store_native": form == "native", "values": values,
                           "edit_index": k, "edit_value": newv}
        # 4. 1-D
        for n1 in range(1, 7 if tier == "quick" else 10):
            for bits in range((1 << n1) - 1):
                mask = [bool((bits >> i) & 1) for i in range(n1)]
                vals = gen.distinct_ints(rng, n1)
                bits_s = "".join("1" if b else "0" for b in mask)
                yield {"tag": "1d_exhaustive", "kind": "1d", "bits": bits_s, "native": qlist(vals)}
                # Array1D constructor: native input with junk under the mask / slim input × storage mode
                slim_vals = [v for v, mk in zip(vals, mask) if not mk]
                for form, values in (("native", vals), ("slim", slim_vals)):
                    for sn in (False, True):
                        yield {"tag": "1d_constructor", "kind": "1dcon", "bits": bits_s, "form": form,
                               "values": qlist(values), "store_native": sn}
        # 5. reuse histories on real objects (round-4 hardening, see design_notes/C01.md)
        yield from self._history_cases(tier, rng)
        # 6. variant worlds (round-5/6 hardening): decades, ownership histories, layouts / containers,
        #    configuration histories, option crossings
        yield from self._var_cases(tier, rng)

    def _constructor_cases(self, rng, m, tag):
        h, w = len(m), len(m[0])
        native = gen.distinct_ints(rng, h * w)
        # half of the time use dyadic (non-integer) values
        if rng.random() < 0.3:
            native = [Fraction(v, 4) for v in native]
        junk_in_masked = rng.random() < 0.7  # native inputs carry arbitrary values in masked cells
        nat = [v if (junk_in_masked or not m[i // w][i % w]) else 0 for i, v in enumerate(native)]
        slim = [nat[i] for i in range(h * w) if not m[i // w][i % w]]
        for struct in ("array", "grid", "vector"):
            for form in ("slim", "native"):
                for store_native in (False, True):
                    if struct == "array":
                        vals = slim if form == "slim" else nat
                        values = qlist(vals)
                    else:
                        # (y,x) pairs: second component is an independent distinct sequence
                        vals = slim if form == "slim" else nat
                        values = [[q(v), q(-3 * v + 1)] for v in vals]
                    # container / dtype of the caller's input (round-3 hardening): float ndarray, int64
                    # ndarray (only when every value is an integer), plain Python list
                    all_int = all(Fraction(x).denominator == 1 for x in
                                  (values if struct == "array" else [c for p in values for c in p]))
                    container = rng.choice(["float", "int", "list"] if all_int else ["float", "list"])
                    yield {"tag": tag, "kind": struct, "mask": mask_json(m), "form": form,
                           "store_native": store_native, "values": values, "container": container}

    # ------------------------------------------------------------------ implementation
    def run_impl(self, case):
        aa = load_autoarray()
        kind = case["kind"]
        if kind == "hist":
            return self._run_hist(aa, case)
        if kind == "large":
            return self._run_large(aa, case)
        if kind == "var":
            return self._run_var(aa, case)
        if kind == "1d":
            mask = np.array([c == "1" for c in case["bits"]], dtype=bool)
            m1 = aa.Mask1D(mask=mask, pixel_scales=1.0)
            native = np.array([float(Fraction(v)) for v in case["native"]])
            from autoarray.structures.arrays import array_1d_util
            from autoarray.mask import mask_1d_util

            slim = array_1d_util.array_1d_slim_from(array_1d_native=native, mask_1d=mask)
            back = array_1d_util.array_1d_native_from(array_1d_slim=slim, mask_1d=mask)
            nfs = mask_1d_util.native_index_for_slim_index_1d_from(mask_1d=mask)
            # public structures, both storage modes
            a_s = aa.Array1D(values=slim, mask=m1)
            a_n = aa.Array1D(values=slim, mask=m1, store_native=True)
            return {
                "slim": qlist(slim), "native_back": qlist(back), "nfs": [int(v) for v in nfs],
                "A1D_slim.slim": qlist(a_s.slim.array), "A1D_slim.native": qlist(a_s.native.array),
                "A1D_nat.slim": qlist(a_n.slim.array), "A1D_nat.native": qlist(a_n.native.array),
            }
        if kind == "1dcon":
            mask = np.array([c == "1" for c in case["bits"]], dtype=bool)
            m1 = aa.Mask1D(mask=mask, pixel_scales=1.0)
            vals = np.array([float(Fraction(v)) for v in case["values"]])
            before = vals.copy()
            a = aa.Array1D(values=vals, mask=m1, store_native=case["store_native"])
            return {"stored": "native" if len(np.asarray(a.array)) == len(mask) and case["store_native"] else "slim",
                    "slim": qlist(a.slim.array), "native": qlist(a.native.array),
                    "input_unchanged": bool((vals == before).all())}
        m = np.array([c == "1" for c in case["mask"]["bits"]], dtype=bool).reshape(
            case["mask"]["h"], case["mask"]["w"])
        mask = _mask2d(aa, m)
        if kind == "index":
            di = mask.derive_indexes
            return {
                "native_for_slim": [[int(a), int(b)] for a, b in np.asarray(di.native_for_slim)],
                "unmasked_slim": [int(v) for v in np.asarray(di.unmasked_slim)],
                "masked_slim": [int(v) for v in np.asarray(di.masked_slim)],
                "pixels_in_mask": int(mask.pixels_in_mask),
            }
        h, w = m.shape
        sn = case["store_native"]
        if kind == "edit":
            struct = case["struct"]
            if struct == "array":
                vals = np.array([float(Fraction(v)) for v in case["values"]])
                if case["form"] == "native":
                    vals = vals.reshape(h, w)
                s = aa.Array2D(values=vals, mask=mask, store_native=sn)
            else:
                vals = np.array([[float(Fraction(a)), float(Fraction(b))] for a, b in case["values"]])
                if case["form"] == "native":
                    vals = vals.reshape(h, w, 2)
                s = aa.Grid2D(values=vals, mask=mask, store_native=sn)
            _ = np.asarray(s.native.array).copy(), np.asarray(s.slim.array).copy()  # warm any cache
            k = case["edit_index"]
            idx = k if case["form"] == "slim" else (k // w, k % w)
            if struct == "array":
                s[idx] = float(Fraction(case["edit_value"]))
                flat = lambda a: qlist(np.asarray(a).ravel())
            else:
                s[idx] = [float(Fraction(case["edit_value"][0])), float(Fraction(case["edit_value"][1]))]
                flat = lambda a: [qlist(p) for p in np.asarray(a).reshape(-1, 2)]
            return {"slim": flat(s.slim.array), "native": flat(s.native.array)}
        cont = case.get("container", "float")

        def box(a):
            """present the input as the chosen container / dtype"""
            if cont == "int":
                return a.astype(np.int64)
            if cont == "list":
                return a.tolist()
            return a

        if kind == "array":
            vals = np.array([float(Fraction(v)) for v in case["values"]])
            if case["form"] == "native":
                vals = vals.reshape(h, w)
            vals = box(vals)
            before = np.array(vals).copy()
            s = aa.Array2D(values=vals, mask=mask, store_native=sn)
            stored = np.asarray(s.array)
            out = {
                "stored": "native" if stored.ndim == 2 else "slim",
                "slim": qlist(np.asarray(s.slim.array).ravel()),
                "native": qlist(np.asarray(s.native.array).ravel()),
            }
            out["input_unchanged"] = bool((np.array(vals) == before).all())
            return out
        vals = np.array([[float(Fraction(a)), float(Fraction(b))] for a, b in case["values"]])
        if case["form"] == "native":
            vals = vals.reshape(h, w, 2)
        vals = box(vals)
        before = np.array(vals).copy()
        if kind == "grid":
            s = aa.Grid2D(values=vals, mask=mask, store_native=sn)
        else:
            grid = aa.Grid2D.from_mask(mask=mask)
            s = aa.VectorYX2D(values=vals, grid=grid, mask=mask, store_native=sn)
        stored = np.asarray(s.array)
        out = {
            "stored": "native" if stored.ndim == 3 else "slim",
            "slim": [qlist(p) for p in np.asarray(s.slim.array).reshape(-1, 2)],
            "native": [qlist(p) for p in np.asarray(s.native.array).reshape(-1, 2)],
        }
        out["input_unchanged"] = bool((np.array(vals) == before).all())
        return out

    # ------------------------------------------------------------------ model
    def model_requests(self, case, impl_obs):
        kind = case["kind"]
        if kind == "large":
            return []  # judged by the vectorised oracle alone (the exact-Rat driver is quadratic at these sizes)
        if kind == "var":
            return self._var_requests(case)
        if kind == "hist":
            reqs = []
            for snap in _hist_walk(case):
                reqs.extend(_snap_requests(snap))
            return reqs
        if kind == "index":
            mk = case["mask"]
            return [
                {"op": "c01.native_for_slim", "mask": mk},
                {"op": "c01.mask_slim_indexes", "mask": mk, "flag": False},
                {"op": "c01.mask_slim_indexes", "mask": mk, "flag": True},
                {"op": "c01.total_pixels", "mask": mk},
            ]
        if kind == "1dcon":
            return [{"op": "c01.array1d_convert", "bits": case["bits"], "values": case["values"],
                     "store_native": case["store_native"]}]
        if kind == "1d":
            return [
                {"op": "c01.array1d", "dir": "slim_from", "bits": case["bits"], "values": case["native"]},
                {"op": "c01.array1d", "dir": "native_for_slim", "bits": case["bits"], "values": []},
                {"op": "c01.array1d", "dir": "native_from", "bits": case["bits"],
                 "values": [v for v, b in zip(case["native"], case["bits"]) if b == "0"]},
            ]
        if kind == "edit":
            vals = list(case["values"])
            vals[case["edit_index"]] = case["edit_value"]
            op = "c01.array_convert" if case["struct"] == "array" else "c01.grid_convert"
            return [{"op": op, "mask": case["mask"], "form": case["form"], "values": vals,
                     "store_native": case["store_native"]}]
        op = "c01.array_convert" if kind == "array" else "c01.grid_convert"
        return [{"op": op, "mask": case["mask"], "form": case["form"],
                 "values": case["values"], "store_native": case["store_native"]}]

    def model_obs(self, case, responses):
        kind = case["kind"]
        if kind == "hist":
            reads, at = [], 0
            for snap in _hist_walk(case):
                n = len(_snap_requests(snap))
                reads.append(_snap_fold(snap, responses[at:at + n]))
                at += n
            return {"reads": reads}
        if kind == "var":
            return self._var_model_obs(case, responses)
        for r in responses:
            if "err" in r:
                return {"err": r["err"]}
        if kind == "index":
            return {"native_for_slim": responses[0]["ok"], "unmasked_slim": responses[1]["ok"],
                    "masked_slim": responses[2]["ok"], "pixels_in_mask": responses[3]["ok"]}
        if kind == "1dcon":
            r = responses[0]["ok"]
            return {"stored": r["stored"], "slim": r["slim"], "native": r["native"]}
        if kind == "1d":
            return {"slim": responses[0]["ok"], "nfs": responses[1]["ok"],
                    "native_back": responses[2]["ok"]}
        r = responses[0]["ok"]
        if kind == "edit":
            return {"slim": r["slim"], "native": r["native"]}
        st = r["stored"]
        return {"stored": st["stored"] if isinstance(st, dict) else st, "slim": r["slim"],
                "native": r["native"]}

    def compare(self, case, impl_obs, model_obs, cmp):
        if case["kind"] == "var" and isinstance(impl_obs, dict) and "rounds" in impl_obs:
            impl_obs = {**impl_obs, "rounds": [{k: v for k, v in r.items() if k != "input_unchanged"}
                                               for r in impl_obs["rounds"]]}
            return cmp.diff(impl_obs, model_obs)
        if case["kind"] == "1dcon":
            if "err" in impl_obs:
                return cmp.diff(impl_obs, model_obs)
            return cmp.diff({k: impl_obs[k] for k in ("stored", "slim", "native")}, model_obs)
        if case["kind"] == "1d":
            if "err" in impl_obs:
                return cmp.diff(impl_obs, model_obs)
            # the model's 1-D scatter is exercised through a second request pair below
            sub = {"slim": impl_obs["slim"], "nfs": impl_obs["nfs"],
                   "native_back": impl_obs["native_back"]}
            return cmp.diff(sub, model_obs)
        if isinstance(impl_obs, dict) and "input_unchanged" in impl_obs:
            impl_obs = {k: v for k, v in impl_obs.items() if k != "input_unchanged"}
        return cmp.diff(impl_obs, model_obs)

    # ------------------------------------------------------------------ oracle (independent of the model)
    def oracle(self, case, obs):
        if isinstance(obs, dict) and "err" in obs:
            return False, f"implementation raised {obs}"
        kind = case["kind"]
        if kind == "hist":
            return self._oracle_hist(case, obs)
        if kind == "large":
            return self._oracle_large(case, obs)
        if kind == "var":
            return self._oracle_var(case, obs)
        if kind == "1dcon":
            mask = [c == "1" for c in case["bits"]]
            vals = [Fraction(v) for v in case["values"]]
            if case["form"] == "native":
                exp_slim = [v for v, mk in zip(vals, mask) if not mk]
            else:
                exp_slim = vals
            it = iter(exp_slim)
            exp_native = [0 if mk else next(it) for mk in mask]
            if [Fraction(v) for v in obs["slim"]] != exp_slim:
                return False, f"Array1D({case['form']} input, store_native={case['store_native']}).slim is not the unmasked values in order"
            if [Fraction(v) for v in obs["native"]] != exp_native:
                return False, f"Array1D({case['form']} input, store_native={case['store_native']}).native does not hold the values with zeros at masked entries"
            if not obs["input_unchanged"]:
                return False, "Array1D constructor modified the caller's array"
            return True, ""
        if kind == "1d":
            mask = [c == "1" for c in case["bits"]]
            native = [Fraction(v) for v in case["native"]]
            exp_slim = [v for v, mk in zip(native, mask) if not mk]
            exp_back = [0 if mk else v for v, mk in zip(native, mask)]
            got = [Fraction(v) for v in obs["slim"]]
            if got != exp_slim:
                return False, f"1-D slim {got} != {exp_slim}"
            if [Fraction(v) for v in obs["native_back"]] != exp_back:
                return False, "1-D native(slim(a)) != a*~mask"
            if obs["nfs"] != [i for i, mk in enumerate(mask) if not mk]:
                return False, "1-D native_for_slim wrong"
            for k in ("A1D_slim.slim", "A1D_nat.slim"):
                if [Fraction(v) for v in obs[k]] != exp_slim:
                    return False, f"{k} != slim values"
            for k in ("A1D_slim.native", "A1D_nat.native"):
                if [Fraction(v) for v in obs[k]] != exp_back:
                    return False, f"{k} != native values"
            return True, ""
        mj = case["mask"]
        h, w = mj["h"], mj["w"]
        mbits = [c == "1" for c in mj["bits"]]
        unm = [i for i in range(h * w) if not mbits[i]]
        msk = [i for i in range(h * w) if mbits[i]]
        if kind == "index":
            if obs["native_for_slim"] != [[i // w, i % w] for i in unm]:
                return False, "native_for_slim is not the row-major list of unmasked pixels"
            if obs["unmasked_slim"] != unm:
                return False, "unmasked_slim is not the ascending list of unmasked flat indices"
            if obs["masked_slim"] != msk:
                return False, "masked_slim is not the ascending list of masked flat indices"
            if obs["pixels_in_mask"] != len(unm):
                return False, "pixels_in_mask wrong"
            return True, ""
        if kind == "edit":
            arr = case["struct"] == "array"
            conv = (lambda x: Fraction(x)) if arr else (lambda x: (Fraction(x[0]), Fraction(x[1])))
            vals = [conv(v) for v in case["values"]]
            vals[case["edit_index"]] = conv(case["edit_value"])
            zero = 0 if arr else (0, 0)
            exp_slim = vals if case["form"] == "slim" else [vals[i] for i in unm]
            exp_native = [zero] * (h * w)
            for k, i in enumerate(unm):
                exp_native[i] = exp_slim[k]
            if [conv(v) for v in obs["slim"]] != exp_slim:
                return False, f"after an in-place write .slim does not list the structure's current unmasked values ({case['struct']}, stored {case['form']})"
            if [conv(v) for v in obs["native"]] != exp_native:
                return False, f"after an in-place write .native does not hold the structure's current values (stale or unmasked junk) ({case['struct']}, stored {case['form']})"
            return True, ""
        if kind == "array":
            vals = [Fraction(v) for v in case["values"]]
            conv = lambda x: Fraction(x)
        else:
            vals = [(Fraction(a), Fraction(b)) for a, b in case["values"]]
            conv = lambda x: (Fraction(x[0]), Fraction(x[1]))
        zero = 0 if kind == "array" else (0, 0)
        if case["form"] == "slim":
            exp_slim = vals
        else:
            exp_slim = [vals[i] for i in unm]
        exp_native = [zero] * (h * w)
        for k, i in enumerate(unm):
            exp_native[i] = exp_slim[k]
        got_slim = [conv(v) for v in obs["slim"]]
        got_native = [conv(v) for v in obs["native"]]
        if got_slim != exp_slim:
            return False, f".slim is not the row-major list of unmasked values (form={case['form']}, store_native={case['store_native']})"
        if got_native != exp_native:
            return False, f".native does not hold the values at their pixels with zeros at masked positions (form={case['form']}, store_native={case['store_native']})"
        if obs.get("input_unchanged") is False:
            return False, f"the {kind} constructor wrote into the array passed to it (form={case['form']}, store_native={case['store_native']})"
        want = "native" if case["store_native"] else "slim"
        if obs["stored"] != want:
            return False, f"stored form {obs['stored']} != requested {want}"
        return True, ""

    def nontrivial(self, case, obs):
        if case["kind"] == "large":
            m = _expand_mask(case)
            return bool(m.any()) and not bool(m.all())
        if case["kind"] == "hist":
            bits = case["masks"][0]["bits"]
            return "0" in bits and "1" in bits
        if case["kind"] == "var":
            return "0" in case["mask"]["bits"] and "1" in case["mask"]["bits"]
        bits = case.get("bits") or case["mask"]["bits"]
        return "0" in bits and "1" in bits

    def shrink(self, case):
        if case["kind"] == "hist":
            yield from _shrink_hist(case)
            return
        if case["kind"] == "large":
            yield from _shrink_large(case)
            return
        if case["kind"] == "var":
            yield from _shrink_var(case)
            return
        if case["kind"] != "index":
            return
        mj = case["mask"]
        bits = mj["bits"]
        for i, c in enumerate(bits):
            if c == "0" and bits.count("0") > 1:
                yield {**case, "mask": {**mj, "bits": bits[:i] + "1" + bits[i + 1:]}}

    # ================================================================== round 4: reuse histories (kind "hist")
    def _history_cases(self, tier, rng):
        n = 50 if tier == "quick" else 300
        templates = (self._h_mask_edit, self._h_mask_edit, self._h_twin_values, self._h_twin_masks,
                     self._h_fault, self._h_shared, self._h_derive, self._h_1d)
        for _ in range(n):
            for tpl in templates:
                c = tpl(rng)
                try:
                    if not list(_hist_walk(c)):
                        continue
                except HistInvalid:
                    continue
                yield c

    # -- ingredients
    @staticmethod
    def _h_world(rng):
        h, w = rng.randint(1, 6), rng.randint(1, 6)
        if h * w < 2:
            w = 2
        m, kind = gen.random_mask(rng, h, w)
        return h, w, [b for r in m for b in r], mask_json(m), kind

    @staticmethod
    def _h_values(rng, struct, n, flavour=None):
        ints = gen.distinct_ints(rng, n) if n else []
        fl = flavour or rng.choice(["int", "int", "quarter", "fine"])
        if fl == "quarter":
            v = [Fraction(x, 4) for x in ints]
        elif fl == "fine":  # more than 24 significant bits: a narrowed dtype cannot hold them
            v = [Fraction(x) + Fraction(1 + k % 3, 1 << 20) for k, x in enumerate(ints)]
        else:
            v = [Fraction(x) for x in ints]
        if struct in ("array", "array1d"):
            return qlist(v), fl
        return [[q(x), q(-3 * x + 1)] for x in v], fl

    def _h_build(self, rng, name, m_idx, bits, struct=None, form=None, sn=None, flavour=None):
        struct = struct or rng.choice(["array", "array", "grid", "vector"])
        form = form or rng.choice(["slim", "native"])
        sn = (rng.random() < 0.5) if sn is None else sn
        n = len(bits) if form == "native" else bits.count(False)
        values, fl = self._h_values(rng, struct, n, flavour)
        cont = rng.choice(["float", "int", "list"] if fl == "int" else ["float", "list"])
        st = {"op": "build", "name": name, "m": m_idx, "struct": struct, "form": form, "sn": sn,
              "values": values, "container": cont}
        if cont != "list" and rng.random() < 0.15:
            st["readonly"] = True  # the caller's array is read-only: the constructor must not need to write it
        return st

    @staticmethod
    def _h_edit(rng, bits, w, m_idx, dim1=False):
        """1-2 in-place pixel edits through the mask's public __setitem__; updates `bits`"""
        k = rng.choice([1, 1, 2])
        idxs = rng.sample(range(len(bits)), min(k, len(bits)))
        cells = []
        for i in idxs:
            new = not bits[i]
            trial = list(bits)
            trial[i] = new
            if all(trial):
                continue
            bits[i] = new
            cells.append([i, new] if dim1 else [i // w, i % w, new])
        if not cells:  # the only unmasked pixel was chosen: unmask another one instead
            i = next(j for j, b in enumerate(bits) if b)
            bits[i] = False
            cells.append([i, False] if dim1 else [i // w, i % w, False])
        how = "item"
        if not dim1 and len({c[-1] for c in cells}) == 1 and rng.random() < 0.4:
            how = "boolkey"
        return {"op": "edit_mask", "m": m_idx, "cells": cells, "how": how}

    @staticmethod
    def _h_read_index(rng, m_idx, via="mask"):
        order = ["nfs", "unm", "msk", "pix"]
        rng.shuffle(order)
        if rng.random() < 0.25:
            order = order[: rng.randint(1, 3)]
        return {"op": "read_index", "m": m_idx, "via": via, "order": order}

    @staticmethod
    def _h_read(rng, name):
        return {"op": "read_struct", "name": name,
                "views": rng.choice([["native", "slim"], ["slim", "native"], ["native"], ["slim"]])}

    # -- templates
    def _h_mask_edit(self, rng):
        """(i) same Mask2D object: read -> edit a pixel in place -> read again / build again"""
        h, w, bits, mj, kind = self._h_world(rng)
        steps = []
        if rng.random() < 0.3:
            steps.append({"op": "decoy", "m": 0})
        hold = rng.random() < 0.5
        if hold:
            steps.append({"op": "hold_di", "m": 0})
        pre = rng.choice(["index", "struct", "both"])
        if pre in ("index", "both"):
            steps.append(self._h_read_index(rng, 0, rng.choice(["mask", "held"]) if hold else "mask"))
        if pre in ("struct", "both"):
            if rng.random() < 0.5:
                steps.append(self._h_build(rng, "A", 0, bits, form="slim", sn=True))
            else:
                steps.append(self._h_build(rng, "A", 0, bits))
            steps.append(self._h_read(rng, "A"))
        for r in range(rng.choice([1, 1, 2])):
            steps.append(self._h_edit(rng, bits, w, 0))
            vias = ["mask", "held"] if hold else ["mask"]
            rng.shuffle(vias)
            for via in vias[: rng.randint(1, len(vias))]:
                steps.append(self._h_read_index(rng, 0, via))
            nm = f"B{r}"
            if rng.random() < 0.5:
                steps.append(self._h_build(rng, nm, 0, bits, form="slim", sn=rng.random() < 0.7))
            else:
                steps.append(self._h_build(rng, nm, 0, bits))
            steps.append(self._h_read(rng, nm))
        return {"tag": "hist_mask_edit", "kind": "hist", "masks": [mj], "steps": steps}

    def _h_twin_values(self, rng):
        """(ii) near-duplicate twins: the same construction repeated with values inside np.allclose's default
        tolerance of the first ones (rel 2^-20, or 2^-34 absolute on tiny values) on the same mask object"""
        h, w, bits, mj, kind = self._h_world(rng)
        a = self._h_build(rng, "A", 0, bits, flavour=rng.choice(["int", "quarter"]))
        a.pop("readonly", None)
        a["container"] = rng.choice(["float", "list"])
        tiny = rng.random() < 0.3

        def tw(x):
            x = Fraction(x)
            if tiny:
                return x / (1 << 40) + Fraction(1, 1 << 34)
            return x * (1 + Fraction(1, 1 << 20))

        def base(x):
            return Fraction(x) / (1 << 40) if tiny else Fraction(x)

        b = _copy.deepcopy(a)
        b["name"] = "A2"
        if a["struct"] == "array":
            b["values"] = [q(tw(v)) for v in a["values"]]
            a["values"] = [q(base(v)) for v in a["values"]]
        else:
            b["values"] = [[q(tw(p[0])), q(tw(p[1]))] for p in a["values"]]
            a["values"] = [[q(base(p[0])), q(base(p[1]))] for p in a["values"]]
        steps = [a, self._h_read(rng, "A"), b, self._h_read(rng, "A2")]
        if rng.random() < 0.5:
            steps.append(self._h_read(rng, "A"))
        return {"tag": "hist_twin_values", "kind": "hist", "masks": [mj], "steps": steps}

    def _h_twin_masks(self, rng):
        """(ii)/(iv) two masks of the same shape (and mostly the same number of unmasked pixels) used
        alternately; the same slim values are given to both"""
        h, w, bits, mj, kind = self._h_world(rng)
        bits1 = list(bits)
        un = [i for i, b in enumerate(bits1) if not b]
        ma = [i for i, b in enumerate(bits1) if b]
        h1, w1 = h, w
        if h != w and rng.random() < 0.25:  # same bytes, transposed SHAPE (a memo keyed on the buffer only)
            h1, w1 = w, h
        elif un and ma and rng.random() < 0.75:  # move one unmasked pixel: same count, different content
            bits1[rng.choice(un)] = True
            bits1[rng.choice(ma)] = False
        else:
            i = rng.randrange(len(bits1))
            bits1[i] = not bits1[i]
            if all(bits1):
                bits1[i] = False
        mj1 = {"h": h1, "w": w1, "bits": "".join("1" if b else "0" for b in bits1)}
        order = [0, 1]
        rng.shuffle(order)
        steps = [self._h_read_index(rng, k) for k in order]
        struct = rng.choice(["array", "grid", "vector"])
        sn = rng.random() < 0.6
        a = self._h_build(rng, "A", 0, bits, struct=struct, form="slim", sn=sn)
        b = self._h_build(rng, "B", 1, bits1, struct=struct, form="slim", sn=sn)
        if bits.count(False) == bits1.count(False):
            b["values"], b["container"] = list(a["values"]), a["container"]
        pair = [(a, "A"), (b, "B")]
        rng.shuffle(pair)
        for st, nm in pair:
            steps += [st, self._h_read(rng, nm)]
        steps.append(self._h_read_index(rng, order[0]))
        steps.append(self._h_read(rng, pair[0][1]))
        return {"tag": "hist_twin_masks", "kind": "hist", "masks": [mj, mj1], "steps": steps}

    def _h_fault(self, rng):
        """(iii) a call raises, then the same objects are used again"""
        h, w, bits, mj, kind = self._h_world(rng)
        steps = [self._h_build(rng, "A", 0, bits), self._h_read(rng, "A")]
        how = rng.choice(["short_slim", "bad_native_shape", "mask_oob", "bad_boolkey", "stale_read", "stale_read"])
        f = {"op": "fault", "how": how, "m": 0}
        if how == "stale_read":
            cand = []
            for i in range(len(bits)):
                t = list(bits)
                t[i] = not t[i]
                if not all(t):
                    cand.append(i)
            if not cand:
                f["how"] = "mask_oob"
            else:
                i = rng.choice(cand)
                f.update({"name": "A", "cell": [i // w, i % w]})
        steps.append(f)
        steps.append(self._h_read_index(rng, 0))
        if f["how"] == "stale_read" or rng.random() < 0.5:
            steps.append(self._h_read(rng, "A"))
        steps += [self._h_build(rng, "B", 0, bits), self._h_read(rng, "B")]
        return {"tag": "hist_fault", "kind": "hist", "masks": [mj], "steps": steps}

    def _h_shared(self, rng):
        """(iv)/(v) one mask object shared by an array, a grid and a vector field, built and read in random
        orders, with decoy reads of every other derived quantity in between"""
        h, w, bits, mj, kind = self._h_world(rng)
        names = [("array", "A"), ("grid", "G"), ("vector", "V")]
        rng.shuffle(names)
        steps = []
        if rng.random() < 0.5:
            steps.append({"op": "decoy", "m": 0})
        for struct, nm in names:
            b = self._h_build(rng, nm, 0, bits, struct=struct)
            steps.append(b)
            if rng.random() < 0.4:
                steps.append({"op": "decoy", "name": nm})
            # the caller overwrites the buffer it passed in: Array2D copies its input, so nothing may change
            if struct == "array" and b["container"] != "list" and not b.get("readonly") and rng.random() < 0.5:
                steps.append({"op": "caller_edit", "name": nm})
        reads = [nm for _, nm in names] * rng.choice([1, 2])
        rng.shuffle(reads)
        for nm in reads:
            steps.append(self._h_read(rng, nm))
            if rng.random() < 0.2:
                steps.append(self._h_read_index(rng, 0))
        return {"tag": "hist_shared", "kind": "hist", "masks": [mj], "steps": steps}

    def _h_derive(self, rng):
        """derived objects (copy / arithmetic) must not carry stale derived state: edit in place, read"""
        h, w, bits, mj, kind = self._h_world(rng)
        form = rng.choice(["slim", "native"])
        editable = rng.random() < 0.75
        sn = (form == "native") if editable else (form != "native")
        a = self._h_build(rng, "A", 0, bits, form=form, sn=sn, flavour=rng.choice(["int", "quarter"]))
        a.pop("readonly", None)
        steps = [a]
        if rng.random() < 0.7:
            steps.append(self._h_read(rng, "A"))
        how = rng.choice(["copy", "deepcopy", "mul2", "neg", "add1"])
        steps.append({"op": "derive", "name": "B", "from": "A", "how": how})

        def edit(nm):
            new = rng.randint(100, 200)
            val = q(new) if a["struct"] == "array" else [q(new), q(-new)]
            return {"op": "edit_struct", "name": nm, "index": rng.randrange(len(a["values"])), "value": val}

        if editable and a["values"] and rng.random() < 0.7:
            steps.append(edit("B"))
        steps.append(self._h_read(rng, "B"))
        if editable and a["values"]:
            steps.append(edit("A"))
        steps.append(self._h_read(rng, "A"))
        steps.append(self._h_read(rng, "B"))
        return {"tag": "hist_derive", "kind": "hist", "masks": [mj], "steps": steps}

    def _h_1d(self, rng):
        """1-D: Mask1D edited in place / twin values, Array1D rebuilt on the same mask object"""
        L = rng.randint(2, 7)
        bits = [rng.random() < 0.4 for _ in range(L)]
        if all(bits):
            bits[rng.randrange(L)] = False
        mj = {"bits": "".join("1" if b else "0" for b in bits)}

        def build(nm):
            st = self._h_build(rng, nm, 0, bits, struct="array1d", flavour=rng.choice(["int", "quarter"]))
            st.pop("readonly", None)
            return st

        steps = [build("A"), self._h_read(rng, "A")]
        if rng.random() < 0.6:
            steps.append(self._h_edit(rng, bits, L, 0, dim1=True))
            steps += [build("B"), self._h_read(rng, "B")]
        else:
            b = _copy.deepcopy(steps[0])
            b["name"] = "B"
            steps[0]["container"] = b["container"] = rng.choice(["float", "list"])
            b["values"] = [q(Fraction(v) * (1 + Fraction(1, 1 << 20))) for v in b["values"]]
            steps += [b, self._h_read(rng, "B"), self._h_read(rng, "A")]
        return {"tag": "hist_1d", "kind": "hist", "dim": 1, "masks": [mj], "steps": steps}

    # -- execution on the real objects
    def _run_hist(self, aa, case):
        dim1 = case.get("dim") == 1
        masks, shapes = [], []
        for mj in case["masks"]:
            if dim1:
                arr = np.array([c == "1" for c in mj["bits"]], dtype=bool)
                masks.append(aa.Mask1D(mask=arr, pixel_scales=1.0))
                shapes.append((None, len(arr)))
            else:
                arr = np.array([c == "1" for c in mj["bits"]], dtype=bool).reshape(mj["h"], mj["w"])
                # anisotropic scales and an off-centre origin: irrelevant to C01 and must stay so
                masks.append(_mask2d(aa, arr, scales=(1.0, 2.0), origin=(0.5, -1.0)))
                shapes.append((mj["h"], mj["w"]))
        held, structs, reads = {}, {}, []
        for st in case["steps"]:
            op = st["op"]
            if op == "hold_di":
                held[st["m"]] = masks[st["m"]].derive_indexes
            elif op == "decoy":
                if "name" in st:
                    _decoy_struct(structs[st["name"]]["obj"])
                else:
                    _decoy_mask(masks[st["m"]], dim1)
            elif op == "read_index":
                mask = masks[st["m"]]
                try:
                    if st["via"] == "held":
                        if st["m"] not in held:
                            held[st["m"]] = mask.derive_indexes
                        di = held[st["m"]]
                    else:
                        di = mask.derive_indexes
                    out = {}
                    for k in st["order"]:
                        if k == "nfs":
                            out["native_for_slim"] = [[int(a), int(b)] for a, b in np.asarray(di.native_for_slim)]
                        elif k == "unm":
                            out["unmasked_slim"] = [int(v) for v in np.asarray(di.unmasked_slim)]
                        elif k == "msk":
                            out["masked_slim"] = [int(v) for v in np.asarray(di.masked_slim)]
                        else:
                            out["pixels_in_mask"] = int(mask.pixels_in_mask)
                    reads.append(out)
                except Exception as e:
                    reads.append({"err": type(e).__name__, "msg": str(e)[:200]})
            elif op == "edit_mask":
                mask = masks[st["m"]]
                h, w = shapes[st["m"]]
                if st.get("how") == "boolkey":
                    key = np.zeros((h, w), dtype=bool)
                    for y, x, v in st["cells"]:
                        key[y, x] = True
                    mask[key] = bool(st["cells"][0][-1])
                else:
                    for cell in st["cells"]:
                        if dim1:
                            mask[cell[0]] = bool(cell[-1])
                        else:
                            mask[cell[0], cell[1]] = bool(cell[-1])
            elif op == "build":
                mask = masks[st["m"]]
                h, w = shapes[st["m"]]
                vals = _box(_np_values(st["struct"], st["form"], st["values"], h, w), st.get("container", "float"))
                if st.get("readonly") and isinstance(vals, np.ndarray):
                    vals.flags.writeable = False
                sn = st["sn"]
                if st["struct"] == "array":
                    obj = aa.Array2D(values=vals, mask=mask, store_native=sn)
                elif st["struct"] == "grid":
                    obj = aa.Grid2D(values=vals, mask=mask, store_native=sn)
                elif st["struct"] == "vector":
                    obj = aa.VectorYX2D(values=vals, grid=aa.Grid2D.from_mask(mask=mask), mask=mask, store_native=sn)
                else:
                    obj = aa.Array1D(values=vals, mask=mask, store_native=sn)
                structs[st["name"]] = {"obj": obj, "struct": st["struct"], "m": st["m"], "form": st["form"],
                                       "sn": sn, "buf": vals}
            elif op == "read_struct":
                s = structs[st["name"]]
                try:
                    obj = s["obj"]
                    stored = np.asarray(obj.array)
                    if s["struct"] == "array":
                        out = {"stored": "native" if stored.ndim == 2 else "slim"}
                    elif s["struct"] == "array1d":
                        L = shapes[s["m"]][1]
                        out = {"stored": "native" if len(stored) == L and s["sn"] else "slim"}
                    else:
                        out = {"stored": "native" if stored.ndim == 3 else "slim"}
                    for v in st["views"]:
                        out[v] = _flat_view(s["struct"], getattr(obj, v).array)
                    reads.append(out)
                except Exception as e:
                    reads.append({"err": type(e).__name__, "msg": str(e)[:200]})
            elif op == "edit_struct":
                s = structs[st["name"]]
                h, w = shapes[s["m"]]
                k = st["index"]
                idx = k if (s["form"] == "slim" or s["struct"] == "array1d") else (k // w, k % w)
                if s["struct"] in ("array", "array1d"):
                    s["obj"][idx] = float(Fraction(st["value"]))
                else:
                    s["obj"][idx] = [float(Fraction(st["value"][0])), float(Fraction(st["value"][1]))]
            elif op == "derive":
                s = structs[st["from"]]
                how = st["how"]
                if how == "copy":
                    obj = _copy.copy(s["obj"])
                elif how == "deepcopy":
                    obj = _copy.deepcopy(s["obj"])
                elif how == "mul2":
                    obj = s["obj"] * 2.0
                elif how == "neg":
                    obj = -s["obj"]
                else:
                    obj = s["obj"] + 1.0
                structs[st["name"]] = {**s, "obj": obj, "buf": None}
            elif op == "caller_edit":
                buf = structs[st["name"]]["buf"]
                if isinstance(buf, np.ndarray) and buf.flags.writeable:
                    buf[...] = 77
            elif op == "fault":
                mask = masks[st.get("m", 0)]
                h, w = shapes[st.get("m", 0)]
                how = st["how"]
                try:
                    if how == "short_slim":
                        aa.Array2D(values=np.ones(int(mask.pixels_in_mask) + 1 + h * w), mask=mask)
                    elif how == "bad_native_shape":
                        aa.Array2D(values=np.ones((h + 1, w + 2)), mask=mask, store_native=True)
                    elif how == "mask_oob":
                        mask[h, 0] = False
                    elif how == "bad_boolkey":
                        mask[np.zeros((h + 2, w + 3), dtype=bool)] = True
                    elif how == "stale_read":
                        s = structs[st["name"]]
                        m2 = masks[s["m"]]
                        y, x = st["cell"]
                        old = bool(np.asarray(m2.array)[y, x])
                        m2[y, x] = not old
                        try:
                            np.asarray(s["obj"].native.array)
                            np.asarray(s["obj"].slim.array)
                        except Exception:
                            pass
                        finally:
                            m2[y, x] = old
                except Exception:
                    pass
            else:
                raise ValueError(op)
        return {"reads": reads}

    def _oracle_hist(self, case, obs):
        snaps = list(_hist_walk(case))
        reads = obs.get("reads", [])
        if len(reads) != len(snaps):
            return False, f"history produced {len(reads)} observations, expected {len(snaps)}"
        for k, (snap, got) in enumerate(zip(snaps, reads)):
            what = "index lists" if snap["what"] == "index" else snap["struct"]
            ok, d = _oracle_snapshot(snap, got, f"history read #{k} ({what})")
            if not ok:
                return False, d
        return True, ""

    # ================================================================== round 4: size-directed cases (kind "large")
    LARGE_MAX_HINT = 400000       # a hint above this is not feasible in pure Python within the budget
    LARGE_MAX_PIXELS = 450000

    def generate_large(self, hints, rng):
        """for every new integer constant c of the anchored source: cases whose frame pixels H*W (non-square,
        both orientations), number of unmasked pixels, rows H, columns W and 1-D length are c-1, c, c+1,
        c + c//3 + 1 and 2c+1.  Round-robin over the hints so that one hint cannot use up the budget."""
        gens = [self._large_for_hint(c, rng.randrange(1 << 16)) for c in sorted(set(hints))
                if 2 <= c <= self.LARGE_MAX_HINT]
        while gens:
            for g in list(gens):
                got = list(itertools.islice(g, 12))
                if not got:
                    gens.remove(g)
                yield from got

    DEFAULT_LADDER = (1024, 4096, 16384, 49152)

    def _large_for_hint(self, c, seed, n_sizes=5, dims=("frame", "unmasked", "thin", "1d")):
        sizes = [c + c // 3 + 1, c, c + 1, c - 1, 2 * c + 1]
        if c > 70000:
            sizes = sizes[:4]
        sizes = sizes[:n_sizes]
        combos = [("slim", True), ("native", False), ("native", True), ("slim", False)]
        flav = ["int", "quarter", "fine"]
        conts = ["float", "int", "list"]
        k = [seed]

        def world(dim, h, w, recipe, full_subs=True):
            k[0] += 1
            base = {"kind": "large", "hint": c, "dim": dim, "h": h, "w": w, "mask_recipe": recipe,
                    "vseed": k[0] % 97}
            yield {**base, "tag": f"large_{dim}_index", "sub": "index"}
            subs = [("array", cb) for cb in combos] + [("grid", cb) for cb in combos] + \
                   [("vector", combos[k[0] % 4])]
            if not full_subs:
                subs = [("array", combos[0]), ("array", combos[1]), ("grid", combos[k[0] % 2]),
                        ("grid", combos[2 + k[0] % 2])]
            for j, (sub, (form, sn)) in enumerate(subs):
                fl = flav[(k[0] + j) % 3]
                cont = conts[(k[0] + j) % 3]
                if cont == "int" and fl != "int":
                    cont = "float"
                yield {**base, "tag": f"large_{dim}_{sub}", "sub": sub, "form": form, "store_native": sn,
                       "flavour": fl, "container": cont}

        for t in sizes:
            if t < 2:
                continue
            # (a) frame pixels H*W == t, non-square, both orientations; structured and pseudo-random masks
            if t <= self.LARGE_MAX_PIXELS and "frame" in dims:
                for j, (h, w) in enumerate(_frame_shapes(t, c)):
                    recipe = {"kind": "annulus", "seed": seed + j} if (j + t) % 2 == 0 else \
                        {"kind": "hash", "seed": seed + j, "dens": 350}
                    yield from world("frame", h, w, recipe)
            # (b) exactly t unmasked pixels in a larger non-square frame
            if t * 3 // 2 <= self.LARGE_MAX_PIXELS and "unmasked" in dims:
                h = max(1, math.isqrt(t * 3 // 2 * 10 // 13))
                w = -(-(t * 3 // 2) // h) + 1
                if t % 2:
                    h, w = w, h
                yield from world("unmasked", h, w, {"kind": "hash", "seed": seed + 5, "dens": 300,
                                                    "n_unmasked": t}, full_subs=(t <= 40000))
            # (c) t rows / t columns of a thin frame
            if t * 2 <= self.LARGE_MAX_PIXELS and c <= 70000 and t in sizes[:3] and "thin" in dims:
                thin = 3 if t <= 20000 else 2
                yield from world("rows", t, thin, {"kind": "hash", "seed": seed + 6, "dens": 400}, full_subs=False)
                yield from world("cols", thin, t, {"kind": "hash", "seed": seed + 7, "dens": 400}, full_subs=False)
            # (d) 1-D length t, and exactly t unmasked entries of a longer 1-D mask
            if "1d" not in dims:
                continue
            k[0] += 1
            yield {"kind": "large", "tag": "large_1d", "sub": "1d", "hint": c, "dim": "len1d", "L": t,
                   "mask_recipe": {"kind": "hash", "seed": seed + 8, "dens": 400}, "vseed": k[0] % 97,
                   "flavour": flav[k[0] % 3]}
            yield {"kind": "large", "tag": "large_1d", "sub": "1d", "hint": c, "dim": "unmasked1d",
                   "L": t + t // 2 + 3, "mask_recipe": {"kind": "hash", "seed": seed + 9, "dens": 400,
                                                        "n_unmasked": t}, "vseed": k[0] % 97,
                   "flavour": flav[(k[0] + 1) % 3]}

    def _always_large(self, rng):
        """a handful of cases per run whose sizes lie beyond every 16-bit limit (frame pixels, unmasked pixels,
        rows, columns, 1-D length), in both orientations, Fortran-ordered and list inputs among them"""
        seed = rng.randrange(1 << 16)
        h, w = rng.choice([(182, 367), (201, 331), (163, 409)])  # 66794 / 66531 / 66667 pixels
        combos = [("slim", True), ("native", False), ("native", True), ("slim", False)]
        flav = ["fine", "int", "quarter"]
        conts = ["float", "fortran", "list"]
        for o, (hh, ww) in enumerate(((h, w), (w, h))):
            base = {"kind": "large", "hint": 65536, "dim": "frame", "h": hh, "w": ww, "vseed": (seed + o) % 97,
                    "mask_recipe": {"kind": "hash", "seed": seed + o, "dens": 300 + 100 * o},
                    "mlay": "f" if (o + seed) % 2 else "c"}
            yield {**base, "tag": "always_large_index", "sub": "index"}
            for j, (sub, (form, sn)) in enumerate((("array", combos[2 * o]), ("array", combos[2 * o + 1]),
                                                   ("grid", combos[(o + seed) % 4]))):
                yield {**base, "tag": f"always_large_{sub}", "sub": sub, "form": form, "store_native": sn,
                       "flavour": flav[(j + o) % 3], "container": conts[(j + o + seed) % 3]}
        t = 65536 + 7 + seed % 50
        for dim, (hh, ww) in (("rows", (t, 1)), ("cols", (1, t))):
            base = {"kind": "large", "hint": 65536, "dim": dim, "h": hh, "w": ww, "vseed": seed % 97,
                    "mask_recipe": {"kind": "hash", "seed": seed + 6, "dens": 400}}
            yield {**base, "tag": "always_large_index", "sub": "index"}
            form, sn = combos[(seed + len(dim)) % 4]
            yield {**base, "tag": "always_large_array", "sub": "array", "form": form, "store_native": sn,
                   "flavour": "fine", "container": "float"}
        yield {"kind": "large", "tag": "always_large_1d", "sub": "1d", "hint": 65536, "dim": "len1d",
               "L": 70001 + seed % 100, "mask_recipe": {"kind": "hash", "seed": seed + 8, "dens": 400},
               "vseed": seed % 97, "flavour": "fine"}

    @staticmethod
    def _large_inputs(case, m):
        """(values in the requested input form as float64 ndarray, native-shaped values) for a 2-D large case"""
        h, w = m.shape
        nat = _expand_values(case, h * w).reshape(h, w)
        if case["sub"] != "array":
            nat = np.stack((nat, -3.0 * nat + 1.0), axis=-1)
        return (nat[~m] if case["form"] == "slim" else nat), nat

    def _run_large(self, aa, case):
        m = _expand_mask(case)
        sub = case["sub"]
        if sub == "1d":
            from autoarray.structures.arrays import array_1d_util
            from autoarray.mask import mask_1d_util

            L = case["L"]
            m1 = aa.Mask1D(mask=m.copy(), pixel_scales=1.0)
            native = _expand_values(case, L)
            slim = array_1d_util.array_1d_slim_from(array_1d_native=native.copy(), mask_1d=m.copy())
            back = array_1d_util.array_1d_native_from(array_1d_slim=np.asarray(slim).copy(), mask_1d=m.copy())
            nfs = mask_1d_util.native_index_for_slim_index_1d_from(mask_1d=m.copy())
            out = {"slim": _digest(slim), "native_back": _digest(back), "nfs": _digest(nfs)}
            slim_in = native[~m]
            for nm, vals, sn in (("from_slim", slim_in, False), ("from_slim_sn", slim_in, True),
                                 ("from_native", native, False), ("from_native_sn", native, True)):
                a = aa.Array1D(values=vals.copy(), mask=m1, store_native=sn)
                out[nm + ".slim"] = _digest(a.slim.array)
                out[nm + ".native"] = _digest(a.native.array)
            return out
        mask = _mask2d(aa, np.array(m, order="F", copy=True) if case.get("mlay") == "f" else m.copy(),
                       scales=(0.75, 1.25), origin=(0.5, -0.25))
        if sub == "index":
            di = mask.derive_indexes
            return {"native_for_slim": _digest(di.native_for_slim), "unmasked_slim": _digest(di.unmasked_slim),
                    "masked_slim": _digest(di.masked_slim), "pixels_in_mask": int(mask.pixels_in_mask)}
        vals, _ = self._large_inputs(case, m)
        vals = _box(np.ascontiguousarray(vals), case.get("container", "float"))
        before = np.array(vals).copy()
        sn = case["store_native"]
        if sub == "array":
            s = aa.Array2D(values=vals, mask=mask, store_native=sn)
            nd_native = 2
        elif sub == "grid":
            s = aa.Grid2D(values=vals, mask=mask, store_native=sn)
            nd_native = 3
        else:
            s = aa.VectorYX2D(values=vals, grid=aa.Grid2D.from_mask(mask=mask), mask=mask, store_native=sn)
            nd_native = 3
        stored = np.asarray(s.array)
        out = {"stored": "native" if stored.ndim == nd_native else "slim",
               "slim": _digest(s.slim.array), "native": _digest(s.native.array),
               "input_unchanged": bool(np.array_equal(np.array(vals), before))}
        # the round trips of clause (c) through the public views (the gathers / scatters run once more)
        if sub in ("array", "grid"):
            out["native.slim"] = _digest(s.native.slim.array)
        if sub == "array":
            out["slim.native"] = _digest(s.slim.native.array)
        return out

    def _oracle_large(self, case, obs):
        m = _expand_mask(case)
        sub = case["sub"]
        where = f"[{case.get('dim')} ~ {case.get('hint')}; " + \
                (f"L={case['L']}" if sub == "1d" else f"{case['h']}x{case['w']}") + \
                f", {int((~m).sum())} unmasked] "
        if sub == "1d":
            native = _expand_values(case, case["L"])
            exp_slim = native[~m]
            exp_back = np.where(m, 0.0, native)
            checks = [("1-D slim (array_1d_slim_from)", obs["slim"], exp_slim),
                      ("1-D native(slim(a)) (array_1d_native_from)", obs["native_back"], exp_back),
                      ("1-D native_index_for_slim_index", obs["nfs"], np.flatnonzero(~m))]
            for nm in ("from_slim", "from_slim_sn", "from_native", "from_native_sn"):
                checks.append((f"Array1D[{nm}].slim", obs[nm + ".slim"], exp_slim))
                checks.append((f"Array1D[{nm}].native", obs[nm + ".native"], exp_back))
            for name, got, exp in checks:
                ok, d = _digest_eq(name, got, exp)
                if not ok:
                    return False, where + d
            return True, ""
        h, w = m.shape
        unm = np.flatnonzero(~m.ravel())
        if sub == "index":
            exp_nfs = np.stack((unm // w, unm % w), axis=1)
            for name, key, exp in (("native_for_slim (row-major (y,x) of the unmasked pixels)", "native_for_slim", exp_nfs),
                                   ("unmasked_slim", "unmasked_slim", unm),
                                   ("masked_slim", "masked_slim", np.flatnonzero(m.ravel()))):
                ok, d = _digest_eq(name, obs[key], exp)
                if not ok:
                    return False, where + d
            if obs["pixels_in_mask"] != int(unm.size):
                return False, where + f"pixels_in_mask {obs['pixels_in_mask']} != {int(unm.size)}"
            return True, ""
        _, nat = self._large_inputs(case, m)
        exp_slim = nat[~m]  # numpy boolean indexing: row-major order of the unmasked pixels
        exp_native = np.zeros_like(nat)
        exp_native[~m] = exp_slim
        tagd = f"{sub}(form={case['form']}, store_native={case['store_native']}, {case.get('container')})"
        for name, key, exp in ((".slim", "slim", exp_slim), (".native", "native", exp_native),
                               (".native.slim", "native.slim", exp_slim), (".slim.native", "slim.native", exp_native)):
            if key not in obs:
                continue
            ok, d = _digest_eq(tagd + name, obs[key], exp)
            if not ok:
                return False, where + d
        if obs.get("input_unchanged") is False:
            return False, where + f"the {sub} constructor wrote into the array passed to it"
        want = "native" if case["store_native"] else "slim"
        if obs["stored"] != want:
            return False, where + f"stored form {obs['stored']} != requested {want}"
        return True, ""

    # ================================================================== round 5/6: variant worlds (kind "var")
    @staticmethod
    def _var_keys(case, flag):
        """which quantities one round observes (a pure function of the input)"""
        struct = case["struct"]
        sn = _var_stored_native(case, flag)
        keys = ["stored"]
        if struct != "grid1d":
            keys.append("array")
        if not (struct == "array" and flag):
            keys.append("slim")  # under native_binned_only `.slim` of an Array2D is stored natively (documented)
        if not (struct == "grid1d" and case["form"] == "native" and sn):
            keys.append("native")  # a natively stored Grid1D keeps what it was given (1-D clause: round trips only)
        if struct == "array":
            keys.append("nsm")
        if not (struct == "array" and flag):
            keys += ["native.slim", "slim.native"]
        if case.get("util") and struct in ("array", "grid", "array1d"):
            keys += ["util_slim", "util_native"]
        return keys

    def _var_mask(self, aa, case, bits):
        """(mask object, ndarray handed in or None) for the case's mask presentation"""
        mp = case.get("mp", {})
        dim1 = case.get("dim") == 1
        via = mp.get("via", "plain")
        src = ~bits if via in ("invert", "invert_from_mask") else bits
        m_obj, m_fp = _present(src, mp.get("lay", "c"))
        cls = aa.Mask1D if dim1 else aa.Mask2D
        sc = mp.get("scales")
        if sc is None:
            scales = 1.0 if dim1 else (1.0, 2.0)
        elif isinstance(sc, int):
            scales = sc
        elif isinstance(sc, str):
            scales = float(Fraction(sc))
        else:
            scales = tuple(float(Fraction(s)) for s in sc)
        kw = {}
        if "origin" in mp:
            kw["origin"] = tuple((int(Fraction(o)) if mp.get("origin_int") else float(Fraction(o)))
                                 for o in mp["origin"])
        if "invert_tok" in mp:
            kw["invert"] = _TOK[mp["invert_tok"]]
        elif via in ("invert", "invert_from_mask"):
            kw["invert"] = True
        if via == "invert_from_mask":  # the complement wrapped in a mask object, inverted on the way in
            m0 = cls(mask=m_obj, pixel_scales=1.0 if dim1 else (1.0, 2.0))
            mask = cls(mask=m0, pixel_scales=scales, **kw)
        elif via in ("from_mask", "from_mask_o0"):
            m0 = cls(mask=m_obj, pixel_scales=1.0 if dim1 else (1.0, 2.0), origin=(0.5,) if dim1 else (0.5, -1.0))
            if via == "from_mask_o0":
                kw["origin"] = (0.0,) if dim1 else (0.0, 0.0)
            mask = cls(mask=m0, pixel_scales=scales, **kw)
        else:
            mask = cls(mask=m_obj, pixel_scales=scales, **kw)
        return mask, m_fp

    @staticmethod
    def _var_cls(aa, struct):
        return {"array": aa.Array2D, "grid": aa.Grid2D, "vector": aa.VectorYX2D, "array1d": aa.Array1D,
                "grid1d": aa.Grid1D}[struct]

    def _var_wrap(self, aa, case, vals_obj, m0, via):
        """the values wrapped in an existing structure of the same class"""
        struct = case["struct"]
        cls = self._var_cls(aa, struct)
        if via == "struct_junk":  # natively stored, junk under the mask kept (skip_mask)
            return aa.Array2D(values=vals_obj, mask=m0, store_native=True, skip_mask=True)
        if via == "arith":  # natively stored array + constant: the constant sits under the mask
            c = float(Fraction(case["vp"]["c"]))
            a0 = aa.Array2D(values=np.asarray(vals_obj, dtype=np.float64) - c, mask=m0, store_native=True)
            return a0 + c
        sn0 = via == "struct_native"
        if struct == "vector":
            return cls(values=vals_obj, grid=aa.Grid2D.from_mask(mask=m0), mask=m0, store_native=sn0)
        return cls(values=vals_obj, mask=m0, store_native=sn0)

    def _var_build(self, aa, case, vals_obj, mask):
        import inspect

        struct = case["struct"]
        cls = self._var_cls(aa, struct)
        opts = case.get("opts", {})
        kw = {}
        for name in ("store_native", "skip_mask"):
            if name in opts:
                kw[name] = _TOK[opts[name]]
        if "header" in opts:
            if opts["header"] == "none":
                kw["header"] = None
            else:
                from autoarray.structures.header import Header

                kw["header"] = Header(header_sci_obj={"EXPTIME": 2.0})
        for name, key in (("over_sampling", "over_sampling"), ("osnu", "over_sampling_non_uniform")):
            if name in opts:
                if opts[name]:
                    from autoarray.operators.over_sampling.uniform import OverSamplingUniform

                    kw[key] = OverSamplingUniform(sub_size=int(opts[name]))
                else:
                    kw[key] = None
        if opts.get("explicit_defaults"):  # every other parameter of the signature, at its default, explicitly
            for name, p in inspect.signature(cls.__init__).parameters.items():
                if name in ("self", "values", "mask", "grid") or name in kw:
                    continue
                if p.kind in (p.VAR_POSITIONAL, p.VAR_KEYWORD) or p.default is p.empty:
                    continue
                kw[name] = p.default
        via = case.get("vp", {}).get("via", "plain")
        if via in ("no_mask", "apply_mask"):  # the alternative constructors: an all-unmasked structure (then masked)
            kw.pop("store_native", None)
            kw.pop("skip_mask", None)
            mj = case["mask"]
            if struct in ("array", "grid", "vector") and np.ndim(vals_obj) == (1 if struct == "array" else 2):
                kw["shape_native"] = (mj["h"], mj["w"])
            sc = 1.0 if case.get("dim") == 1 else (1.0, 2.0)
            obj = cls.no_mask(values=vals_obj, pixel_scales=sc, **kw)
            return obj.apply_mask(mask=mask) if via == "apply_mask" else obj
        grid = aa.Grid2D.from_mask(mask=mask) if struct == "vector" else None
        if opts.get("positional"):
            if struct == "vector":
                return cls(vals_obj, grid, mask, **kw)
            return cls(vals_obj, mask, **kw)
        if struct == "vector":
            return cls(values=vals_obj, grid=grid, mask=mask, **kw)
        return cls(values=vals_obj, mask=mask, **kw)

    def _var_views(self, case, obj, flag, keys, n_cells, n_unmasked, returned):
        struct = case["struct"]
        out = {}
        stored = np.asarray(obj.array)
        if struct == "array":
            out["stored"] = "native" if stored.ndim == 2 else "slim"
        elif struct in ("grid", "vector"):
            out["stored"] = "native" if stored.ndim == 3 else "slim"
        elif n_cells != n_unmasked:
            out["stored"] = "native" if len(stored) == n_cells else "slim"
        else:  # every pixel unmasked: the two forms coincide
            out["stored"] = "native" if _var_stored_native(case, flag) else "slim"
        returned.append(stored)
        if "array" in keys:
            out["array"] = _var_flat(struct, stored)
        for key in keys:
            if key in ("slim", "native", "native.slim", "slim.native"):
                o = obj
                for part in key.split("."):
                    o = getattr(o, part)
                a = np.asarray(o.array)
                returned.append(a)
                out[key] = _var_flat(struct, a)
        if "nsm" in keys:
            a = np.asarray(obj.native_skip_mask.array)
            returned.append(a)
            out["nsm"] = _var_flat(struct, a)
        return out

    def _var_util(self, aa, case, bits, base_vals, returned):
        """the anchored util functions called directly with plain ndarrays in the case's layouts"""
        from autoarray.structures.arrays import array_2d_util, array_1d_util
        from autoarray.structures.grids import grid_2d_util

        struct, form = case["struct"], case["form"]
        m_arr, _ = _present(bits, "c" if case.get("mp", {}).get("lay", "c") in ("list", "u8", "i64", "f32")
                            else case.get("mp", {}).get("lay", "c"))
        lay = case.get("vp", {}).get("lay", "c")
        v_arr, _ = _present(base_vals, "c" if lay in ("list", "i64", "i32", "f32") else lay)
        if struct == "array":
            to_slim = lambda a: array_2d_util.array_2d_slim_from(array_2d_native=a, mask_2d=m_arr)
            to_native = lambda s: array_2d_util.array_2d_native_from(array_2d_slim=s, mask_2d=m_arr)
        elif struct == "grid":
            to_slim = lambda a: grid_2d_util.grid_2d_slim_from(grid_2d_native=a, mask=m_arr)
            to_native = lambda s: grid_2d_util.grid_2d_native_from(grid_2d_slim=s, mask_2d=m_arr)
        else:
            to_slim = lambda a: array_1d_util.array_1d_slim_from(array_1d_native=a, mask_1d=m_arr)
            to_native = lambda s: array_1d_util.array_1d_native_from(array_1d_slim=s, mask_1d=m_arr)
        if form == "native":
            s = np.asarray(to_slim(v_arr))
            n = np.asarray(to_native(s.copy()))
        else:
            n = np.asarray(to_native(v_arr))
            s = np.asarray(to_slim(n.copy()))
        returned += [s, n]
        return {"util_slim": _var_flat(struct, s), "util_native": _var_flat(struct, n)}

    def _var_round(self, aa, case, bits, base_vals, shared_mask, flag):
        struct = case["struct"]
        dim1 = case.get("dim") == 1
        vp = case.get("vp", {})
        returned, accepted = [], []
        if shared_mask is not None:
            mask, m_fp = shared_mask, None
        else:
            mask, m_fp = self._var_mask(aa, case, bits)
        m_before = None if m_fp is None else np.array(m_fp, copy=True)
        vals_obj, v_fp = _present(base_vals, vp.get("lay", "c"))
        v_before = None if v_fp is None else np.array(v_fp, copy=True)
        via = vp.get("via", "plain")
        if via not in ("plain", "no_mask", "apply_mask"):
            m0 = mask if vp.get("same_mask", True) else self._var_mask(aa, case, bits)[0]
            vals_obj = self._var_wrap(aa, case, vals_obj, m0, via)
        obj = self._var_build(aa, case, vals_obj, mask)
        out = {}
        if case.get("index") and not dim1:
            di = mask.derive_indexes
            nfs, unm, msk = (np.asarray(di.native_for_slim), np.asarray(di.unmasked_slim),
                             np.asarray(di.masked_slim))
            out["index"] = {"native_for_slim": [[int(a), int(b)] for a, b in nfs],
                            "unmasked_slim": [int(v) for v in unm], "masked_slim": [int(v) for v in msk],
                            "pixels_in_mask": int(mask.pixels_in_mask)}
            returned += [nfs, unm, msk]
        keys = self._var_keys(case, flag)
        out.update(self._var_views(case, obj, flag, keys, int(bits.size), int((~bits).sum()), returned))
        if "util_slim" in keys:
            out.update(self._var_util(aa, case, bits, base_vals, returned))
        ok = True
        if v_fp is not None:
            ok = ok and bool(np.array_equal(v_fp, v_before))
        if m_fp is not None:
            ok = ok and bool(np.array_equal(m_fp, m_before))
        out["input_unchanged"] = ok
        accepted += [a for a in (v_fp, m_fp) if a is not None]
        if not case.get("reuse_mask"):
            returned.append(np.asarray(mask.array))
        return out, {"obj": obj, "mask": mask, "returned": returned, "accepted": accepted}

    def _run_var(self, aa, case):
        if not _var_wellformed(case):
            raise Skip("malformed variant case")
        bits = np.array(_var_bits(case), dtype=bool)
        if case.get("dim") != 1:
            bits = bits.reshape(case["mask"]["h"], case["mask"]["w"])
        base_vals = _var_np_values(case)
        rounds = case["rounds"]
        outs, kept = [], []
        shared = None
        try:
            for r in rounds:
                flag = bool(r.get("flag", False))
                _set_native_only(flag)
                out, objs = self._var_round(aa, case, bits, base_vals, shared, flag)
                if case.get("reuse_mask"):
                    shared = objs["mask"]
                if self._var_prev_ok(case, len(outs)):
                    # the object of the previous round, read under the configuration in force now
                    out["prev.native"] = _var_flat(case["struct"], np.asarray(kept[-1]["obj"].native.array))
                outs.append(out)
                kept.append(objs)
                if r.get("scribble"):
                    _scribble(objs["returned"] + objs["accepted"], r["scribble"])
        finally:
            _set_native_only(False)  # always back to the pinned configuration
        obs = {"rounds": outs}
        if self._var_has_late(case):
            # configuration histories: every object read again under the pinned configuration
            late = []
            for objs in kept:
                sink = []
                v = self._var_views(case, objs["obj"], False, ["slim", "native"], int(bits.size),
                                    int((~bits).sum()), sink)
                late.append({"slim": v["slim"], "native": v["native"]})
            obs["late"] = late
        return obs

    @staticmethod
    def _var_prev_ok(case, k):
        """round k also re-reads `.native` of the object built in round k-1 (unless that one was scribbled over)"""
        if k < 1 or case["rounds"][k - 1].get("scribble"):
            return False
        if case["struct"] == "grid1d" and case["form"] == "native" and \
                _var_stored_native(case, case["rounds"][k - 1].get("flag", False)):
            return False
        return True

    @staticmethod
    def _var_has_late(case):
        rounds = case["rounds"]
        if case["struct"] == "grid1d":
            return False
        return any(r.get("flag") for r in rounds) and not any(r.get("scribble") for r in rounds)

    # -- model side: the existing driver ops, asked for a FRESH world in the state of every round
    def _var_round_requests(self, case, flag):
        struct = case["struct"]
        mj = case["mask"]
        sn = _var_stored_native(case, flag)
        reqs = []
        if case.get("index") and case.get("dim") != 1:
            reqs += [{"op": "c01.native_for_slim", "mask": mj},
                     {"op": "c01.mask_slim_indexes", "mask": mj, "flag": False},
                     {"op": "c01.mask_slim_indexes", "mask": mj, "flag": True},
                     {"op": "c01.total_pixels", "mask": mj}]
        if struct == "array":
            reqs.append({"op": "c01.array_convert", "mask": mj, "form": case["form"], "values": case["values"],
                         "store_native": sn, "skip_mask": bool(_tok(case.get("opts", {}), "skip_mask"))})
        elif struct in ("grid", "vector"):
            reqs.append({"op": "c01.grid_convert", "mask": mj, "form": case["form"], "values": case["values"],
                         "store_native": sn})
        elif struct == "array1d":
            reqs.append({"op": "c01.array1d_convert", "bits": mj["bits"], "values": case["values"],
                         "store_native": sn})
        else:  # grid1d: the 1-D gather / scatter
            if case["form"] == "native":
                slim = [v for v, b in zip(case["values"], mj["bits"]) if b == "0"]
                reqs.append({"op": "c01.array1d", "dir": "slim_from", "bits": mj["bits"], "values": case["values"]})
            else:
                slim = case["values"]
            reqs.append({"op": "c01.array1d", "dir": "native_from", "bits": mj["bits"], "values": slim})
        return reqs

    def _var_round_fold(self, case, flag, responses):
        for r in responses:
            if "err" in r:
                return {"err": r["err"]}
        struct = case["struct"]
        out = {}
        at = 0
        if case.get("index") and case.get("dim") != 1:
            out["index"] = {"native_for_slim": responses[0]["ok"], "unmasked_slim": responses[1]["ok"],
                            "masked_slim": responses[2]["ok"], "pixels_in_mask": responses[3]["ok"]}
            at = 4
        sn = _var_stored_native(case, flag)
        if struct == "grid1d":
            if case["form"] == "native":
                slim, native = responses[at]["ok"], responses[at + 1]["ok"]
            else:
                slim, native = case["values"], responses[at]["ok"]
            full = {"stored": "native" if sn else "slim", "slim": slim, "native": native}
        else:
            r = responses[at]["ok"]
            st = r["stored"]
            if isinstance(st, dict):
                kind, arr = st["stored"], st["values"]
            else:
                kind, arr = st, (r["native"] if st == "native" else r["slim"])
            full = {"stored": kind, "array": arr, "slim": r["slim"], "native": r["native"]}
            full["nsm"] = arr if kind == "native" else r["native"]
        full["native.slim"] = full["slim"]
        full["slim.native"] = full["native"]
        full["util_slim"] = full["slim"]
        full["util_native"] = full["native"]
        for k in self._var_keys(case, flag):
            out[k] = full[k]
        out["nsm_native"] = full["native"]  # (popped by the caller; the native view whatever the keys are)
        return out

    def _var_model_obs(self, case, responses):
        outs, at = [], 0
        for r in case["rounds"]:
            flag = bool(r.get("flag", False))
            n = len(self._var_round_requests(case, flag))
            o = self._var_round_fold(case, flag, responses[at:at + n])
            if "err" not in o and self._var_prev_ok(case, len(outs)):
                o["prev.native"] = o["nsm_native"]
            o.pop("nsm_native", None)
            outs.append(o)
            at += n
        obs = {"rounds": outs}
        if self._var_has_late(case):
            # `.slim` / `.native` of an object do not depend on how it is stored: every late read equals the
            # views of a fresh world built under the pinned configuration (requested separately)
            c2 = {**case, "index": False, "util": False}
            n = len(self._var_round_requests(c2, False))
            o = self._var_round_fold(c2, False, responses[at:at + n])
            one = {"err": o["err"]} if "err" in o else {"slim": o["slim"], "native": o["native"]}
            obs["late"] = [one for _ in case["rounds"]]
        return obs

    def _var_requests(self, case):
        reqs = []
        for r in case["rounds"]:
            reqs += self._var_round_requests(case, bool(r.get("flag", False)))
        if self._var_has_late(case):
            reqs += self._var_round_requests({**case, "index": False, "util": False}, False)
        return reqs

    # -- oracle
    def _oracle_var(self, case, obs):
        rounds = obs.get("rounds", [])
        if len(rounds) != len(case["rounds"]):
            return False, f"history produced {len(rounds)} rounds, expected {len(case['rounds'])}"
        bits = _var_bits(case)
        w = case["mask"].get("w")
        unm = [i for i, b in enumerate(bits) if not b]
        struct = case["struct"]
        desc = (f"{struct}(form={case['form']}, opts={case.get('opts', {})}, values as "
                f"{case.get('vp', {}).get('lay', 'c')}/{case.get('vp', {}).get('via', 'plain')}, mask as "
                f"{case.get('mp', {}).get('lay', 'c')}/{case.get('mp', {}).get('via', 'plain')})")
        for k, (r, got) in enumerate(zip(case["rounds"], rounds)):
            flag = bool(r.get("flag", False))
            where = f"round {k}" + (" [native_binned_only=True]" if flag else "") + \
                    (" (after the arrays of the previous round were overwritten in place)"
                     if k and case["rounds"][k - 1].get("scribble") else "")
            exp, conv = _var_expect(case, flag)
            if "index" in got or (case.get("index") and case.get("dim") != 1):
                gi = got.get("index", {})
                expi = {"native_for_slim": [[i // w, i % w] for i in unm], "unmasked_slim": unm,
                        "masked_slim": [i for i, b in enumerate(bits) if b], "pixels_in_mask": len(unm)}
                for name, e in expi.items():
                    if gi.get(name) != e:
                        return False, f"{where}: {name} = {gi.get(name)} does not describe the mask (expected {e}); {desc}"
            for key in self._var_keys(case, flag):
                if key == "stored":
                    if got.get("stored") != exp["stored"]:
                        return False, (f"{where}: stored form {got.get('stored')} != {exp['stored']} "
                                       f"(the value in force at call time); {desc}")
                    continue
                e = {"array": exp["array"], "slim": exp["slim"], "native": exp["native"],
                     "nsm": exp.get("nsm"), "native.slim": exp["slim"], "slim.native": exp["native"],
                     "util_slim": exp["slim"], "util_native": exp["native"]}[key]
                try:
                    g = [conv(x) for x in got[key]]
                except (KeyError, ValueError, ZeroDivisionError, TypeError):
                    return False, f"{where}: .{key} is missing or not finite ({str(got.get(key))[:120]}); {desc}"
                if g != e:
                    what = {"array": "the stored ndarray (.array)", "nsm": ".native_skip_mask",
                            "util_slim": "the util gather", "util_native": "the util scatter"}.get(key, "." + key)
                    return False, (f"{where}: {what} does not hold the unmasked values in row-major order / "
                                   f"zeros at the masked positions; {desc}")
            if got.get("input_unchanged") is False:
                return False, f"{where}: an array handed to the API was modified in place; {desc}"
            if self._var_prev_ok(case, k):
                try:
                    g = [conv(x) for x in got["prev.native"]]
                except (KeyError, ValueError, ZeroDivisionError, TypeError):
                    return False, f"{where}: .native of the previous round's object missing or not finite; {desc}"
                if g != exp["native"]:
                    return False, (f"{where}: .native of the object built in round {k - 1}, read now, does not hold "
                                   f"the values with zeros at the masked positions; {desc}")
        if self._var_has_late(case):
            exp, conv = _var_expect(case, False)
            late = obs.get("late", [])
            if len(late) != len(case["rounds"]):
                return False, "late reads missing"
            for k, got in enumerate(late):
                for key in ("slim", "native"):
                    try:
                        g = [conv(x) for x in got[key]]
                    except (KeyError, ValueError, ZeroDivisionError, TypeError):
                        return False, f"late read of round {k}: .{key} missing or not finite; {desc}"
                    if g != exp[key]:
                        return False, (f"late read of the object built in round {k} (configuration back to the "
                                       f"pinned value): .{key} wrong; {desc}")
        return True, ""

    # -- generation of variant worlds
    VAR_SHAPES = ((1, 1), (1, 4), (4, 1), (2, 2), (2, 3), (3, 2), (3, 4), (4, 3), (2, 5), (5, 2), (4, 4), (3, 5))

    @staticmethod
    def _var_fr_values(rng, n, flavour):
        """n exact values (Fractions): distinct signed integers, quarters, > 24-bit mantissas, or a mix with
        exact zeros and repeated values among them"""
        ints = gen.distinct_ints(rng, n) if n else []
        if flavour == "quarter":
            return [Fraction(x, 4) for x in ints]
        if flavour == "fine":
            return [Fraction(x) + Fraction(1 + k % 3, 1 << 20) for k, x in enumerate(ints)]
        if flavour == "zeros":
            out = [Fraction(x) for x in ints]
            for k in range(n):
                u = rng.random()
                if u < 0.3:
                    out[k] = Fraction(0)
                elif u < 0.4 and k:
                    out[k] = out[k - 1]
            return out
        return [Fraction(x) for x in ints]

    def _var_world(self, rng, struct=None, form=None, flavour=None, shape=None, junk=None):
        """(case skeleton, masked flags per value, Fractions per value) of a random small world"""
        struct = struct or rng.choice(["array", "array", "grid", "vector", "array1d", "grid1d"])
        dim1 = struct in ("array1d", "grid1d")
        if dim1:
            L = shape or rng.choice([1, 2, 3, 4, 5, 7])
            bits = [rng.random() < rng.choice([0.0, 0.3, 0.6]) for _ in range(L)]
            if all(bits):
                bits[rng.randrange(L)] = False
            mj = {"bits": "".join("1" if b else "0" for b in bits)}
        else:
            h, w = shape or rng.choice(self.VAR_SHAPES)
            m, _ = gen.random_mask(rng, h, w)
            bits = [b for r in m for b in r]
            mj = mask_json(m)
        form = form or rng.choice(["slim", "native"])
        flavour = flavour or rng.choice(["int", "int", "quarter", "fine", "zeros"])
        if form == "native":
            masked = list(bits)
        else:
            masked = [False] * bits.count(False)
        fr = self._var_fr_values(rng, len(masked), flavour)
        if form == "native" and (rng.random() < 0.25 if junk is None else not junk):  # no junk under the mask
            fr = [Fraction(0) if mk else v for v, mk in zip(fr, masked)]
        case = {"kind": "var", "dim": 1 if dim1 else 2, "mask": mj, "struct": struct, "form": form,
                "flavour": flavour}
        return case, masked, fr

    @staticmethod
    def _var_finish(case, fr, pair_b=None):
        """fill in `values` from Fractions; None when a value is not an exact double"""
        pair = case["struct"] in ("grid", "vector")

        def exact(x):
            try:
                return Fraction(float(x)) == x
            except OverflowError:
                return False

        if pair:
            pb = pair_b or (lambda v: -3 * v + 1)
            vals = [(v, pb(v)) for v in fr]
            if not all(exact(a) and exact(b) for a, b in vals):
                return None
            case["values"] = [[q(a), q(b)] for a, b in vals]
        else:
            if not all(exact(v) for v in fr):
                return None
            case["values"] = qlist(fr)
        case.pop("flavour", None)
        return case if _var_wellformed(case) else None

    DEC_KS = (-45, -33, -20, -9, 9, 20, 33, 45)
    DEC_EXTREME_KS = (-1060, -1000, -700, -500, -200, 200, 500, 700, 1000)

    def _var_decades(self, rng, n_base):
        """R5-A / R5-E: the whole world, or one ingredient, scaled by 2^k (exact); nearly uniform values;
        junk under the mask far smaller / larger than the values; geometry far from the origin"""
        one = [{"flag": False}]
        for b in range(n_base):
            case, masked, fr = self._var_world(rng)
            case["rounds"] = one
            case["index"] = rng.random() < 0.3
            case["util"] = rng.random() < 0.3
            if rng.random() < 0.3:
                case["opts"] = {"store_native": rng.choice(["T", "1", "npT"])}
            ks = rng.sample(self.DEC_KS, 3)
            for k in ks:  # the whole world: values, junk and the mask's geometry
                s = Fraction(2) ** k
                c = _copy.deepcopy(case)
                c["tag"] = "dec_world"
                c["k"] = k
                if c["dim"] == 2:
                    c["mp"] = {"scales": [q(s), q(3 * s)], "origin": [q(3 * s * (1 << 17)), q(-5 * s * (1 << 16))]}
                else:
                    c["mp"] = {"scales": q(s), "origin": [q(3 * s * (1 << 17))]}
                c = self._var_finish(c, [v * s for v in fr])
                if c:
                    yield c
            for k in rng.sample(self.DEC_EXTREME_KS, 2):  # out to the limits of float64 (values are only copied)
                s = Fraction(2) ** k
                c = _copy.deepcopy(case)
                c["tag"] = "dec_extreme"
                c["k"] = k
                base = [Fraction(int(v)) if k < -1000 else v for v in fr]
                c = self._var_finish(c, [v * s for v in base])
                if c:
                    yield c
            if case["form"] == "native" and any(masked):
                for k in rng.sample((-60, -45, -40, -30, 30, 45, 60), 3):  # only the junk under the mask
                    s = Fraction(2) ** k
                    c = _copy.deepcopy(case)
                    c["tag"] = "dec_junk"
                    c["k"] = k
                    junk = [(v if v != 0 else Fraction(1)) * s if mk else v for v, mk in zip(fr, masked)]
                    c = self._var_finish(c, junk)
                    if c:
                        yield c
            # nearly uniform values (relative differences 2^-20 … 2^-40) at several decades
            e = rng.choice([20, 30, 40])
            cc = Fraction(rng.choice([1, 3, 5, 40]) * rng.choice([1, -1]))
            for k in rng.sample((-45, -20, 0, 20, 45), 2):
                s = Fraction(2) ** k
                c = _copy.deepcopy(case)
                c["tag"] = "dec_uniform"
                c["k"] = k
                vals = [cc * (1 + Fraction(i + 1, 1 << e)) * s for i in range(len(fr))]
                if rng.random() < 0.5:  # the first value repeated exactly, the others within 2^-e of it
                    vals[0] = cc * s
                c = self._var_finish(c, vals, pair_b=lambda v: -2 * v)
                if c:
                    yield c

    def _var_ownership(self, rng, n):
        """R5-B: observe -> overwrite every returned / accepted array in place -> rebuild from fresh equal
        inputs -> observe; three rounds"""
        for _ in range(n):
            case, masked, fr = self._var_world(rng)
            how = rng.choice(["fill", "add1"])
            case["rounds"] = [{"flag": False, "scribble": how}, {"flag": False, "scribble": how}, {"flag": False}]
            case["index"] = case["dim"] == 2
            case["util"] = True
            case["reuse_mask"] = rng.random() < 0.3
            case["tag"] = "own_reuse_mask" if case["reuse_mask"] else "own_fresh"
            opts = {}
            if rng.random() < 0.5:
                opts["store_native"] = "T"
            if case["struct"] == "array" and case["form"] == "native" and rng.random() < 0.3:
                opts["skip_mask"] = "T"
            case["opts"] = opts
            vias = ["plain", "plain"]
            if not opts.get("skip_mask"):
                vias += ["struct_slim", "struct_native"]
            if case["struct"] == "array" and case["form"] == "native":
                vias.append("struct_junk")
            case["vp"] = {"lay": rng.choice(["c", "c", "f", "list", "strided"]), "via": rng.choice(vias),
                          "same_mask": rng.random() < 0.5}
            case["mp"] = {"lay": rng.choice(["c", "c", "f", "list"]),
                          "via": rng.choice(["plain", "plain", "from_mask", "from_mask_o0"])}
            c = self._var_finish(case, fr)
            if c:
                yield c

    def _var_layouts(self, rng, n_worlds):
        """R5-C: every array-taking entry point with equal-valued inputs in every layout / dtype / container"""
        one = [{"flag": False}]
        for _ in range(n_worlds):
            for struct in ("array", "grid", "vector", "array1d", "grid1d"):
                for form in ("slim", "native"):
                    for sn in ("F", "T"):
                        # values small enough for float32 / int32 in one world, > 24-bit mantissas in the other
                        for lay in _VAL_LAYS:
                            fl = "int" if lay in ("f32", "i64", "i32") else rng.choice(["int", "quarter", "fine", "zeros"])
                            case, masked, fr = self._var_world(rng, struct=struct, form=form, flavour=fl)
                            case.update({"tag": f"lay_val_{lay}", "rounds": one, "opts": {"store_native": sn},
                                         "vp": {"lay": lay}, "util": rng.random() < 0.5,
                                         "mp": {"lay": rng.choice(_MASK_LAYS)}, "index": rng.random() < 0.3})
                            c = self._var_finish(case, fr)
                            if c:
                                yield c
                        vias = ["struct_slim", "struct_native"]
                        if struct == "array" and form == "native":
                            vias += ["struct_junk", "arith"]
                        for via in vias:
                            for same in (True, False):
                                case, masked, fr = self._var_world(rng, struct=struct, form=form, flavour="int")
                                vp = {"via": via, "same_mask": same, "lay": rng.choice(["c", "f", "list"])}
                                if via == "arith":
                                    cst = rng.choice([10, -3, 7])
                                    vp["c"] = str(cst)
                                    vp["lay"] = "c"
                                    fr = [Fraction(cst) if mk else v for v, mk in zip(fr, masked)]
                                opts = {"store_native": sn}
                                if via == "struct_junk" and rng.random() < 0.4:
                                    opts["skip_mask"] = "T"
                                case.update({"tag": f"lay_{via}", "rounds": one, "opts": opts, "vp": vp,
                                             "mp": {"lay": rng.choice(["c", "f", "tview"])}})
                                c = self._var_finish(case, fr)
                                if c:
                                    yield c
            # the alternative constructors: `no_mask` (all-unmasked world) and `no_mask(...).apply_mask(mask)`
            for struct in ("array", "grid", "vector", "array1d", "grid1d"):
                for form in ("slim", "native"):
                    for lay in ("c", "f", "list", "strided", "i64"):
                        shape = rng.choice([1, 3, 6]) if struct in ("array1d", "grid1d") else rng.choice(self.VAR_SHAPES)
                        case, masked, fr = self._var_world(rng, struct=struct, form=form, shape=shape,
                                                           flavour="int" if lay == "i64" else None)
                        mj = case["mask"]
                        case["mask"] = {**mj, "bits": "0" * len(mj["bits"])}
                        n = len(mj["bits"])
                        fr = self._var_fr_values(rng, n, "int" if lay == "i64" else rng.choice(["int", "fine", "zeros"]))
                        case.update({"tag": "alt_no_mask", "rounds": one, "vp": {"lay": lay, "via": "no_mask"},
                                     "index": True, "util": False})
                        c = self._var_finish(case, fr)
                        if c:
                            yield c
                if struct in ("array", "vector"):
                    for lay in ("c", "f", "list", "tview"):
                        case, masked, fr = self._var_world(rng, struct=struct, form="native", junk=True)
                        case.update({"tag": "alt_apply_mask", "rounds": one, "vp": {"lay": lay, "via": "apply_mask"},
                                     "mp": {"lay": rng.choice(["c", "f", "list"])}, "index": True})
                        c = self._var_finish(case, fr)
                        if c:
                            yield c
            # the mask in every layout / dtype / container and by every construction route
            for lay in _MASK_LAYS:
                for via in ("plain", "from_mask", "from_mask_o0", "invert", "invert_from_mask"):
                    for dim_struct in ("array", "grid", "array1d"):
                        case, masked, fr = self._var_world(rng, struct=dim_struct)
                        case.update({"tag": f"lay_mask_{lay}" if via == "plain" else f"lay_mask_{via}",
                                     "rounds": one, "index": True, "mp": {"lay": lay, "via": via},
                                     "opts": {"store_native": rng.choice(["F", "T"])}, "util": True})
                        c = self._var_finish(case, fr)
                        if c:
                            yield c

    def _var_config(self, rng, n):
        """R5-D: `general.structures.native_binned_only` flipped between calls, on fresh and on reused mask
        objects; the stored form must follow the value in force at call time, the views never change"""
        # every sequence holds both values, so that it is self-contained when replayed in a fresh process
        seqs = ([False, True, False], [True, False], [True, True, False], [False, True], [True, False, True],
                [False, True, True, False])
        for i in range(n):
            struct = "array" if i % 3 else rng.choice(["grid", "vector", "array1d", "array"])
            case, masked, fr = self._var_world(rng, struct=struct)
            seq = seqs[i % len(seqs)]
            case["rounds"] = [{"flag": f} for f in seq]
            case["reuse_mask"] = rng.random() < 0.5
            case["index"] = rng.random() < 0.2
            opts = {}
            u = rng.random()
            if u < 0.3:
                opts["store_native"] = rng.choice(["T", "1"])
            elif u < 0.6:
                opts["store_native"] = rng.choice(["F", "0", "npF"])  # explicit value as control
            if struct == "array" and case["form"] == "native" and rng.random() < 0.25:
                opts["skip_mask"] = "T"
            case["opts"] = opts
            vias = ["plain", "plain", "plain"]
            if not opts.get("skip_mask"):
                vias += ["struct_slim", "struct_native"]
            if struct == "array" and case["form"] == "native":
                vias.append("struct_junk")
            case["vp"] = {"via": rng.choice(vias), "same_mask": rng.random() < 0.5,
                          "lay": rng.choice(["c", "list", "f"])}
            case["tag"] = "cfg_reuse_mask" if case["reuse_mask"] else "cfg_fresh"
            c = self._var_finish(case, fr)
            if c:
                yield c

    def _var_options(self, rng, n_worlds):
        """R5-F: the options of every constructor the property names (introspected), crossed pairwise, with
        "set but falsy" values; every other parameter of the signature explicitly at its default"""
        import inspect

        aa = load_autoarray()
        one = [{"flag": False}]
        toks = ("F", "T", "0", "1", "npF", "npT")
        menu = {"store_native": [("store_native", t) for t in toks],
                "skip_mask": [("skip_mask", t) for t in toks],
                "header": [("header", "none"), ("header", "hdr")],
                "over_sampling": [("over_sampling", 0), ("over_sampling", 1), ("over_sampling", 2)],
                "over_sampling_non_uniform": [("osnu", 0), ("osnu", 2)]}
        for struct in ("array", "grid", "vector", "array1d", "grid1d"):
            try:
                params = inspect.signature(self._var_cls(aa, struct).__init__).parameters
            except (TypeError, ValueError):
                continue
            names = [n for n in menu if n in params]
            settings = []  # option dicts: singles and every pair of values of two different options
            for a_i, a in enumerate(names):
                settings += [dict([s]) for s in menu[a]]
                for b in names[a_i + 1:]:
                    settings += [dict([s, t]) for s in menu[a] for t in menu[b]]
            if len(names) == 3:  # few enough to cross all three
                settings += [dict([s, t, u]) for s in menu[names[0]] for t in menu[names[1]] for u in menu[names[2]]]
            for wi in range(n_worlds):
                for opts0 in settings:
                    for form in ("slim", "native"):  # native inputs always carry junk under the mask here
                        case, masked, fr = self._var_world(rng, struct=struct, form=form, junk=True)
                        opts = dict(opts0)
                        u = rng.random()
                        if u < 0.2:
                            opts["positional"] = True
                        elif u < 0.45:
                            opts["explicit_defaults"] = True
                        case.update({"tag": f"opt_{struct}", "rounds": one, "opts": opts,
                                     "index": False, "util": False})
                        if rng.random() < 0.3:
                            vias = ["struct_junk"] if (struct == "array" and form == "native") else []
                            if not ("skip_mask" in opts and _TOK[opts["skip_mask"]]):
                                vias += ["struct_slim", "struct_native"]
                            if vias:
                                case["vp"] = {"via": rng.choice(vias), "same_mask": rng.random() < 0.6}
                        c = self._var_finish(case, fr)
                        if c:
                            yield c
        # the mask constructors: invert x origin x pixel scales x construction route (boolean input only)
        inv = ("F", "T", "0", "1", "npT")
        origins = (None, ["0", "0"], ["0", "0", "int"], ["98304", "-163840"], ["1/2", "-1"])
        scales = (None, "2", 1, ["1/2", "3"], ["1/1024", "1/1024"])
        for _ in range(n_worlds):
            for struct in ("array", "grid", "array1d"):
                combos = [(i, o, None) for i in inv for o in origins] + [(i, None, s) for i in inv for s in scales] + \
                         [("F", o, s) for o in origins for s in scales]
                for i_tok, org, sc in combos:
                    case, masked, fr = self._var_world(rng, struct=struct)
                    dim1 = case["dim"] == 1
                    mp = {"lay": rng.choice(["c", "f", "list", "ro", "tview"]), "invert_tok": i_tok}
                    if _TOK[i_tok]:
                        mp["via"] = rng.choice(["invert", "invert", "invert_from_mask"])
                    elif rng.random() < 0.4:
                        mp["via"] = rng.choice(["from_mask", "from_mask_o0"])
                    if org is not None and mp.get("via") != "from_mask_o0":
                        o = [x for x in org if x != "int"]
                        mp["origin"] = o[:1] if dim1 else o
                        if "int" in org:
                            mp["origin_int"] = True
                    if sc is not None:
                        mp["scales"] = (sc[0] if dim1 else sc) if isinstance(sc, list) else sc
                    case.update({"tag": "opt_mask", "rounds": one, "mp": mp, "index": True, "util": False,
                                 "opts": {"store_native": rng.choice(["F", "T"])}})
                    c = self._var_finish(case, fr)
                    if c:
                        yield c

    def _var_cases(self, tier, rng):
        mult = 1 if tier == "quick" else 6
        yield from self._var_decades(rng, n_base=60 * mult)
        yield from self._var_ownership(rng, n=150 * mult)
        yield from self._var_layouts(rng, n_worlds=2 if tier == "quick" else 8)
        yield from self._var_config(rng, n=180 * mult)
        yield from self._var_options(rng, n_worlds=2 if tier == "quick" else 8)

    def theorems_for(self, case):
        return {
            "index": ["C01.nativeForSlim_eq_spec", "C01.maskSlimIndexes_partition"],
            "1d": ["C01.roundtrip_1d_slim", "C01.roundtrip_1d_native", "C01.slim1d_lists_unmasked"],
            "1dcon": ["C01.constructor_forms_agree_1d"],
        }.get(case["kind"], ["C01.slim_lists_unmasked_row_major", "C01.native_holds_values_and_zeros",
                             "C01.constructor_forms_agree"])


CHECK = C01()
