"""C01 — slim and native forms are exact, order-preserving inverses under any mask."""
from __future__ import annotations

import itertools
from fractions import Fraction

import numpy as np

import gen
from common import PropertyCheck, Skip, load_autoarray, mask_json, q, qlist


def _mask2d(aa, m, scales=(1.0, 1.0), origin=(0.0, 0.0)):
    return aa.Mask2D(mask=np.array(m, dtype=bool), pixel_scales=scales, origin=origin)


class C01(PropertyCheck):
    pid = "C01"
    title = "slim/native inverses"
    nontrivial_rule = (
        "exhaustive masks per shape (every mask with >=1 unmasked pixel) + structured random masks; "
        "a case is non-trivial when the mask has both masked and unmasked pixels; distinct = distinct "
        "(op, mask, values, form, storage)"
    )
    exhaustive_note = {
        "quick": "all masks with >=1 unmasked pixel for every shape with H*W <= 9 (index ops) and H*W <= 6 (constructors)",
        "thorough": "all masks with >=1 unmasked pixel for every shape with H*W <= 14 (index ops) and H*W <= 9 (constructors)",
    }
    # loop ties (DESIGN §12): Generated/LoopsSlim.lean is regenerated from the source on every run and
    # Proofs/TieSlim.lean proves each generated definition equal to the Impl function, for all sizes
    loop_tie_modules = ["LoopsSlim"]
    modelled_functions = [
        "autoarray/mask/mask_2d_util.py:native_index_for_slim_index_2d_from",
        "autoarray/mask/mask_2d_util.py:mask_slim_indexes_from",
        "autoarray/mask/mask_2d_util.py:total_pixels_2d_from",
        "autoarray/structures/arrays/array_2d_util.py:array_2d_slim_from",
        "autoarray/structures/arrays/array_2d_util.py:array_2d_native_from",
        "autoarray/structures/arrays/array_2d_util.py:array_2d_via_indexes_from",
        "autoarray/structures/arrays/array_2d_util.py:convert_array_2d",
        "autoarray/structures/arrays/array_2d_util.py:check_array_2d_and_mask_2d",
        "autoarray/structures/grids/grid_2d_util.py:convert_grid_2d",
        "autoarray/structures/grids/grid_2d_util.py:grid_2d_slim_from",
        "autoarray/structures/grids/grid_2d_util.py:grid_2d_native_from",
        "autoarray/structures/arrays/array_1d_util.py:convert_array_1d",
        "autoarray/structures/arrays/array_1d_util.py:array_1d_slim_from",
        "autoarray/structures/arrays/array_1d_util.py:array_1d_native_from",
        "autoarray/structures/arrays/array_1d_util.py:array_1d_via_indexes_1d_from",
        "autoarray/mask/mask_1d_util.py:native_index_for_slim_index_1d_from",
    ]
    trusted_extra = ["numpy broadcasting `*=`/`stack` glue in the constructors is covered by correspondence only"]

    # ------------------------------------------------------------------ generation
    def generate(self, tier, rng):
        idx_cells = 9 if tier == "quick" else 14
        con_cells = 6 if tier == "quick" else 9
        # 1. index tables, exhaustive
        for (h, w) in gen.shapes_upto(idx_cells):
            if tier == "thorough" and h * w > 12:
                # sub-sample the largest spaces: every 7th mask, seed-shifted
                off = rng.randrange(7)
                for i, m in enumerate(gen.all_masks(h, w)):
                    if i % 7 == off:
                        yield {"tag": f"idx_exh_{h*w}", "kind": "index", "mask": mask_json(m)}
                continue
            for m in gen.all_masks(h, w):
                yield {"tag": "idx_exhaustive", "kind": "index", "mask": mask_json(m)}
        # 2. constructors, exhaustive masks × input form × storage, pairwise-distinct values
        for (h, w) in gen.shapes_upto(con_cells):
            for m in gen.all_masks(h, w):
                yield from self._constructor_cases(rng, m, "con_exhaustive")
        # 3. structured random larger shapes
        n = 60 if tier == "quick" else 400
        for _ in range(n):
            h, w = rng.randint(2, 12), rng.randint(2, 12)
            m, kind = gen.random_mask(rng, h, w)
            yield {"tag": f"idx_random_{kind}", "kind": "index", "mask": mask_json(m)}
            yield from self._constructor_cases(rng, m, f"con_random_{kind}")
        # 3b. in-place edit histories: build, read both views, write one entry in place, read again
        ne = 40 if tier == "quick" else 300
        for _ in range(ne):
            h, w = rng.randint(2, 6), rng.randint(2, 6)
            m, kind = gen.random_mask(rng, h, w)
            nat = gen.distinct_ints(rng, h * w)
            nat = [0 if m[i // w][i % w] else v for i, v in enumerate(nat)]
            slim = [nat[i] for i in range(h * w) if not m[i // w][i % w]]
            for struct in ("array", "grid"):
                for form in ("slim", "native"):
                    vals = slim if form == "slim" else nat
                    k = rng.randrange(len(vals))
                    new = rng.randint(100, 200)
                    values = qlist(vals) if struct == "array" else [[q(v), q(-3 * v + 1)] for v in vals]
                    newv = q(new) if struct == "array" else [q(new), q(-new)]
                    yield {"tag": f"edit_{kind}", "kind": "edit", "struct": struct, "mask": mask_json(m),
                           "form": form, "store_native": form == "native", "values": values,
                           "edit_index": k, "edit_value": newv}
        # 4. 1-D
        for n1 in range(1, 7 if tier == "quick" else 10):
            for bits in range((1 << n1) - 1):
                mask = [bool((bits >> i) & 1) for i in range(n1)]
                vals = gen.distinct_ints(rng, n1)
                bits_s = "".join("1" if b else "0" for b in mask)
                yield {"tag": "1d_exhaustive", "kind": "1d", "bits": bits_s, "native": qlist(vals)}
                # Array1D constructor: native input with junk under the mask / slim input × storage mode
                slim_vals = [v for v, mk in zip(vals, mask) if not mk]
                for form, values in (("native", vals), ("slim", slim_vals)):
                    for sn in (False, True):
                        yield {"tag": "1d_constructor", "kind": "1dcon", "bits": bits_s, "form": form,
                               "values": qlist(values), "store_native": sn}

    def _constructor_cases(self, rng, m, tag):
        h, w = len(m), len(m[0])
        native = gen.distinct_ints(rng, h * w)
        # half of the time use dyadic (non-integer) values
        if rng.random() < 0.3:
            native = [Fraction(v, 4) for v in native]
        junk_in_masked = rng.random() < 0.7  # native inputs carry arbitrary values in masked cells
        nat = [v if (junk_in_masked or not m[i // w][i % w]) else 0 for i, v in enumerate(native)]
        slim = [nat[i] for i in range(h * w) if not m[i // w][i % w]]
        for struct in ("array", "grid", "vector"):
            for form in ("slim", "native"):
                for store_native in (False, True):
                    if struct == "array":
                        vals = slim if form == "slim" else nat
                        values = qlist(vals)
                    else:
                        # (y,x) pairs: second component is an independent distinct sequence
                        vals = slim if form == "slim" else nat
                        values = [[q(v), q(-3 * v + 1)] for v in vals]
                    # container / dtype of the caller's input (round-3 hardening): float ndarray, int64
                    # ndarray (only when every value is an integer), plain Python list
                    all_int = all(Fraction(x).denominator == 1 for x in
                                  (values if struct == "array" else [c for p in values for c in p]))
                    container = rng.choice(["float", "int", "list"] if all_int else ["float", "list"])
                    yield {"tag": tag, "kind": struct, "mask": mask_json(m), "form": form,
                           "store_native": store_native, "values": values, "container": container}

    # ------------------------------------------------------------------ implementation
    def run_impl(self, case):
        aa = load_autoarray()
        kind = case["kind"]
        if kind == "1d":
            mask = np.array([c == "1" for c in case["bits"]], dtype=bool)
            m1 = aa.Mask1D(mask=mask, pixel_scales=1.0)
            native = np.array([float(Fraction(v)) for v in case["native"]])
            from autoarray.structures.arrays import array_1d_util
            from autoarray.mask import mask_1d_util

            slim = array_1d_util.array_1d_slim_from(array_1d_native=native, mask_1d=mask)
            back = array_1d_util.array_1d_native_from(array_1d_slim=slim, mask_1d=mask)
            nfs = mask_1d_util.native_index_for_slim_index_1d_from(mask_1d=mask)
            # public structures, both storage modes
            a_s = aa.Array1D(values=slim, mask=m1)
            a_n = aa.Array1D(values=slim, mask=m1, store_native=True)
            return {
                "slim": qlist(slim), "native_back": qlist(back), "nfs": [int(v) for v in nfs],
                "A1D_slim.slim": qlist(a_s.slim.array), "A1D_slim.native": qlist(a_s.native.array),
                "A1D_nat.slim": qlist(a_n.slim.array), "A1D_nat.native": qlist(a_n.native.array),
            }
        if kind == "1dcon":
            mask = np.array([c == "1" for c in case["bits"]], dtype=bool)
            m1 = aa.Mask1D(mask=mask, pixel_scales=1.0)
            vals = np.array([float(Fraction(v)) for v in case["values"]])
            before = vals.copy()
            a = aa.Array1D(values=vals, mask=m1, store_native=case["store_native"])
            return {"stored": "native" if len(np.asarray(a.array)) == len(mask) and case["store_native"] else "slim",
                    "slim": qlist(a.slim.array), "native": qlist(a.native.array),
                    "input_unchanged": bool((vals == before).all())}
        m = np.array([c == "1" for c in case["mask"]["bits"]], dtype=bool).reshape(
            case["mask"]["h"], case["mask"]["w"])
        mask = _mask2d(aa, m)
        if kind == "index":
            di = mask.derive_indexes
            return {
                "native_for_slim": [[int(a), int(b)] for a, b in np.asarray(di.native_for_slim)],
                "unmasked_slim": [int(v) for v in np.asarray(di.unmasked_slim)],
                "masked_slim": [int(v) for v in np.asarray(di.masked_slim)],
                "pixels_in_mask": int(mask.pixels_in_mask),
            }
        h, w = m.shape
        sn = case["store_native"]
        if kind == "edit":
            struct = case["struct"]
            if struct == "array":
                vals = np.array([float(Fraction(v)) for v in case["values"]])
                if case["form"] == "native":
                    vals = vals.reshape(h, w)
                s = aa.Array2D(values=vals, mask=mask, store_native=sn)
            else:
                vals = np.array([[float(Fraction(a)), float(Fraction(b))] for a, b in case["values"]])
                if case["form"] == "native":
                    vals = vals.reshape(h, w, 2)
                s = aa.Grid2D(values=vals, mask=mask, store_native=sn)
            _ = np.asarray(s.native.array).copy(), np.asarray(s.slim.array).copy()  # warm any cache
            k = case["edit_index"]
            idx = k if case["form"] == "slim" else (k // w, k % w)
            if struct == "array":
                s[idx] = float(Fraction(case["edit_value"]))
                flat = lambda a: qlist(np.asarray(a).ravel())
            else:
                s[idx] = [float(Fraction(case["edit_value"][0])), float(Fraction(case["edit_value"][1]))]
                flat = lambda a: [qlist(p) for p in np.asarray(a).reshape(-1, 2)]
            return {"slim": flat(s.slim.array), "native": flat(s.native.array)}
        cont = case.get("container", "float")

        def box(a):
            """present the input as the chosen container / dtype"""
            if cont == "int":
                return a.astype(np.int64)
            if cont == "list":
                return a.tolist()
            return a

        if kind == "array":
            vals = np.array([float(Fraction(v)) for v in case["values"]])
            if case["form"] == "native":
                vals = vals.reshape(h, w)
            vals = box(vals)
            before = np.array(vals).copy()
            s = aa.Array2D(values=vals, mask=mask, store_native=sn)
            stored = np.asarray(s.array)
            out = {
                "stored": "native" if stored.ndim == 2 else "slim",
                "slim": qlist(np.asarray(s.slim.array).ravel()),
                "native": qlist(np.asarray(s.native.array).ravel()),
            }
            out["input_unchanged"] = bool((np.array(vals) == before).all())
            return out
        vals = np.array([[float(Fraction(a)), float(Fraction(b))] for a, b in case["values"]])
        if case["form"] == "native":
            vals = vals.reshape(h, w, 2)
        vals = box(vals)
        before = np.array(vals).copy()
        if kind == "grid":
            s = aa.Grid2D(values=vals, mask=mask, store_native=sn)
        else:
            grid = aa.Grid2D.from_mask(mask=mask)
            s = aa.VectorYX2D(values=vals, grid=grid, mask=mask, store_native=sn)
        stored = np.asarray(s.array)
        out = {
            "stored": "native" if stored.ndim == 3 else "slim",
            "slim": [qlist(p) for p in np.asarray(s.slim.array).reshape(-1, 2)],
            "native": [qlist(p) for p in np.asarray(s.native.array).reshape(-1, 2)],
        }
        out["input_unchanged"] = bool((np.array(vals) == before).all())
        return out

    # ------------------------------------------------------------------ model
    def model_requests(self, case, impl_obs):
        kind = case["kind"]
        if kind == "index":
            mk = case["mask"]
            return [
                {"op": "c01.native_for_slim", "mask": mk},
                {"op": "c01.mask_slim_indexes", "mask": mk, "flag": False},
                {"op": "c01.mask_slim_indexes", "mask": mk, "flag": True},
                {"op": "c01.total_pixels", "mask": mk},
            ]
        if kind == "1dcon":
            return [{"op": "c01.array1d_convert", "bits": case["bits"], "values": case["values"],
                     "store_native": case["store_native"]}]
        if kind == "1d":
            return [
                {"op": "c01.array1d", "dir": "slim_from", "bits": case["bits"], "values": case["native"]},
                {"op": "c01.array1d", "dir": "native_for_slim", "bits": case["bits"], "values": []},
                {"op": "c01.array1d", "dir": "native_from", "bits": case["bits"],
                 "values": [v for v, b in zip(case["native"], case["bits"]) if b == "0"]},
            ]
        if kind == "edit":
            vals = list(case["values"])
            vals[case["edit_index"]] = case["edit_value"]
            op = "c01.array_convert" if case["struct"] == "array" else "c01.grid_convert"
            return [{"op": op, "mask": case["mask"], "form": case["form"], "values": vals,
                     "store_native": case["store_native"]}]
        op = "c01.array_convert" if kind == "array" else "c01.grid_convert"
        return [{"op": op, "mask": case["mask"], "form": case["form"],
                 "values": case["values"], "store_native": case["store_native"]}]

    def model_obs(self, case, responses):
        kind = case["kind"]
        for r in responses:
            if "err" in r:
                return {"err": r["err"]}
        if kind == "index":
            return {"native_for_slim": responses[0]["ok"], "unmasked_slim": responses[1]["ok"],
                    "masked_slim": responses[2]["ok"], "pixels_in_mask": responses[3]["ok"]}
        if kind == "1dcon":
            r = responses[0]["ok"]
            return {"stored": r["stored"], "slim": r["slim"], "native": r["native"]}
        if kind == "1d":
            return {"slim": responses[0]["ok"], "nfs": responses[1]["ok"],
                    "native_back": responses[2]["ok"]}
        r = responses[0]["ok"]
        if kind == "edit":
            return {"slim": r["slim"], "native": r["native"]}
        st = r["stored"]
        return {"stored": st["stored"] if isinstance(st, dict) else st, "slim": r["slim"],
                "native": r["native"]}

    def compare(self, case, impl_obs, model_obs, cmp):
        if case["kind"] == "1dcon":
            if "err" in impl_obs:
                return cmp.diff(impl_obs, model_obs)
            return cmp.diff({k: impl_obs[k] for k in ("stored", "slim", "native")}, model_obs)
        if case["kind"] == "1d":
            if "err" in impl_obs:
                return cmp.diff(impl_obs, model_obs)
            # the model's 1-D scatter is exercised through a second request pair below
            sub = {"slim": impl_obs["slim"], "nfs": impl_obs["nfs"],
                   "native_back": impl_obs["native_back"]}
            return cmp.diff(sub, model_obs)
        if isinstance(impl_obs, dict) and "input_unchanged" in impl_obs:
            impl_obs = {k: v for k, v in impl_obs.items() if k != "input_unchanged"}
        return cmp.diff(impl_obs, model_obs)

    # ------------------------------------------------------------------ oracle (independent of the model)
    def oracle(self, case, obs):
        if isinstance(obs, dict) and "err" in obs:
            return False, f"implementation raised {obs}"
        kind = case["kind"]
        if kind == "1dcon":
            mask = [c == "1" for c in case["bits"]]
            vals = [Fraction(v) for v in case["values"]]
            if case["form"] == "native":
                exp_slim = [v for v, mk in zip(vals, mask) if not mk]
            else:
                exp_slim = vals
            it = iter(exp_slim)
            exp_native = [0 if mk else next(it) for mk in mask]
            if [Fraction(v) for v in obs["slim"]] != exp_slim:
                return False, f"Array1D({case['form']} input, store_native={case['store_native']}).slim is not the unmasked values in order"
            if [Fraction(v) for v in obs["native"]] != exp_native:
                return False, f"Array1D({case['form']} input, store_native={case['store_native']}).native does not hold the values with zeros at masked entries"
            if not obs["input_unchanged"]:
                return False, "Array1D constructor modified the caller's array"
            return True, ""
        if kind == "1d":
            mask = [c == "1" for c in case["bits"]]
            native = [Fraction(v) for v in case["native"]]
            exp_slim = [v for v, mk in zip(native, mask) if not mk]
            exp_back = [0 if mk else v for v, mk in zip(native, mask)]
            got = [Fraction(v) for v in obs["slim"]]
            if got != exp_slim:
                return False, f"1-D slim {got} != {exp_slim}"
            if [Fraction(v) for v in obs["native_back"]] != exp_back:
                return False, "1-D native(slim(a)) != a*~mask"
            if obs["nfs"] != [i for i, mk in enumerate(mask) if not mk]:
                return False, "1-D native_for_slim wrong"
            for k in ("A1D_slim.slim", "A1D_nat.slim"):
                if [Fraction(v) for v in obs[k]] != exp_slim:
                    return False, f"{k} != slim values"
            for k in ("A1D_slim.native", "A1D_nat.native"):
                if [Fraction(v) for v in obs[k]] != exp_back:
                    return False, f"{k} != native values"
            return True, ""
        mj = case["mask"]
        h, w = mj["h"], mj["w"]
        mbits = [c == "1" for c in mj["bits"]]
        unm = [i for i in range(h * w) if not mbits[i]]
        msk = [i for i in range(h * w) if mbits[i]]
        if kind == "index":
            if obs["native_for_slim"] != [[i // w, i % w] for i in unm]:
                return False, "native_for_slim is not the row-major list of unmasked pixels"
            if obs["unmasked_slim"] != unm:
                return False, "unmasked_slim is not the ascending list of unmasked flat indices"
            if obs["masked_slim"] != msk:
                return False, "masked_slim is not the ascending list of masked flat indices"
            if obs["pixels_in_mask"] != len(unm):
                return False, "pixels_in_mask wrong"
            return True, ""
        if kind == "edit":
            arr = case["struct"] == "array"
            conv = (lambda x: Fraction(x)) if arr else (lambda x: (Fraction(x[0]), Fraction(x[1])))
            vals = [conv(v) for v in case["values"]]
            vals[case["edit_index"]] = conv(case["edit_value"])
            zero = 0 if arr else (0, 0)
            exp_slim = vals if case["form"] == "slim" else [vals[i] for i in unm]
            exp_native = [zero] * (h * w)
            for k, i in enumerate(unm):
                exp_native[i] = exp_slim[k]
            if [conv(v) for v in obs["slim"]] != exp_slim:
                return False, f"after an in-place write .slim does not list the structure's current unmasked values ({case['struct']}, stored {case['form']})"
            if [conv(v) for v in obs["native"]] != exp_native:
                return False, f"after an in-place write .native does not hold the structure's current values (stale or unmasked junk) ({case['struct']}, stored {case['form']})"
            return True, ""
        if kind == "array":
            vals = [Fraction(v) for v in case["values"]]
            conv = lambda x: Fraction(x)
        else:
            vals = [(Fraction(a), Fraction(b)) for a, b in case["values"]]
            conv = lambda x: (Fraction(x[0]), Fraction(x[1]))
        zero = 0 if kind == "array" else (0, 0)
        if case["form"] == "slim":
            exp_slim = vals
        else:
            exp_slim = [vals[i] for i in unm]
        exp_native = [zero] * (h * w)
        for k, i in enumerate(unm):
            exp_native[i] = exp_slim[k]
        got_slim = [conv(v) for v in obs["slim"]]
        got_native = [conv(v) for v in obs["native"]]
        if got_slim != exp_slim:
            return False, f".slim is not the row-major list of unmasked values (form={case['form']}, store_native={case['store_native']})"
        if got_native != exp_native:
            return False, f".native does not hold the values at their pixels with zeros at masked positions (form={case['form']}, store_native={case['store_native']})"
        if obs.get("input_unchanged") is False:
            return False, f"the {kind} constructor wrote into the array passed to it (form={case['form']}, store_native={case['store_native']})"
        want = "native" if case["store_native"] else "slim"
        if obs["stored"] != want:
            return False, f"stored form {obs['stored']} != requested {want}"
        return True, ""

    def nontrivial(self, case, obs):
        bits = case.get("bits") or case["mask"]["bits"]
        return "0" in bits and "1" in bits

    def shrink(self, case):
        if case["kind"] != "index":
            return
        mj = case["mask"]
        bits = mj["bits"]
        for i, c in enumerate(bits):
            if c == "0" and bits.count("0") > 1:
                yield {**case, "mask": {**mj, "bits": bits[:i] + "1" + bits[i + 1:]}}

    def theorems_for(self, case):
        return {
            "index": ["C01.nativeForSlim_eq_spec", "C01.maskSlimIndexes_partition"],
            "1d": ["C01.roundtrip_1d_slim", "C01.roundtrip_1d_native", "C01.slim1d_lists_unmasked"],
            "1dcon": ["C01.constructor_forms_agree_1d"],
        }.get(case["kind"], ["C01.slim_lists_unmasked_row_major", "C01.native_holds_values_and_zeros",
                             "C01.constructor_forms_agree"])


CHECK = C01()
