"""C02 — pixel indices and scaled (y,x) coordinates are consistent inverse maps; shape masks unmask
exactly the pixels whose centre satisfies the documented radial inequality."""
from __future__ import annotations

import math
from fractions import Fraction as F

import numpy as np

import gen
from common import PropertyCheck, Skip, load_autoarray, mask_json, q, qlist

BAND = F(1, 10**9)          # the property's own exclusion band (relative, floor 1)
HUG = F(1, 1 << 20)         # boundary-hugging offset: threshold * (1 +- 2^-20)
CTORS = ("circular", "annular", "anti_annular", "elliptical", "elliptical_annular")


def fr(x) -> F:
    return F(x)


def fl(x) -> float:
    return float(F(x))


def pairs_q(arr):
    return [qlist(p) for p in np.asarray(arr, dtype=float).reshape(-1, 2)]


def num(v, mode="float"):
    """scalar argument: a Python int when `mode == "int"` and the value is integral, else a float."""
    f = F(v)
    if mode == "int" and f.denominator == 1:
        return int(f)
    return float(f)


def seq_of(xs, kind="tuple"):
    """container of a short sequence argument (shape, scales, origin, centre, one coordinate pair)."""
    xs = list(xs)
    if kind == "list":
        return xs
    if kind == "ndarray":
        return np.array(xs)
    return tuple(xs)


def arr_of(pairs, vals="float64"):
    """array-valued argument (a list of (y,x) pairs) in the requested dtype / container:
    float64 ndarray | list of lists of floats | int64 ndarray | list of lists of Python ints
    (the integer forms only when every value is integral; otherwise the float twin)."""
    fr_ = [[F(a), F(b)] for a, b in pairs]
    if not fr_:
        return np.zeros((0, 2))
    integral = all(x.denominator == 1 for p_ in fr_ for x in p_)
    if vals == "int64" and integral:
        return np.array([[int(a), int(b)] for a, b in fr_], dtype=np.int64)
    if vals == "pyint" and integral:
        return [[int(a), int(b)] for a, b in fr_]
    if vals in ("pylist", "pyint"):
        return [[float(a), float(b)] for a, b in fr_]
    return np.array([[float(a), float(b)] for a, b in fr_], dtype=np.float64)


def mask_arg(bits2d, kind="ndarray"):
    """boolean mask argument as bool ndarray | list of lists of bool | list of lists of 0/1 ints | int ndarray"""
    if kind == "list":
        return [[bool(b) for b in r] for r in bits2d]
    if kind == "int_list":
        return [[int(b) for b in r] for r in bits2d]
    if kind == "int_ndarray":
        return np.array([[int(b) for b in r] for r in bits2d], dtype=np.int64)
    return np.array(bits2d, dtype=bool)


def cs_of(angle: F):
    """(cos, sin) of an angle in degrees, as the exact rationals of the doubles libm returns."""
    a = math.radians(float(angle))
    return [q(math.cos(a)), q(math.sin(a))]


# ------------------------------------------------------------------------------------------------
# exact reference geometry (Fractions) — used by the generators and, independently of the Lean model,
# by the oracle
# ------------------------------------------------------------------------------------------------
def centre_of(H, W, sy, sx, oy, ox, i, j):
    """documented centre of pixel (i, j) (i, j may be fractional)."""
    return (oy + (F(H - 1, 2) - i) * sy, ox + (j - F(W - 1, 2)) * sx)


def geom_of(case):
    H, W = case["shape"]
    sy, sx = (fr(v) for v in case["scales"])
    oy, ox = (fr(v) for v in case["origin"])
    return H, W, sy, sx, oy, ox


def pixel_position(case, pt):
    """exact continuous pixel coordinates (distance from the top / left edge of the extent in pixel
    units) of a scaled point."""
    H, W, sy, sx, oy, ox = geom_of(case)
    y, x = fr(pt[0]), fr(pt[1])
    return ((oy + H * sy / 2 - y) / sy, (x - (ox - W * sx / 2)) / sx)


def near_integer(t: F) -> bool:
    return abs(t - round(t)) <= BAND * max(1, abs(t))


def in_band(case, pt) -> bool:
    ty, tx = pixel_position(case, pt)
    return near_integer(ty) or near_integer(tx)


class C02(PropertyCheck):
    pid = "C02"
    title = "pixel <-> scaled coordinate maps and shape masks"
    generated_modules = ["Geometry"]  # second tie: Python -> Lean translation + `rfl` against Model.Geometry
    rtol = F(1, 10**9)
    nontrivial_rule = (
        "geometry cases: every shape in the tier's box (non-square included) x anisotropic scales x "
        "unequal dyadic origins, queried at all pixel centres, random interior points and points "
        "hugging every pixel boundary at 2^-20 of a pixel on both sides; shape-mask cases: radii / "
        "axes hugging actual pixel distances on both sides; a case is non-trivial when H*W >= 2 and, "
        "for shape masks, the result has both masked and unmasked pixels; distinct = distinct inputs"
    )
    exhaustive_note = {
        "quick": "complete enumerations: every 1-D mask with n <= 6 cells; every shape (H,W) in 1..7 x 1..7 for "
                 "each case family, and within a geometry case every pixel centre and both sides of every pixel "
                 "boundary line; scales/origins/radii/angles are sampled, not enumerated",
        "thorough": "complete enumerations: every 1-D mask with n <= 9 cells; every shape (H,W) in 1..12 x 1..12 "
                    "for each case family, and within a geometry case every pixel centre and both sides of every "
                    "pixel boundary line; scales/origins/radii/angles are sampled, not enumerated",
    }
    modelled_functions = [
        "autoarray/geometry/geometry_util.py:central_pixel_coordinates_1d_from",
        "autoarray/geometry/geometry_util.py:central_scaled_coordinate_1d_from",
        "autoarray/geometry/geometry_util.py:pixel_coordinates_1d_from",
        "autoarray/geometry/geometry_util.py:scaled_coordinates_1d_from",
        "autoarray/geometry/geometry_util.py:convert_pixel_scales_2d",
        "autoarray/geometry/geometry_util.py:central_pixel_coordinates_2d_from",
        "autoarray/geometry/geometry_util.py:central_scaled_coordinate_2d_from",
        "autoarray/geometry/geometry_util.py:pixel_coordinates_2d_from",
        "autoarray/geometry/geometry_util.py:scaled_coordinates_2d_from",
        "autoarray/geometry/geometry_util.py:grid_pixels_2d_slim_from",
        "autoarray/geometry/geometry_util.py:grid_pixel_centres_2d_slim_from",
        "autoarray/geometry/geometry_util.py:grid_pixel_indexes_2d_slim_from",
        "autoarray/geometry/geometry_util.py:grid_scaled_2d_slim_from",
        "autoarray/geometry/geometry_2d.py:Geometry2D.__init__",
        "autoarray/geometry/geometry_2d.py:Geometry2D.shape_native_scaled",
        "autoarray/geometry/geometry_2d.py:Geometry2D.scaled_maxima",
        "autoarray/geometry/geometry_2d.py:Geometry2D.scaled_minima",
        "autoarray/geometry/geometry_2d.py:Geometry2D.extent",
        "autoarray/geometry/geometry_2d.py:Geometry2D.central_pixel_coordinates",
        "autoarray/geometry/geometry_2d.py:Geometry2D.central_scaled_coordinates",
        "autoarray/geometry/geometry_2d.py:Geometry2D.pixel_coordinates_2d_from",
        "autoarray/geometry/geometry_2d.py:Geometry2D.scaled_coordinates_2d_from",
        "autoarray/geometry/geometry_2d.py:Geometry2D.grid_pixels_2d_from",
        "autoarray/geometry/geometry_2d.py:Geometry2D.grid_pixel_centres_2d_from",
        "autoarray/geometry/geometry_2d.py:Geometry2D.grid_pixel_indexes_2d_from",
        "autoarray/geometry/geometry_2d.py:Geometry2D.grid_scaled_2d_from",
        "autoarray/geometry/geometry_1d.py:Geometry1D.__init__",
        "autoarray/geometry/geometry_1d.py:Geometry1D.shape_slim_scaled",
        "autoarray/geometry/geometry_1d.py:Geometry1D.scaled_maxima",
        "autoarray/geometry/geometry_1d.py:Geometry1D.scaled_minima",
        "autoarray/geometry/geometry_1d.py:Geometry1D.extent",
        "autoarray/structures/grids/grid_2d_util.py:grid_2d_slim_via_mask_from",
        "autoarray/structures/grids/grid_2d_util.py:grid_2d_slim_via_shape_native_from",
        "autoarray/structures/grids/grid_1d_util.py:grid_1d_slim_via_mask_from",
        "autoarray/structures/grids/grid_1d_util.py:grid_1d_slim_via_shape_slim_from",
        "autoarray/structures/grids/uniform_2d.py:Grid2D.from_mask",
        "autoarray/structures/grids/uniform_2d.py:Grid2D.uniform",
        "autoarray/structures/grids/uniform_1d.py:Grid1D.from_mask",
        "autoarray/structures/grids/uniform_1d.py:Grid1D.uniform",
        "autoarray/mask/derive/grid_2d.py:DeriveGrid2D.all_false",
        "autoarray/mask/derive/grid_2d.py:DeriveGrid2D.unmasked",
        "autoarray/mask/mask_2d.py:Mask2D.geometry",
        "autoarray/mask/mask_2d.py:Mask2D.all_false",
        "autoarray/mask/mask_2d.py:Mask2D.circular",
        "autoarray/mask/mask_2d.py:Mask2D.circular_annular",
        "autoarray/mask/mask_2d.py:Mask2D.circular_anti_annular",
        "autoarray/mask/mask_2d.py:Mask2D.elliptical",
        "autoarray/mask/mask_2d.py:Mask2D.elliptical_annular",
        "autoarray/mask/mask_1d.py:Mask1D.geometry",
        "autoarray/mask/mask_2d_util.py:mask_2d_centres_from",
        "autoarray/mask/mask_2d_util.py:total_pixels_2d_from",
        "autoarray/mask/mask_2d_util.py:mask_2d_circular_from",
        "autoarray/mask/mask_2d_util.py:mask_2d_circular_annular_from",
        "autoarray/mask/mask_2d_util.py:mask_2d_circular_anti_annular_from",
        "autoarray/mask/mask_2d_util.py:elliptical_radius_from",
        "autoarray/mask/mask_2d_util.py:mask_2d_elliptical_from",
        "autoarray/mask/mask_2d_util.py:mask_2d_elliptical_annular_from",
    ]
    trusted_extra = [
        "IEEE-754 rounding of `coordinate/scale + centre + 0.5` (theorems are over exact ordered fields; "
        "decisions within 1e-9 of a pixel boundary / mask radius are excluded by the property and skipped)",
        "numpy sqrt / arctan2 / sin / cos / radians in the shape constructors: modelled as parameters; the "
        "driver runs the polynomial form with (cos, sin) computed in double by the harness",
    ]
    assumptions = [
        "pixel scales > 0; axis ratios != 0; shapes >= 1x1",
        "the mask constructors measure pixel centres relative to the mask origin (the `origin` argument "
        "is attached to the result and does not move the shape)",
    ]

    # ------------------------------------------------------------------ generation
    def _scales_origin(self, rng, k=0):
        sy, sx = gen.scales_pair(rng)
        if k == 0 and sy == sx:  # make sure anisotropy is never absent for a shape
            sx = gen.SCALES[(gen.SCALES.index(sy) + 1 + rng.randrange(len(gen.SCALES) - 1)) % len(gen.SCALES)]
        oy, ox = gen.origin_pair(rng)
        if oy == ox or oy == -ox:
            ox = ox + F(3, 8)
        if k == 2:
            oy, ox = F(0), F(0)
        return sy, sx, oy, ox

    def _variant(self, rng, integer=False):
        """how the case is fed to the public API (dtype, container, route, falsy/defaulted options): the exact
        model and the oracle do not depend on it — the results must be the same real numbers."""
        return {
            "vals": rng.choice(["int64", "pyint"]) if integer
            else rng.choice(["float64", "float64", "pylist", "int64", "pyint"]),
            "params": rng.choice(["float", "float", "int"]),
            "route": rng.choice(["geometry", "geometry", "util", "geometry_obj"]),
            "seq": rng.choice(["tuple", "tuple", "list"]),
            "point_seq": rng.choice(["tuple", "list", "ndarray"]),
            "scalar_scales": rng.random() < 0.5,
            "omit_defaults": rng.random() < 0.5,
            "explicit_flags": rng.random() < 0.3,
            "mask_arg": rng.choice(["ndarray", "list", "int_list", "int_ndarray"]),
            "mask_ctor": rng.choice(["all_false", "manual"]),
            "grid_ctor": rng.choice(["no_mask", "with_mask"]),
        }

    def _geom_int_case(self, rng, H, W, tag):
        """integer-valued query coordinates and pixel coordinates, fed as int64 ndarrays / Python int lists."""
        sy, sx = rng.choice([F(1), F(3, 2), F(2), F(3)]), rng.choice([F(1), F(3, 2), F(2), F(3), F(1, 2)])
        oy, ox = gen.origin_pair(rng)
        if rng.random() < 0.3:
            oy, ox = F(round(oy)), F(round(ox)) + 1
        ymin, ymax = oy - H * sy / 2, oy + H * sy / 2
        xmin, xmax = ox - W * sx / 2, ox + W * sx / 2
        ys = [y for y in range(math.floor(ymin) + 1, math.ceil(ymax)) if ymin < y < ymax]
        xs = [x for x in range(math.floor(xmin) + 1, math.ceil(xmax)) if xmin < x < xmax]
        pts = []
        if ys and xs:
            pts = [(F(rng.choice(ys)), F(rng.choice(xs))) for _ in range(8)]
        pix = [(F(rng.randint(-2, H + 2)), F(rng.randint(-2, W + 2))) for _ in range(6)]
        pix += [(F(i), F(j)) for i in (0, H - 1) for j in (0, W - 1)]
        return {"tag": tag, "kind": "geom", "shape": [H, W], "scales": qlist([sy, sx]),
                "origin": qlist([oy, ox]), "points": [qlist(p) for p in pts],
                "pixels": [qlist(p) for p in pix], "variant": self._variant(rng, integer=True)}

    def _geom_case(self, rng, H, W, k, tag):
        sy, sx, oy, ox = self._scales_origin(rng, k)
        ymax, xmin = oy + H * sy / 2, ox - W * sx / 2
        pts = []
        # random interior points, 8 fractional bits of a pixel
        for _ in range(6 + (H * W) // 4):
            ty = F(rng.randint(1, H * 256 - 1), 256)
            tx = F(rng.randint(1, W * 256 - 1), 256)
            pts.append((ymax - ty * sy, xmin + tx * sx))
        # boundary-hugging: every pixel boundary line, both sides, paired with a random other coordinate
        for b in range(H + 1):
            for sgn in (-1, 1):
                ty = b + sgn * HUG
                if 0 < ty < H:
                    tx = F(rng.randint(1, W * 64 - 1), 64) + F(1, 256)
                    pts.append((ymax - ty * sy, xmin + tx * sx))
        for b in range(W + 1):
            for sgn in (-1, 1):
                tx = b + sgn * HUG
                if 0 < tx < W:
                    ty = F(rng.randint(1, H * 64 - 1), 64) + F(1, 256)
                    pts.append((ymax - ty * sy, xmin + tx * sx))
        # a corner-hugging point in each corner pixel
        for ty in (HUG, H - HUG):
            for tx in (HUG, W - HUG):
                pts.append((ymax - ty * sy, xmin + tx * sx))
        # fractional pixel coordinates for the pixel -> scaled direction
        pix = [(F(rng.randint(-2 * 8, (H + 2) * 8), 8), F(rng.randint(-2 * 8, (W + 2) * 8), 8))
               for _ in range(6)]
        pix += [(F(i), F(j)) for i in (0, H - 1) for j in (0, W - 1)]
        return {"tag": tag, "kind": "geom", "shape": [H, W], "scales": qlist([sy, sx]),
                "origin": qlist([oy, ox]), "points": [qlist(p) for p in pts],
                "pixels": [qlist(p) for p in pix], "variant": self._variant(rng)}

    def _boundary_case(self, rng, H, W):
        """a single query point exactly on a pixel boundary: inside the property's tie band, skipped and
        counted (either neighbouring pixel is acceptable)."""
        sy, sx, oy, ox = self._scales_origin(rng, 0)
        ymax, xmin = oy + H * sy / 2, ox - W * sx / 2
        b = rng.randint(0, H)
        tx = F(rng.randint(1, W * 64 - 1), 64) + F(1, 256)
        return {"tag": "geom_on_boundary", "kind": "geom", "shape": [H, W], "scales": qlist([sy, sx]),
                "origin": qlist([oy, ox]), "points": [qlist((ymax - b * sy, xmin + tx * sx))],
                "pixels": [], "single_band_point": True}

    def _grid_case(self, rng, H, W, tag, all_masked=False):
        sy, sx, oy, ox = self._scales_origin(rng, rng.randrange(3))
        if rng.random() < 0.25:  # integer-valued geometry, passed as Python ints by some variants
            sy, sx = F(rng.choice([1, 2, 3])), F(rng.choice([1, 2, 3]))
            oy, ox = F(round(oy)), F(round(ox))
        if all_masked:
            m, kind = gen.full(H, W), "all_masked"
        else:
            m, kind = gen.random_mask(rng, H, W)
        return {"tag": f"{tag}_{kind}", "kind": "grid", "mask": mask_json(m), "scales": qlist([sy, sx]),
                "origin": qlist([oy, ox]), "variant": self._variant(rng)}

    def _grid1d_case(self, rng, n, bits):
        s = rng.choice(gen.SCALES)
        o = gen.dyadic(rng, -4, 4, 3)
        xmin = o - n * s / 2
        pts = [xmin + F(rng.randint(1, n * 256 - 1), 256) * s for _ in range(4)]
        pts += [xmin + (b + sg * HUG) * s for b in range(n + 1) for sg in (-1, 1) if 0 < b + sg * HUG < n]
        pts += [F(x) for x in range(math.floor(xmin) + 1, math.ceil(xmin + n * s))][:3]  # integer coordinates
        pix = [F(rng.randint(-8, (n + 1) * 8), 8) for _ in range(3)] + [F(0), F(n - 1)]
        return {"tag": "grid1d", "kind": "grid1d", "bits": bits, "scale": q(s), "origin": q(o),
                "points": qlist(pts), "pixels": qlist(pix), "variant": self._variant(rng)}

    def _pixel_distance(self, rng, H, W, sy, sx, cy, cx, ell=None):
        """(double) radial quantity of a random pixel — the thresholds the generators hug."""
        i, j = rng.randrange(H), rng.randrange(W)
        dy = (F(H - 1, 2) - i) * sy - cy
        dx = (j - F(W - 1, 2)) * sx - cx
        if ell is None:
            return math.sqrt(float(dx * dx + dy * dy))
        c, s, qq = ell
        xe = dx * c + dy * s
        ye = (-dx * s + dy * c) / qq
        return math.sqrt(float(xe * xe + ye * ye))

    def _hug(self, rng, d):
        """a radius next to the pixel distance d: just below, just above, or somewhere else."""
        mode = rng.randrange(5)
        if mode == 4:
            return F(rng.randint(0, 8))  # integer radius (0 included: "set but falsy")
        if mode == 0:
            return F(d) * (1 - HUG)
        if mode == 1:
            return F(d) * (1 + HUG)
        if mode == 2:
            return F(d) + F(rng.randint(-32, 32), 128)
        return F(rng.randint(0, 64), 8)

    def _shape_case(self, rng, H, W, ctor, tag):
        sy, sx, oy, ox = self._scales_origin(rng, rng.randrange(3))
        integer = rng.random() < 0.2  # integer-valued parameters, passed as Python ints by some variants
        if integer:
            sy, sx = F(rng.choice([1, 2, 3])), F(rng.choice([1, 2, 3]))
            oy, ox = F(round(oy)), F(round(ox))
        # centre: inside the frame, unequal components, sometimes zero
        if rng.random() < 0.25:
            cy, cx = F(0), F(0)
        elif integer:
            cy, cx = F(rng.randint(-H, H)), F(rng.randint(-W, W))
        else:
            cy = F(rng.randint(-H * 4, H * 4), 8) * sy
            cx = F(rng.randint(-W * 4, W * 4), 8) * sx
            if cy == cx:
                cx += F(1, 8)
        case = {"tag": f"{tag}_{ctor}", "kind": "shape", "ctor": ctor, "shape": [H, W],
                "scales": qlist([sy, sx]), "origin": qlist([oy, ox]), "centre": qlist([cy, cx]),
                "variant": self._variant(rng)}

        def pd(ell=None):
            return self._pixel_distance(rng, H, W, sy, sx, cy, cx, ell)

        def ell_params():
            qq = rng.choice([F(1), F(1, 2), F(3, 4), F(1, 4), F(7, 8), F(3, 8)])
            ang = rng.choice([F(0), F(90), F(45), F(30), F(-60), F(135), F(180), F(270), F(10), F(77),
                              F(rng.randint(-720, 720), 2)])
            cs = cs_of(ang)
            return qq, ang, cs

        if ctor == "circular":
            r = self._hug(rng, pd())
            if rng.random() < 0.03:
                r = -r
            case["radius"] = q(r)
        elif ctor == "annular":
            a, b = sorted([self._hug(rng, pd()), self._hug(rng, pd())])
            if rng.random() < 0.05:
                a, b = b, a  # inverted radii: empty annulus unless equal
            if rng.random() < 0.05:
                a = -a
            case["inner"], case["outer"] = q(a), q(b)
        elif ctor == "anti_annular":
            a, b, c = sorted([self._hug(rng, pd()), self._hug(rng, pd()), self._hug(rng, pd())])
            if rng.random() < 0.05:
                b, c = c, b
            case["inner"], case["outer"], case["outer2"] = q(a), q(b), q(c)
        elif ctor == "elliptical":
            qq, ang, cs = ell_params()
            ell = (F(cs[0]), F(cs[1]), qq)
            case.update({"major": q(self._hug(rng, pd(ell))), "axis_ratio": q(qq), "angle": q(ang), "cs": cs})
        else:
            qi, ai, csi = ell_params()
            qo, ao, cso = ell_params()
            ri = self._hug(rng, pd((F(csi[0]), F(csi[1]), qi)))
            ro = self._hug(rng, pd((F(cso[0]), F(cso[1]), qo)))
            if rng.random() < 0.7 and ri > ro:
                ri, ro = ro, ri
            case.update({"inner_major": q(ri), "inner_axis_ratio": q(qi), "inner_phi": q(ai), "inner_cs": csi,
                         "outer_major": q(ro), "outer_axis_ratio": q(qo), "outer_phi": q(ao), "outer_cs": cso})
        return case

    def generate(self, tier, rng):
        side = 7 if tier == "quick" else 12
        shapes = [(h, w) for h in range(1, side + 1) for w in range(1, side + 1)]
        reps_geom = 3 if tier == "quick" else 6
        reps_shape = 4 if tier == "quick" else 12
        for (H, W) in shapes:
            for k in range(reps_geom):
                yield self._geom_case(rng, H, W, k, "geom")
            yield self._geom_int_case(rng, H, W, "geom_int")
            yield self._boundary_case(rng, H, W)
            for _ in range(2 if tier == "quick" else 4):
                yield self._grid_case(rng, H, W, "grid")
            yield self._grid_case(rng, H, W, "grid", all_masked=True)
            for ctor in CTORS:
                for _ in range(reps_shape):
                    yield self._shape_case(rng, H, W, ctor, "shape")
        # 1-D: every mask up to n cells
        for n in range(1, 7 if tier == "quick" else 10):
            for bits in range(1 << n):
                yield self._grid1d_case(rng, n, "".join("1" if (bits >> i) & 1 else "0" for i in range(n)))
        # larger random frames
        for _ in range(20 if tier == "quick" else 120):
            H, W = rng.randint(8, 16), rng.randint(8, 16)
            yield self._geom_case(rng, H, W, rng.randrange(3), "geom_large")
            yield self._geom_int_case(rng, H, W, "geom_int_large")
            yield self._grid_case(rng, H, W, "grid_large")
            yield self._shape_case(rng, H, W, rng.choice(CTORS), "shape_large")

    # ------------------------------------------------------------------ implementation
    def run_impl(self, case):
        aa = load_autoarray()
        kind = case["kind"]
        if kind == "geom":
            if case.get("single_band_point") and all(in_band(case, p) for p in case["points"]):
                raise Skip("query point on a pixel boundary (inside the 1e-9 tie band)")
            return self._impl_geom(aa, case)
        if kind == "grid":
            return self._impl_grid(aa, case)
        if kind == "grid1d":
            return self._impl_grid1d(aa, case)
        return self._impl_shape(aa, case)

    @staticmethod
    def _geometry_args(case):
        """(shape, pixel_scales, tuple_scales, origin_kwargs) as the case's variant prescribes"""
        v = case.get("variant", {})
        pm, sq = v.get("params", "float"), v.get("seq", "tuple")
        sy, sx = (F(x) for x in case["scales"])
        sc_t = tuple(num(x, pm) for x in case["scales"])
        sc = float(sy) if (v.get("scalar_scales") and sy == sx) else seq_of(sc_t, sq)
        org = seq_of([num(x, pm) for x in case["origin"]], sq)
        okw = {} if (v.get("omit_defaults") and all(F(x) == 0 for x in case["origin"])) else {"origin": org}
        return v, sc, sc_t, okw

    def _impl_geom(self, aa, case):
        from autoarray.geometry import geometry_util
        from autoarray.geometry.geometry_2d import Geometry2D

        H, W = case["shape"]
        v, sc, sc_t, okw = self._geometry_args(case)
        org_t = tuple(okw["origin"]) if okw else (0.0, 0.0)
        if v.get("mask_ctor", "all_false") == "all_false":
            mask = aa.Mask2D.all_false(shape_native=seq_of((H, W), v.get("seq", "tuple")), pixel_scales=sc, **okw)
        else:
            mask = aa.Mask2D(mask=mask_arg([[False] * W for _ in range(H)], v.get("mask_arg", "ndarray")),
                             pixel_scales=sc, **okw)
        route = v.get("route", "geometry")
        g = Geometry2D(shape_native=(H, W), pixel_scales=sc, **okw) if route == "geometry_obj" else mask.geometry
        vals, pseq = v.get("vals", "pylist"), v.get("point_seq", "tuple")
        pm = "int" if vals in ("int64", "pyint") else "float"
        pts = [seq_of([num(a, pm), num(b, pm)], pseq) for a, b in case["points"]]
        pix = [seq_of([num(a, pm), num(b, pm)], pseq) for a, b in case["pixels"]]
        ukw = dict(shape_native=(H, W), pixel_scales=sc_t, origin=org_t)

        def qgrid(pairs):
            a = arr_of(pairs, vals)
            if v.get("grid_ctor", "no_mask") == "no_mask":
                return aa.Grid2D.no_mask(values=a, shape_native=(1, len(pairs)), pixel_scales=1.0)
            return aa.Grid2D(values=a, mask=aa.Mask2D.all_false(shape_native=(1, len(pairs)), pixel_scales=1.0))

        obs = {
            "central_pixel": qlist(g.central_pixel_coordinates),
            "central_scaled": qlist(g.central_scaled_coordinates),
            "minima": qlist(g.scaled_minima), "maxima": qlist(g.scaled_maxima),
            "shape_scaled": qlist(g.shape_native_scaled),
            "extent": qlist(g.extent),
            "grid": pairs_q(aa.Grid2D.from_mask(mask=mask).array),
            "centre_roundtrip": [
                [int(x) for x in g.pixel_coordinates_2d_from(g.scaled_coordinates_2d_from((i, j)))]
                for i in range(H) for j in range(W)],
        }
        # empty coordinate lists through the util routines
        e = np.zeros((0, 2))
        obs["empty"] = [len(geometry_util.grid_pixels_2d_slim_from(grid_scaled_2d_slim=e, **ukw)),
                        len(geometry_util.grid_pixel_centres_2d_slim_from(grid_scaled_2d_slim=e, **ukw)),
                        len(geometry_util.grid_pixel_indexes_2d_slim_from(grid_scaled_2d_slim=e, **ukw)),
                        len(geometry_util.grid_scaled_2d_slim_from(grid_pixels_2d_slim=e, **ukw))]
        if pts:
            obs["pix_a"] = [[int(x) for x in g.pixel_coordinates_2d_from(p)] for p in pts]
            obs["snap"] = [qlist(g.scaled_coordinate_2d_to_scaled_at_pixel_centre_from(p)) for p in pts]
            if route == "util":
                a = np.asarray(arr_of(case["points"], vals))
                cen = geometry_util.grid_pixel_centres_2d_slim_from(grid_scaled_2d_slim=a, **ukw)
                idx = geometry_util.grid_pixel_indexes_2d_slim_from(grid_scaled_2d_slim=a, **ukw)
                cont = geometry_util.grid_pixels_2d_slim_from(grid_scaled_2d_slim=a, **ukw)
                back = geometry_util.grid_scaled_2d_slim_from(grid_pixels_2d_slim=cont, **ukw)
            else:
                qg = qgrid(case["points"])
                cen = g.grid_pixel_centres_2d_from(grid_scaled_2d=qg).array
                idx = g.grid_pixel_indexes_2d_from(grid_scaled_2d=qg).array
                contg = g.grid_pixels_2d_from(grid_scaled_2d=qg)
                cont = contg.array
                back = g.grid_scaled_2d_from(grid_pixels_2d=contg).array
            obs["centres"] = [[int(a_), int(b_)] for a_, b_ in np.asarray(cen).reshape(-1, 2)]
            obs["indexes"] = [int(x) for x in np.asarray(idx).ravel()]
            obs["pixels"] = pairs_q(cont)
            obs["roundtrip"] = pairs_q(back)
        if pix:
            obs["scaled"] = [qlist(g.scaled_coordinates_2d_from(p)) for p in pix]
            if route == "util":
                a = np.asarray(arr_of(case["pixels"], vals))
                gs = geometry_util.grid_scaled_2d_slim_from(grid_pixels_2d_slim=a, **ukw)
                rt = geometry_util.grid_pixels_2d_slim_from(grid_scaled_2d_slim=gs, **ukw)
            else:
                gsg = g.grid_scaled_2d_from(grid_pixels_2d=qgrid(case["pixels"]))
                gs = gsg.array
                rt = g.grid_pixels_2d_from(grid_scaled_2d=gsg).array
            obs["grid_scaled"] = pairs_q(gs)
            obs["roundtrip_p"] = pairs_q(rt)
        return obs

    def _impl_grid(self, aa, case):
        from autoarray.structures.grids import grid_2d_util

        mj = case["mask"]
        H, W = mj["h"], mj["w"]
        bits2d = [[mj["bits"][y * W + x] == "1" for x in range(W)] for y in range(H)]
        v, sc, sc_t, okw = self._geometry_args(case)
        org_t = tuple(okw["origin"]) if okw else (0.0, 0.0)
        mask = aa.Mask2D(mask=mask_arg(bits2d, v.get("mask_arg", "ndarray")), pixel_scales=sc, **okw)
        return {
            "from_mask": pairs_q(aa.Grid2D.from_mask(mask=mask).array),
            "unmasked": pairs_q(mask.derive_grid.unmasked.array),
            "all_false": pairs_q(mask.derive_grid.all_false.array),
            "uniform": pairs_q(aa.Grid2D.uniform(shape_native=seq_of((H, W), v.get("seq", "tuple")),
                                                 pixel_scales=sc, **okw).array),
            "util": pairs_q(grid_2d_util.grid_2d_slim_via_mask_from(
                mask_2d=np.array(bits2d, dtype=bool), pixel_scales=sc_t, origin=org_t)),
        }

    def _impl_grid1d(self, aa, case):
        from autoarray.geometry import geometry_util

        bits = case["bits"]
        n = len(bits)
        v = case.get("variant", {})
        pm, pseq = v.get("params", "float"), v.get("point_seq", "tuple")
        s, o = num(case["scale"], pm), num(case["origin"], pm)
        marg = v.get("mask_arg", "ndarray")
        m = [c == "1" for c in bits]
        m = m if marg == "list" else [int(b) for b in m] if marg == "int_list" else np.array(m, dtype=bool)
        okw = {} if (v.get("omit_defaults") and F(case["origin"]) == 0) else {"origin": (o,)}
        sc = float(F(case["scale"])) if v.get("scalar_scales") else (s,)
        m1 = aa.Mask1D(mask=m, pixel_scales=sc, **okw)
        ipm = "int" if v.get("vals") in ("int64", "pyint") else "float"
        obs = {
            "extent": qlist(m1.geometry.extent),
            "uniform": qlist(np.asarray(aa.Grid1D.uniform(shape_native=(n,), pixel_scales=sc, **okw).array)),
            "pix": [int(geometry_util.pixel_coordinates_1d_from(
                scaled_coordinates_1d=seq_of([num(p, ipm)], pseq), shape_slim=(n,), pixel_scales=(s,),
                origins=(o,))[0]) for p in case["points"]],
            "scaled": qlist([geometry_util.scaled_coordinates_1d_from(
                pixel_coordinates_1d=seq_of([num(p, ipm)], pseq), shape_slim=(n,), pixel_scales=(s,),
                origins=(o,))[0] for p in case["pixels"]]),
            "grid": qlist(np.asarray(aa.Grid1D.from_mask(mask=m1).array)),
        }
        return obs

    def _impl_shape(self, aa, case):
        from autoarray.mask import mask_2d_util

        H, W = case["shape"]
        v, sc, sc_t, okw = self._geometry_args(case)
        pm, sq = v.get("params", "float"), v.get("seq", "tuple")
        cen_t = tuple(num(x, pm) for x in case["centre"])
        kw = dict(shape_native=seq_of((H, W), sq), pixel_scales=sc, **okw)
        if not (v.get("omit_defaults") and all(F(x) == 0 for x in case["centre"])):
            kw["centre"] = seq_of(cen_t, sq)
        if v.get("explicit_flags"):
            kw["invert"] = False
        ukw = dict(shape_native=(H, W), pixel_scales=sc_t, centre=cen_t)
        ctor = case["ctor"]
        g = lambda k: num(case[k], pm)
        if ctor == "circular":
            m = aa.Mask2D.circular(radius=g("radius"), **kw)
            u = mask_2d_util.mask_2d_circular_from(radius=g("radius"), **ukw)
        elif ctor == "annular":
            m = aa.Mask2D.circular_annular(inner_radius=g("inner"), outer_radius=g("outer"), **kw)
            u = mask_2d_util.mask_2d_circular_annular_from(inner_radius=g("inner"), outer_radius=g("outer"), **ukw)
        elif ctor == "anti_annular":
            m = aa.Mask2D.circular_anti_annular(inner_radius=g("inner"), outer_radius=g("outer"),
                                                outer_radius_2=g("outer2"), **kw)
            u = mask_2d_util.mask_2d_circular_anti_annular_from(
                inner_radius=g("inner"), outer_radius=g("outer"), outer_radius_2_scaled=g("outer2"), **ukw)
        elif ctor == "elliptical":
            m = aa.Mask2D.elliptical(major_axis_radius=g("major"), axis_ratio=g("axis_ratio"),
                                     angle=g("angle"), **kw)
            u = mask_2d_util.mask_2d_elliptical_from(major_axis_radius=g("major"), axis_ratio=g("axis_ratio"),
                                                     angle=g("angle"), **ukw)
        else:
            ek = dict(inner_major_axis_radius=g("inner_major"), inner_axis_ratio=g("inner_axis_ratio"),
                      inner_phi=g("inner_phi"), outer_major_axis_radius=g("outer_major"),
                      outer_axis_ratio=g("outer_axis_ratio"), outer_phi=g("outer_phi"))
            m = aa.Mask2D.elliptical_annular(**ek, **kw)
            u = mask_2d_util.mask_2d_elliptical_annular_from(**ek, **ukw)
        return {"mask": mask_json(np.asarray(m, dtype=bool)), "util_mask": mask_json(np.asarray(u, dtype=bool)),
                "origin": qlist(m.origin), "scales": qlist(m.pixel_scales)}

    # ------------------------------------------------------------------ model
    def model_requests(self, case, impl_obs):
        kind = case["kind"]
        if kind == "geom":
            base = {"shape": case["shape"], "scales": case["scales"], "origin": case["origin"]}
            return [
                {"op": "c02.geometry", **base},
                {"op": "c02.grid_via_shape", **base},
                {"op": "c02.centre_roundtrip", **base},
                {"op": "c02.pixel_of_scaled", **base, "points": case["points"]},
                {"op": "c02.scaled_of_pixel", **base, "pixels": case["pixels"]},
            ]
        if kind == "grid":
            mj = case["mask"]
            return [
                {"op": "c02.grid_via_mask", "mask": mj, "scales": case["scales"], "origin": case["origin"]},
                {"op": "c02.grid_via_shape", "shape": [mj["h"], mj["w"]], "scales": case["scales"],
                 "origin": case["origin"]},
            ]
        if kind == "grid1d":
            return [{"op": "c02.grid1d", "bits": case["bits"], "scale": case["scale"],
                     "origin": case["origin"], "points": case["points"], "pixels": case["pixels"]}]
        req = {k: v for k, v in case.items() if k not in ("tag", "kind", "ctor", "origin", "corpus_file")}
        req.update({"op": "c02.mask_shape", "kind": case["ctor"]})
        return [req]

    def model_obs(self, case, responses):
        for r in responses:
            if "err" in r:
                return {"err": r["err"]}
        kind = case["kind"]
        R = [r["ok"] for r in responses]
        if kind == "geom":
            obs = dict(R[0])
            obs["grid"] = R[1]
            obs["centre_roundtrip"] = R[2]
            obs["empty"] = [0, 0, 0, 0]
            if case["points"]:
                obs.update({k: R[3][k] for k in ("pix_a", "centres", "indexes", "pixels", "roundtrip", "snap")})
            if case["pixels"]:
                obs.update({"scaled": R[4]["scaled"], "grid_scaled": R[4]["grid_scaled"],
                            "roundtrip_p": R[4]["roundtrip"]})
            return obs
        if kind == "grid":
            return {"from_mask": R[0], "unmasked": R[0], "util": R[0], "all_false": R[1], "uniform": R[1]}
        if kind == "grid1d":
            return R[0]
        return {"mask": R[0]["mask"], "origin": case["origin"], "scales": case["scales"],
                "_quantities": R[0]["quantities"]}

    def compare(self, case, impl_obs, model_obs, cmp):
        if "err" in impl_obs or "err" in model_obs:
            return cmp.diff(impl_obs, model_obs)
        kind = case["kind"]
        if kind == "geom":
            mo = {k: v for k, v in model_obs.items() if not k.startswith("_")}
            io = dict(impl_obs)
            if case["points"]:
                flags = [in_band(case, p) for p in case["points"]]
                for key in ("pix_a", "centres", "indexes", "snap"):
                    io[key] = [None if f else v for f, v in zip(flags, io[key])]
                    mo[key] = [None if f else v for f, v in zip(flags, mo[key])]
            return cmp.diff(io, mo)
        if kind == "grid1d":
            io, mo = dict(impl_obs), dict(model_obs)
            n = len(case["bits"])
            s, o = F(case["scale"]), F(case["origin"])
            flags = [near_integer((F(p) - (o - n * s / 2)) / s) for p in case["points"]]
            io["pix"] = [None if f else v for f, v in zip(flags, io["pix"])]
            mo["pix"] = [None if f else v for f, v in zip(flags, mo["pix"])]
            return cmp.diff(io, mo)
        if kind == "shape":
            band = self._shape_band(case)
            mb = model_obs["mask"]["bits"]
            hide = lambda bits: "".join("?" if f else c for f, c in zip(band, bits))
            io, mo = dict(impl_obs), {"origin": model_obs["origin"], "scales": model_obs["scales"]}
            for key in ("mask", "util_mask"):
                if key not in impl_obs:
                    continue
                ib = impl_obs[key]["bits"]
                if len(ib) != len(mb):
                    return f"$.{key}.bits: length impl={len(ib)} model={len(mb)}"
                io[key] = {**impl_obs[key], "bits": hide(ib)}
                mo[key] = {**model_obs["mask"], "bits": hide(mb)}
            return cmp.diff(io, mo)
        return cmp.diff(impl_obs, model_obs)

    # ------------------------------------------------------------------ oracle (independent of the model)
    @staticmethod
    def _close(a, b, scale=1):
        a, b = F(a), F(b)
        return abs(a - b) <= BAND * max(1, abs(a), abs(b), scale)

    def _shape_eval(self, case):
        """per pixel (row-major): (expected_unmasked, in_band) from the documented inequalities, stated
        on the offset (dy, dx) of the pixel centre — measured from the mask origin — from `centre`."""
        H, W = case["shape"]
        sy, sx = (F(v) for v in case["scales"])
        cy, cx = (F(v) for v in case["centre"])
        ctor = case["ctor"]
        g = lambda k: F(case[k])

        def cmp_sqrt(d2, r):
            """sign of sqrt(d2) - r, 0 inside the tie band"""
            f = math.sqrt(float(d2))
            if abs(f - float(r)) <= float(BAND) * max(1.0, abs(float(r))):
                return 0
            if r < 0:
                return 1
            return -1 if d2 <= r * r else 1

        def ell(dx, dy, cs, qq):
            c, s = F(cs[0]), F(cs[1])
            xe = dx * c + dy * s
            ye = (-dx * s + dy * c) / qq
            return xe * xe + ye * ye

        out = []
        for i in range(H):
            for j in range(W):
                dy = (F(H - 1, 2) - i) * sy - cy
                dx = (j - F(W - 1, 2)) * sx - cx
                d2 = dx * dx + dy * dy
                if ctor == "circular":
                    a = cmp_sqrt(d2, g("radius"))
                    out.append((a <= 0, a == 0))
                elif ctor == "annular":
                    a, b = cmp_sqrt(d2, g("inner")), cmp_sqrt(d2, g("outer"))
                    out.append((a >= 0 and b <= 0, a == 0 or b == 0))
                elif ctor == "anti_annular":
                    a, b, c = cmp_sqrt(d2, g("inner")), cmp_sqrt(d2, g("outer")), cmp_sqrt(d2, g("outer2"))
                    out.append((a <= 0 or (b >= 0 and c <= 0), a == 0 or b == 0 or c == 0))
                elif ctor == "elliptical":
                    a = cmp_sqrt(ell(dx, dy, case["cs"], g("axis_ratio")), g("major"))
                    out.append((a <= 0, a == 0))
                else:
                    a = cmp_sqrt(ell(dx, dy, case["inner_cs"], g("inner_axis_ratio")), g("inner_major"))
                    b = cmp_sqrt(ell(dx, dy, case["outer_cs"], g("outer_axis_ratio")), g("outer_major"))
                    out.append((a >= 0 and b <= 0, a == 0 or b == 0))
        return out

    def _shape_band(self, case):
        return [b for _, b in self._shape_eval(case)]

    def oracle(self, case, obs):
        if isinstance(obs, dict) and "err" in obs:
            return False, f"implementation raised {obs}"
        kind = case["kind"]
        if kind == "geom":
            return self._oracle_geom(case, obs)
        if kind == "grid":
            mj = case["mask"]
            H, W = mj["h"], mj["w"]
            sy, sx = (F(v) for v in case["scales"])
            oy, ox = (F(v) for v in case["origin"])
            allp = [(i, j) for i in range(H) for j in range(W)]
            unm = [p for p in allp if mj["bits"][p[0] * W + p[1]] == "0"]
            for key, pix in (("from_mask", unm), ("unmasked", unm), ("util", unm), ("all_false", allp),
                             ("uniform", allp)):
                got = obs[key]
                if len(got) != len(pix):
                    return False, f"{key}: {len(got)} coordinates for {len(pix)} pixels"
                for k, (i, j) in enumerate(pix):
                    ey, ex = centre_of(H, W, sy, sx, oy, ox, i, j)
                    if not (self._close(got[k][0], ey) and self._close(got[k][1], ex)):
                        return False, (f"{key}[{k}] = ({fl(got[k][0])}, {fl(got[k][1])}) but pixel ({i},{j}) "
                                       f"has centre ({float(ey)}, {float(ex)})")
            return True, ""
        if kind == "grid1d":
            bits = case["bits"]
            n = len(bits)
            s, o = F(case["scale"]), F(case["origin"])
            cen = lambda x: o + (x - F(n - 1, 2)) * s
            unm = [x for x in range(n) if bits[x] == "0"]
            if len(obs["grid"]) != len(unm) or any(not self._close(v, cen(x)) for v, x in zip(obs["grid"], unm)):
                return False, "Grid1D.from_mask is not the list of unmasked pixel centres o + (x-(n-1)/2)s"
            if len(obs["uniform"]) != n or any(not self._close(v, cen(x)) for x, v in enumerate(obs["uniform"])):
                return False, "Grid1D.uniform is not the list of pixel centres"
            if not (self._close(obs["extent"][0], o - n * s / 2) and self._close(obs["extent"][1], o + n * s / 2)):
                return False, f"1-D extent {obs['extent']} is not the union of the pixel intervals"
            for p, got in zip(case["points"], obs["pix"]):
                t = (F(p) - (o - n * s / 2)) / s
                if near_integer(t):
                    continue
                if got != math.floor(t):
                    return False, f"1-D coordinate {fl(p)} lies in pixel {math.floor(t)} but converts to {got}"
            for p, got in zip(case["pixels"], obs["scaled"]):
                if not self._close(got, cen(F(p))):
                    return False, f"1-D pixel coordinate {fl(p)} has scaled value {float(cen(F(p)))}, got {fl(got)}"
            return True, ""
        # shape masks
        H, W = case["shape"]
        if obs["mask"]["h"] != H or obs["mask"]["w"] != W:
            return False, "mask has the wrong shape"
        if [F(v) for v in obs["origin"]] != [F(v) for v in case["origin"]]:
            return False, f"mask origin {obs['origin']} != requested {case['origin']}"
        if [F(v) for v in obs["scales"]] != [F(v) for v in case["scales"]]:
            return False, f"mask pixel_scales {obs['scales']} != requested {case['scales']}"
        ev = self._shape_eval(case)
        for key in ("mask", "util_mask"):
            if key not in obs:
                continue
            if obs[key]["h"] != H or obs[key]["w"] != W:
                return False, f"{key} has the wrong shape"
            bits = obs[key]["bits"]
            for k, (unm, band) in enumerate(ev):
                if band:
                    continue
                if (bits[k] == "0") != unm:
                    return False, (f"{case['ctor']} ({key}): pixel ({k // W},{k % W}) is "
                                   f"{'unmasked' if bits[k] == '0' else 'masked'} but its centre "
                                   f"{'satisfies' if unm else 'violates'} the radial inequality")
        return True, ""

    def _oracle_geom(self, case, obs):
        H, W, sy, sx, oy, ox = geom_of(case)
        cl = self._close
        # centre formula, on the code's own pixel-centre grid
        grid = obs["grid"]
        if len(grid) != H * W:
            return False, "pixel-centre grid has the wrong length"
        for k, (gy, gx) in enumerate(grid):
            ey, ex = centre_of(H, W, sy, sx, oy, ox, k // W, k % W)
            if not (cl(gy, ey) and cl(gx, ex)):
                return False, (f"pixel ({k // W},{k % W}) has centre ({fl(gy)},{fl(gx)}), expected "
                               f"({float(ey)},{float(ex)})")
        # extent = union of the pixel squares (of the code's own centres)
        xs = [F(g[1]) for g in grid]
        ys = [F(g[0]) for g in grid]
        union = (min(xs) - sx / 2, max(xs) + sx / 2, min(ys) - sy / 2, max(ys) + sy / 2)
        ext = obs["extent"]
        if not all(cl(a, b) for a, b in zip(ext, union)):
            return False, f"extent {[fl(v) for v in ext]} != union of pixel squares {[float(v) for v in union]}"
        exact = (ox - W * sx / 2, ox + W * sx / 2, oy - H * sy / 2, oy + H * sy / 2)
        if not all(cl(a, b) for a, b in zip(ext, exact)):
            return False, f"extent {[fl(v) for v in ext]} != {[float(v) for v in exact]}"
        if not (cl(obs["minima"][0], exact[2]) and cl(obs["minima"][1], exact[0])
                and cl(obs["maxima"][0], exact[3]) and cl(obs["maxima"][1], exact[1])):
            return False, "scaled_minima / scaled_maxima are not the corners of the extent"
        # pixel centre -> index -> back
        exp_rt = [[i, j] for i in range(H) for j in range(W)]
        if obs["centre_roundtrip"] != exp_rt:
            bad = next(k for k in range(H * W) if obs["centre_roundtrip"][k] != exp_rt[k])
            return False, f"centre of pixel {exp_rt[bad]} converts to index {obs['centre_roundtrip'][bad]}"
        if obs.get("empty", [0, 0, 0, 0]) != [0, 0, 0, 0]:
            return False, f"an empty coordinate list converts to non-empty outputs {obs['empty']}"
        # containment
        for k, p in enumerate(case["points"]):
            y, x = F(p[0]), F(p[1])
            ty, tx = pixel_position(case, p)
            py, px = obs["pixels"][k]
            if not (cl(py, ty) and cl(px, tx)):
                return False, f"continuous pixel coordinate of {fl(y), fl(x)} is {fl(py), fl(px)}, expected {float(ty), float(tx)}"
            ry, rx = obs["roundtrip"][k]
            if not (cl(ry, y) and cl(rx, x)):
                return False, f"grid_scaled(grid_pixels(p)) != p at {fl(y), fl(x)}"
            if near_integer(ty) or near_integer(tx):
                continue
            if not (0 < ty < H and 0 < tx < W):
                continue  # outside the extent: the property does not speak
            i, j = math.floor(ty), math.floor(tx)
            for key in ("pix_a", "centres"):
                if obs[key][k] != [i, j]:
                    return False, (f"{key}: coordinate ({fl(y)},{fl(x)}) lies in the square of pixel ({i},{j}) "
                                   f"but converts to {obs[key][k]}")
            if obs["indexes"][k] != i * W + j:
                return False, f"flattened index of ({fl(y)},{fl(x)}) is {obs['indexes'][k]}, expected {i * W + j}"
            if "snap" in obs:
                ey, ex = centre_of(H, W, sy, sx, oy, ox, i, j)
                gy, gx = obs["snap"][k]
                if not (cl(gy, ey) and cl(gx, ex)):
                    return False, (f"coordinate ({fl(y)},{fl(x)}) snaps to ({fl(gy)},{fl(gx)}), but the centre of "
                                   f"its pixel ({i},{j}) is ({float(ey)},{float(ex)})")
        # pixel -> scaled and continuous inverse
        for k, p in enumerate(case["pixels"]):
            pi, pj = F(p[0]), F(p[1])
            ey, ex = centre_of(H, W, sy, sx, oy, ox, pi, pj)
            gy, gx = obs["scaled"][k]
            if not (cl(gy, ey) and cl(gx, ex)):
                return False, f"scaled_coordinates_2d_from({fl(pi)},{fl(pj)}) = ({fl(gy)},{fl(gx)}), expected ({float(ey)},{float(ex)})"
            ey, ex = centre_of(H, W, sy, sx, oy, ox, pi - F(1, 2), pj - F(1, 2))
            gy, gx = obs["grid_scaled"][k]
            if not (cl(gy, ey) and cl(gx, ex)):
                return False, f"grid_scaled_2d_from({fl(pi)},{fl(pj)}) = ({fl(gy)},{fl(gx)}), expected ({float(ey)},{float(ex)})"
            ry, rx = obs["roundtrip_p"][k]
            if not (cl(ry, pi) and cl(rx, pj)):
                return False, f"grid_pixels(grid_scaled(q)) != q at ({fl(pi)},{fl(pj)})"
        return True, ""

    # ------------------------------------------------------------------ misc
    def nontrivial(self, case, obs):
        kind = case["kind"]
        if kind == "shape":
            b = obs["mask"]["bits"]
            return "0" in b and "1" in b
        if kind == "grid1d":
            return len(case["bits"]) >= 2
        if kind == "grid":
            return case["mask"]["h"] * case["mask"]["w"] >= 2
        return case["shape"][0] * case["shape"][1] >= 2 and not case.get("single_band_point")

    def shrink(self, case):
        if case["kind"] == "geom":
            if len(case["points"]) + len(case["pixels"]) > 1:
                for p in case["points"]:
                    yield {**case, "points": [p], "pixels": []}
                for p in case["pixels"]:
                    yield {**case, "points": [], "pixels": [p]}
                yield {**case, "points": [], "pixels": []}
        elif case["kind"] == "shape":
            if case["origin"] != ["0", "0"]:
                yield {**case, "origin": ["0", "0"]}
            if case["centre"] != ["0", "0"]:
                yield {**case, "centre": ["0", "0"]}

    def sample_view(self, case):
        c = {k: v for k, v in case.items() if not k.startswith("_")}
        return c

    def theorems_for(self, case):
        if case["kind"] == "shape":
            return {
                "circular": ["C02.g_circular", "C02.g_circular_real"],
                "annular": ["C02.g_annular", "C02.g_annular_family_real"],
                "anti_annular": ["C02.g_anti_annular", "C02.g_annular_family_real"],
                "elliptical": ["C02.g_elliptical", "C02.g_elliptical_real"],
                "elliptical_annular": ["C02.g_elliptical_annular", "C02.g_annular_family_real"],
            }[case["ctor"]] + ["C02.g_code_form_eq_polynomial_form", "C02.g_code_form_eq_polynomial_form_of_contract",
                                  "C02.g_offset_measured_from_mask_origin"]
        return {
            "geom": ["C02.a_centre_formula", "C02.b_centre_roundtrip", "C02.c_containment",
                     "C02.c_variants_agree", "C02.c_inside_extent_maps_to_containing_pixel",
                     "C02.d_extent_formula", "C02.d_extent_is_union_of_pixel_squares",
                     "C02.e_continuous_inverse", "C02.f_grid_via_mask"],
            "grid": ["C02.f_grid_via_mask", "C02.a_centre_formula"],
            "grid1d": ["C02.h_grid1d", "C02.h_extent1", "C02.h_pixel1"],
        }[case["kind"]]


CHECK = C02()
