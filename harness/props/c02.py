"""C02 — pixel indices and scaled (y,x) coordinates are consistent inverse maps; shape masks unmask
exactly the pixels whose centre satisfies the documented radial inequality."""
from __future__ import annotations

import hashlib
import math
import random
from fractions import Fraction as F

import numpy as np

import gen
from common import PropertyCheck, Skip, load_autoarray, mask_json, q, qlist

BAND = F(1, 10**9)          # the property's own exclusion band (relative, floor 1)
HUG = F(1, 1 << 20)         # boundary-hugging offset: threshold * (1 +- 2^-20)
CTORS = ("circular", "annular", "anti_annular", "elliptical", "elliptical_annular")
FBAND = 1.0e-9              # BAND as a double (vectorised oracles of the large stream)
LARGE_MODEL_MAX = 256       # size targets up to this many pixels go through the ordinary (model-compared) families
LARGE_HINT_MAX = 70000      # hints above this are not reachable in pure Python within the budget
GRID_OBS = ("from_mask", "unmasked", "all_false", "uniform", "util")
GEOM_GROUPS = ("scalars", "grid", "centre_roundtrip", "empty", "points", "pixels")
GRID1D_OBS = ("extent", "uniform", "pix", "scaled", "grid")
SHAPE_OBS = ("mask", "util_mask")


class NPArr:
    """a big implementation output of an oracle-only (large) case, kept as an ndarray for the vectorised
    oracle; shows as a one-line summary wherever an observation is printed or written to a replay."""
    __slots__ = ("a",)

    def __init__(self, a):
        self.a = np.array(a)

    def __repr__(self):
        a = self.a
        return (f"<ndarray shape={a.shape} dtype={a.dtype} sha1={hashlib.sha1(a.tobytes()).hexdigest()[:12]} "
                f"head={a.ravel()[:6].tolist()}>")

    __str__ = __repr__


def _rs(seed):
    return np.random.RandomState(int(seed) % (1 << 32))


# A history must be judged on ITS OWN steps only: module-level state left behind by earlier cases of the run (or by
# an earlier attempt of the shrinker) would make a failure irreproducible in a replay.  Every history therefore runs
# in a fresh fork of a pristine server process that has imported the library and never called it.
_ISO_SRC = r"""
import json, os, signal, sys
sys.path.insert(0, sys.argv[1])
import common
aa = common.load_autoarray()
import importlib
chk = importlib.import_module("props.c02").CHECK
try:  # parse the pinned configuration files once here (no library call), not again in every fork
    from autoconf import conf
    conf.instance["general"]["structures"]["native_binned_only"]
    conf.instance["general"]["grid"]["remove_projected_centre"]
except Exception:
    pass
sys.stdout.write("ready\n"); sys.stdout.flush()
for line in sys.stdin:
    line = line.strip()
    if not line:
        continue
    r, w = os.pipe()
    pid = os.fork()
    if pid == 0:
        os.close(r)
        signal.alarm(120)
        os.dup2(os.open(os.devnull, os.O_WRONLY), 1)
        try:
            data = json.dumps({"ok": chk._impl_history(aa, json.loads(line))})
        except BaseException as e:
            data = json.dumps({"exc": type(e).__name__, "msg": str(e)[:300]})
        b = data.encode()
        while b:
            b = b[os.write(w, b):]
        os._exit(0)
    os.close(w)
    chunks = []
    while True:
        c = os.read(r, 1 << 16)
        if not c:
            break
        chunks.append(c)
    os.close(r)
    os.waitpid(pid, 0)
    sys.stdout.write((b"".join(chunks).decode() or '{"exc": "ChildCrashed", "msg": "no output"}') + "\n")
    sys.stdout.flush()
"""
_iso_proc = None


def isolated_history(case):
    """observation of a history case from a fresh fork of the pristine server, or None when no server can be had
    (the caller then runs it in-process)"""
    global _iso_proc
    import atexit
    import json
    import os
    import subprocess
    import sys

    if os.environ.get("C02_NO_ISOLATION"):
        return None
    try:
        if _iso_proc is None or _iso_proc.poll() is not None:
            harness = os.path.dirname(os.path.dirname(os.path.abspath(__file__)))
            _iso_proc = subprocess.Popen([sys.executable, "-B", "-c", _ISO_SRC, harness], stdin=subprocess.PIPE,
                                         stdout=subprocess.PIPE, stderr=subprocess.DEVNULL, text=True, bufsize=1)
            atexit.register(lambda p=_iso_proc: p.poll() is None and p.kill())
            if _iso_proc.stdout.readline().strip() != "ready":
                raise RuntimeError("isolation server did not start")
        _iso_proc.stdin.write(json.dumps(case, default=str) + "\n")
        _iso_proc.stdin.flush()
        r = json.loads(_iso_proc.stdout.readline())
    except Exception:
        try:
            _iso_proc and _iso_proc.kill()
        except Exception:
            pass
        _iso_proc = None
        return None
    return r["ok"] if "ok" in r else {"err": r.get("exc", "?"), "msg": r.get("msg", "")}


def factor_pairs(n):
    """non-square factorisations (H, W), H < W, H*W == n, aspect at most ~8, most balanced first"""
    out = []
    d = int(math.isqrt(n))
    while d >= 2 and d * d * 8 >= n:
        if n % d == 0 and d != n // d:
            out.append((d, n // d))
        d -= 1
    return out


def large_mask(g):
    """bool ndarray (H, W), True = masked, of a mask recipe {"h","w","seed","style","unmasked"} (replays stay
    small and deterministic: numpy's legacy RandomState stream is frozen)."""
    h, w = g["h"], g["w"]
    n = h * w
    rs = _rs(g["seed"])
    style = g.get("style", "random")
    k = g.get("unmasked")
    if style == "all_false":
        return np.zeros((h, w), dtype=bool)
    if style == "all_masked":
        return np.ones((h, w), dtype=bool)
    k = n // 2 if k is None else max(0, min(n, int(k)))
    m = np.ones(n, dtype=bool)
    if style == "blob":  # the k pixels nearest (anisotropically) to an off-centre point: compact, touches the edge
        cy, cx = rs.uniform(0, h), rs.uniform(0, w)
        ii, jj = np.divmod(np.arange(n), w)
        d = (ii - cy) ** 2 * rs.choice([0.5, 1.0, 3.0]) + (jj - cx) ** 2 + rs.uniform(0, 1e-6, n)
        m[np.argsort(d, kind="stable")[:k]] = False
    else:
        m[rs.permutation(n)[:k]] = False
    return m.reshape(h, w)


def large_points(case):
    """(points (N,2) float64, mode) of a geometry case's point recipe: every point strictly inside the extent,
    a quarter hugging a pixel boundary at 2^-20 pixel on either side, built so that the doubles are exact."""
    H, W = case["shape"]
    sy, sx = (float(F(v)) for v in case["scales"])
    oy, ox = (float(F(v)) for v in case["origin"])
    g = case["points_gen"]
    n, mode = int(g["n"]), g.get("mode", "frac")
    rs = _rs(g["seed"])
    ymax, ymin, xmin, xmax = oy + H * sy / 2, oy - H * sy / 2, ox - W * sx / 2, ox + W * sx / 2
    if mode == "int":
        ylo, yhi = math.floor(ymin) + 1, math.ceil(ymax) - 1
        xlo, xhi = math.floor(xmin) + 1, math.ceil(xmax) - 1
        if ylo <= yhi and xlo <= xhi:
            return np.stack([rs.randint(ylo, yhi + 1, n), rs.randint(xlo, xhi + 1, n)], axis=1).astype(float), "int"
    i, j = rs.randint(0, H, n), rs.randint(0, W, n)
    one = 1 << 20
    fy, fx = rs.randint(1, 256, n) * 4096, rs.randint(1, 256, n) * 4096
    hy, hx = rs.randint(0, 8, n), rs.randint(0, 8, n)
    fy = np.where(hy == 0, 1, np.where(hy == 1, one - 1, fy))
    fx = np.where(hx == 0, 1, np.where(hx == 1, one - 1, fx))
    ty = i + fy / one
    tx = j + fx / one
    return np.stack([ymax - ty * sy, xmin + tx * sx], axis=1), "frac"


def large_pixels(case):
    """(N,2) float64 pixel coordinates (eighths, a little outside the frame too) of a pixel recipe"""
    H, W = case["shape"]
    g = case["pixels_gen"]
    rs = _rs(g["seed"])
    n = int(g["n"])
    if g.get("mode") == "int":
        return np.stack([rs.randint(-2, H + 3, n), rs.randint(-2, W + 3, n)], axis=1).astype(float)
    return np.stack([rs.randint(-16, (H + 2) * 8 + 1, n), rs.randint(-16, (W + 2) * 8 + 1, n)], axis=1) / 8.0


def large_points_1d(case):
    """(points, pixels) as Fractions for a large 1-D case: a small seeded sample (the 1-D conversions are scalar
    functions; the loops of the 1-D code run over the cells, not over query points)"""
    n = case["bits_gen"]["n"]
    s, o = F(case["scale"]), F(case["origin"])
    r = random.Random(case["bits_gen"]["seed"] + 11)
    xmin = o - n * s / 2
    pts = [xmin + (r.randrange(n) + F(r.randint(1, 255), 256)) * s for _ in range(32)]
    pts += [xmin + (b + sg * HUG) * s for b in (0, 1, n // 2, n - 1, n) for sg in (-1, 1) if 0 < b + sg * HUG < n]
    pix = [F(r.randint(-8, (n + 1) * 8), 8) for _ in range(8)] + [F(0), F(n - 1)]
    return pts, pix


def fclose(a, b):
    """vectorised `_close`: |a-b| <= 1e-9 max(1,|a|,|b|)"""
    a, b = np.asarray(a, dtype=float), np.asarray(b, dtype=float)
    return np.abs(a - b) <= FBAND * np.maximum(1.0, np.maximum(np.abs(a), np.abs(b)))


def fr(x) -> F:
    if isinstance(x, str):  # "p/q" of common.q (reduced): much faster than Fraction's regex parser
        p_, _, q_ = x.partition("/")
        try:
            return F(int(p_), int(q_)) if q_ else F(int(p_))
        except ValueError:
            return F(x)
    return F(x)


def fl(x) -> float:
    return float(F(x))


def pairs_q(arr):
    return [qlist(p) for p in np.asarray(arr, dtype=float).reshape(-1, 2)]


def num(v, mode="float"):
    """scalar argument: a Python int when `mode == "int"` and the value is integral, else a float."""
    f = F(v)
    if mode == "int" and f.denominator == 1:
        return int(f)
    return float(f)


def seq_of(xs, kind="tuple"):
    """container of a short sequence argument (shape, scales, origin, centre, one coordinate pair)."""
    xs = list(xs)
    if kind == "list":
        return xs
    if kind == "ndarray":
        return np.array(xs)
    return tuple(xs)


def arr_of(pairs, vals="float64"):
    """array-valued argument (a list of (y,x) pairs) in the requested dtype / container:
    float64 ndarray | list of lists of floats | int64 ndarray | list of lists of Python ints
    (the integer forms only when every value is integral; otherwise the float twin)."""
    fr_ = [[F(a), F(b)] for a, b in pairs]
    if not fr_:
        return np.zeros((0, 2))
    integral = all(x.denominator == 1 for p_ in fr_ for x in p_)
    if vals == "int64" and integral:
        return np.array([[int(a), int(b)] for a, b in fr_], dtype=np.int64)
    if vals == "pyint" and integral:
        return [[int(a), int(b)] for a, b in fr_]
    if vals in ("pylist", "pyint"):
        return [[float(a), float(b)] for a, b in fr_]
    return np.array([[float(a), float(b)] for a, b in fr_], dtype=np.float64)


def mask_arg(bits2d, kind="ndarray"):
    """boolean mask argument as bool ndarray | list of lists of bool | list of lists of 0/1 ints | int ndarray"""
    if kind == "list":
        return [[bool(b) for b in r] for r in bits2d]
    if kind == "int_list":
        return [[int(b) for b in r] for r in bits2d]
    if kind == "int_ndarray":
        return np.array([[int(b) for b in r] for r in bits2d], dtype=np.int64)
    return np.array(bits2d, dtype=bool)


def cs_of(angle: F):
    """(cos, sin) of an angle in degrees, as the exact rationals of the doubles libm returns."""
    a = math.radians(float(angle))
    return [q(math.cos(a)), q(math.sin(a))]


# ------------------------------------------------------------------------------------------------
# exact reference geometry (Fractions) — used by the generators and, independently of the Lean model,
# by the oracle
# ------------------------------------------------------------------------------------------------
def centre_of(H, W, sy, sx, oy, ox, i, j):
    """documented centre of pixel (i, j) (i, j may be fractional)."""
    return (oy + (F(H - 1, 2) - i) * sy, ox + (j - F(W - 1, 2)) * sx)


def geom_of(case):
    H, W = case["shape"]
    sy, sx = (fr(v) for v in case["scales"])
    oy, ox = (fr(v) for v in case["origin"])
    return H, W, sy, sx, oy, ox


def pixel_position(case, pt):
    """exact continuous pixel coordinates (distance from the top / left edge of the extent in pixel
    units) of a scaled point."""
    H, W, sy, sx, oy, ox = geom_of(case)
    y, x = fr(pt[0]), fr(pt[1])
    return ((oy + H * sy / 2 - y) / sy, (x - (ox - W * sx / 2)) / sx)


def near_integer(t: F) -> bool:
    return abs(t - round(t)) <= BAND * max(1, abs(t))


def in_band(case, pt) -> bool:
    ty, tx = pixel_position(case, pt)
    return near_integer(ty) or near_integer(tx)


# ------------------------------------------------------------------------------------------------
# round 5/6 hardening helpers: decades (the same world in other units), exact doubles, memory layouts
# ------------------------------------------------------------------------------------------------
RADII_KEYS = ("radius", "inner", "outer", "outer2", "major", "inner_major", "outer_major")
# observation keys that carry SCALED-unit values (everything else is in pixel units / discrete)
DEC_PAIR_KEYS = {"geom": ("grid", "snap", "roundtrip", "scaled", "grid_scaled"),
                 "grid": GRID_OBS, "grid1d": (), "shape": ()}
DEC_FLAT_KEYS = {"geom": ("minima", "maxima", "shape_scaled", "extent"), "grid": (),  # `central_scaled` is in pixel units
                 "grid1d": ("extent", "uniform", "scaled", "grid"), "shape": ("origin", "scales")}
DEC_K_MAX = 480  # |k| of a decade case: squares of (value * 2^k) stay inside the normal double range
CONF_KEYS = {"flip": ("general", "fits", "flip_for_ds9"), "nbo": ("general", "structures", "native_binned_only"),
             "rpc": ("general", "grid", "remove_projected_centre")}
MASK_LAYOUTS = ("f", "transposed", "strided", "readonly", "uint8", "int_f", "float", "from_mask2d")
POINT_LAYOUTS = ("f", "strided_rows", "strided_cols", "readonly", "native3d", "float32", "from_grid2d")


def is_double(x: F) -> bool:
    try:
        return F(float(x)) == x
    except OverflowError:
        return False


def dbl(x) -> F:
    """the double nearest to x, as an exact rational (what the implementation receives for x)"""
    return F(float(fr(x)))


def exactify(case):
    """every real-valued input of an ordinary case replaced by the double the implementation receives for it, so
    that model and oracle speak about exactly the implementation's input (the generators of the far / near streams
    produce values with many significant bits)"""
    D = lambda v: q(dbl(v))
    for key in ("scales", "origin", "centre"):
        if key in case and isinstance(case[key], list):
            case[key] = [D(v) for v in case[key]]
    if case["kind"] == "grid1d":
        case["scale"], case["origin"] = D(case["scale"]), D(case["origin"])
        case["points"] = [D(p) for p in case["points"]]
    elif case["kind"] == "geom":
        case["points"] = [[D(a), D(b)] for a, b in case["points"]]
    for key in RADII_KEYS + ("axis_ratio", "inner_axis_ratio", "outer_axis_ratio"):
        if key in case:
            case[key] = D(case[key])
    return case


def scale_case(base, f: F):
    """the ordinary case `base` with every scaled-unit input multiplied by f (pixel-unit inputs, angles and axis
    ratios are dimensionless and stay)"""
    import copy
    c = copy.deepcopy(base)
    S = lambda v: q(fr(v) * f)
    kind = c["kind"]
    if kind == "grid1d":
        c["scale"], c["origin"] = S(c["scale"]), S(c["origin"])
        c["points"] = [S(p) for p in c["points"]]
        return c
    c["scales"] = [S(v) for v in c["scales"]]
    c["origin"] = [S(v) for v in c["origin"]]
    if kind == "geom":
        c["points"] = [[S(a), S(b)] for a, b in c["points"]]
    elif kind == "shape":
        c["centre"] = [S(v) for v in c["centre"]]
        for key in RADII_KEYS:
            if key in c:
                c[key] = S(c[key])
    return c


def unscale_obs(kind, obs, f: F):
    """an observation (implementation's or model's) of a case scaled by f, expressed in the units of the base case:
    exact rational division of the scaled-unit entries"""
    if not isinstance(obs, dict) or "err" in obs:
        return obs

    def dv(x):
        try:
            return q(fr(x) / f)
        except (ValueError, ZeroDivisionError, TypeError):
            return x  # "nan" / "inf": compared literally

    out = dict(obs)
    for key in DEC_PAIR_KEYS[kind]:
        if key in out and isinstance(out[key], list):
            out[key] = [[dv(a), dv(b)] for a, b in out[key]]
    for key in DEC_FLAT_KEYS[kind]:
        if key in out and isinstance(out[key], list):
            out[key] = [dv(a) for a in out[key]]
    return out


def lay_mask(b, layout):
    """an equal-valued mask argument in another memory layout / dtype (b: boolean array, 1-D or 2-D)"""
    b = np.array(b, dtype=bool)
    if layout == "f":
        return np.asfortranarray(b)
    if layout == "transposed":
        return np.ascontiguousarray(b.T).T
    if layout == "strided":  # a non-contiguous window of a bigger buffer with junk in between
        if b.ndim == 1:
            big = (np.arange(3 * b.shape[0] + 2) % 2).astype(bool)
            view = big[1::3][:b.shape[0]]
        else:
            H, W = b.shape
            big = (np.indices((2 * H + 1, 3 * W + 2)).sum(0) % 2).astype(bool)
            view = big[1::2, 2::3]
        view[...] = b
        return view
    if layout == "readonly":
        c = b.copy()
        c.setflags(write=False)
        return c
    if layout == "uint8":
        return b.astype(np.uint8)
    if layout == "int_f":
        return np.asfortranarray(b.astype(np.int64))
    if layout == "float":
        return b.astype(float)
    return b


def lay_points(a, layout):
    """an equal-valued (N, 2) coordinate array in another memory layout / dtype"""
    if not isinstance(a, np.ndarray) or a.ndim != 2 or a.shape[0] == 0:
        return a
    n = a.shape[0]
    if layout in ("f", "transposed"):
        return np.asfortranarray(a)
    if layout == "strided_rows":
        big = np.full((2 * n + 1, 2), -777.25, dtype=a.dtype)
        big[1::2] = a
        return big[1::2]
    if layout == "strided_cols":
        big = np.full((n, 5), 555.5, dtype=a.dtype)
        big[:, 1:4:2] = a
        return big[:, 1:4:2]
    if layout == "readonly":
        c = a.copy()
        c.setflags(write=False)
        return c
    if layout == "float32":
        c = a.astype(np.float32)
        return c if (c.astype(np.float64) == a).all() else a
    return a


class C02(PropertyCheck):
    pid = "C02"
    title = "pixel <-> scaled coordinate maps and shape masks"
    # escalated quick runs (changed modelled function / new size constant): the extra thorough-budget cases are cut
    # after escalation_budget_s/2 of implementation time; their oracle + comparison costs about as much again
    escalation_budget_s = 120
    generated_modules = ["Geometry"]  # second tie: Python -> Lean translation + `rfl` against Model.Geometry
    rtol = F(1, 10**9)
    nontrivial_rule = (
        "geometry cases: every shape in the tier's box (non-square included) x anisotropic scales x "
        "unequal dyadic origins, queried at all pixel centres, random interior points and points "
        "hugging every pixel boundary at 2^-20 of a pixel on both sides; shape-mask cases: radii / "
        "axes hugging actual pixel distances on both sides; a case is non-trivial when H*W >= 2 and, "
        "for shape masks, the result has both masked and unmasked pixels; distinct = distinct inputs; "
        "history cases (2-6 steps on reused objects, each step compared with the model / oracle of a fresh object in "
        "that state, every history run in a fresh fork of a pristine process) count when they have >= 2 steps; "
        "constant-directed large cases (only when the anchored source gained an integer constant) are oracle-only; "
        "round 5/6 streams: decade cases (the whole world x 2^k, |k| <= 480, both observations divided back exactly and "
        "judged as the base case) count like their base case; near-special / far-origin / layout / option-pair cases are "
        "ordinary cases; always-on big cases (> 2^16 elements) are oracle-only"
    )
    exhaustive_note = {
        "quick": "complete enumerations: every 1-D mask with n <= 6 cells; every shape (H,W) in 1..7 x 1..7 for "
                 "each case family, and within a geometry case every pixel centre and both sides of every pixel "
                 "boundary line; scales/origins/radii/angles are sampled, not enumerated",
        "thorough": "complete enumerations: every 1-D mask with n <= 9 cells; every shape (H,W) in 1..12 x 1..12 "
                    "for each case family, and within a geometry case every pixel centre and both sides of every "
                    "pixel boundary line; scales/origins/radii/angles are sampled, not enumerated",
    }
    # loop ties (DESIGN §12): regenerated from the source on every run, tie theorems proved for all sizes
    loop_tie_modules = ["LoopsShapes", "LoopsShapes2"]
    modelled_functions = [
        "autoarray/geometry/geometry_util.py:central_pixel_coordinates_1d_from",
        "autoarray/geometry/geometry_util.py:central_scaled_coordinate_1d_from",
        "autoarray/geometry/geometry_util.py:pixel_coordinates_1d_from",
        "autoarray/geometry/geometry_util.py:scaled_coordinates_1d_from",
        "autoarray/geometry/geometry_util.py:convert_pixel_scales_2d",
        "autoarray/geometry/geometry_util.py:central_pixel_coordinates_2d_from",
        "autoarray/geometry/geometry_util.py:central_scaled_coordinate_2d_from",
        "autoarray/geometry/geometry_util.py:pixel_coordinates_2d_from",
        "autoarray/geometry/geometry_util.py:scaled_coordinates_2d_from",
        "autoarray/geometry/geometry_util.py:grid_pixels_2d_slim_from",
        "autoarray/geometry/geometry_util.py:grid_pixel_centres_2d_slim_from",
        "autoarray/geometry/geometry_util.py:grid_pixel_indexes_2d_slim_from",
        "autoarray/geometry/geometry_util.py:grid_scaled_2d_slim_from",
        "autoarray/geometry/geometry_2d.py:Geometry2D.__init__",
        "autoarray/geometry/geometry_2d.py:Geometry2D.shape_native_scaled",
        "autoarray/geometry/geometry_2d.py:Geometry2D.scaled_maxima",
        "autoarray/geometry/geometry_2d.py:Geometry2D.scaled_minima",
        "autoarray/geometry/geometry_2d.py:Geometry2D.extent",
        "autoarray/geometry/geometry_2d.py:Geometry2D.central_pixel_coordinates",
        "autoarray/geometry/geometry_2d.py:Geometry2D.central_scaled_coordinates",
        "autoarray/geometry/geometry_2d.py:Geometry2D.pixel_coordinates_2d_from",
        "autoarray/geometry/geometry_2d.py:Geometry2D.scaled_coordinates_2d_from",
        "autoarray/geometry/geometry_2d.py:Geometry2D.grid_pixels_2d_from",
        "autoarray/geometry/geometry_2d.py:Geometry2D.grid_pixel_centres_2d_from",
        "autoarray/geometry/geometry_2d.py:Geometry2D.grid_pixel_indexes_2d_from",
        "autoarray/geometry/geometry_2d.py:Geometry2D.grid_scaled_2d_from",
        "autoarray/geometry/geometry_1d.py:Geometry1D.__init__",
        "autoarray/geometry/geometry_1d.py:Geometry1D.shape_slim_scaled",
        "autoarray/geometry/geometry_1d.py:Geometry1D.scaled_maxima",
        "autoarray/geometry/geometry_1d.py:Geometry1D.scaled_minima",
        "autoarray/geometry/geometry_1d.py:Geometry1D.extent",
        "autoarray/structures/grids/grid_2d_util.py:grid_2d_slim_via_mask_from",
        "autoarray/structures/grids/grid_2d_util.py:grid_2d_slim_via_shape_native_from",
        "autoarray/structures/grids/grid_1d_util.py:grid_1d_slim_via_mask_from",
        "autoarray/structures/grids/grid_1d_util.py:grid_1d_slim_via_shape_slim_from",
        "autoarray/structures/grids/uniform_2d.py:Grid2D.from_mask",
        "autoarray/structures/grids/uniform_2d.py:Grid2D.uniform",
        "autoarray/structures/grids/uniform_1d.py:Grid1D.from_mask",
        "autoarray/structures/grids/uniform_1d.py:Grid1D.uniform",
        "autoarray/mask/derive/grid_2d.py:DeriveGrid2D.all_false",
        "autoarray/mask/derive/grid_2d.py:DeriveGrid2D.unmasked",
        "autoarray/mask/mask_2d.py:Mask2D.geometry",
        "autoarray/mask/mask_2d.py:Mask2D.all_false",
        "autoarray/mask/mask_2d.py:Mask2D.circular",
        "autoarray/mask/mask_2d.py:Mask2D.circular_annular",
        "autoarray/mask/mask_2d.py:Mask2D.circular_anti_annular",
        "autoarray/mask/mask_2d.py:Mask2D.elliptical",
        "autoarray/mask/mask_2d.py:Mask2D.elliptical_annular",
        "autoarray/mask/mask_1d.py:Mask1D.geometry",
        "autoarray/mask/mask_2d_util.py:mask_2d_centres_from",
        "autoarray/mask/mask_2d_util.py:total_pixels_2d_from",
        "autoarray/mask/mask_2d_util.py:mask_2d_circular_from",
        "autoarray/mask/mask_2d_util.py:mask_2d_circular_annular_from",
        "autoarray/mask/mask_2d_util.py:mask_2d_circular_anti_annular_from",
        "autoarray/mask/mask_2d_util.py:elliptical_radius_from",
        "autoarray/mask/mask_2d_util.py:mask_2d_elliptical_from",
        "autoarray/mask/mask_2d_util.py:mask_2d_elliptical_annular_from",
    ]
    trusted_extra = [
        "IEEE-754 rounding of `coordinate/scale + centre + 0.5` (theorems are over exact ordered fields; "
        "decisions within 1e-9 of a pixel boundary / mask radius are excluded by the property and skipped)",
        "numpy sqrt / arctan2 / sin / cos / radians in the shape constructors: modelled as parameters; the "
        "driver runs the polynomial form with (cos, sin) computed in double by the harness",
    ]
    assumptions = [
        "pixel scales > 0; axis ratios != 0; shapes >= 1x1",
        "the mask constructors measure pixel centres relative to the mask origin (the `origin` argument "
        "is attached to the result and does not move the shape)",
    ]

    # ------------------------------------------------------------------ generation
    def _scales_origin(self, rng, k=0):
        sy, sx = gen.scales_pair(rng)
        if k == 0 and sy == sx:  # make sure anisotropy is never absent for a shape
            sx = gen.SCALES[(gen.SCALES.index(sy) + 1 + rng.randrange(len(gen.SCALES) - 1)) % len(gen.SCALES)]
        oy, ox = gen.origin_pair(rng)
        if oy == ox or oy == -ox:
            ox = ox + F(3, 8)
        if k == 2:
            oy, ox = F(0), F(0)
        return sy, sx, oy, ox

    def _variant(self, rng, integer=False):
        """how the case is fed to the public API (dtype, container, route, falsy/defaulted options): the exact
        model and the oracle do not depend on it — the results must be the same real numbers."""
        return {
            "vals": rng.choice(["int64", "pyint"]) if integer
            else rng.choice(["float64", "float64", "pylist", "int64", "pyint"]),
            "params": rng.choice(["float", "float", "int"]),
            "route": rng.choice(["geometry", "geometry", "util", "geometry_obj"]),
            "seq": rng.choice(["tuple", "tuple", "list"]),
            "point_seq": rng.choice(["tuple", "list", "ndarray"]),
            "scalar_scales": rng.random() < 0.5,
            "omit_defaults": rng.random() < 0.5,
            "explicit_flags": rng.random() < 0.3,
            "mask_arg": rng.choice(["ndarray", "list", "int_list", "int_ndarray"]),
            "mask_ctor": rng.choice(["all_false", "manual"]),
            "grid_ctor": rng.choice(["no_mask", "with_mask"]),
        }

    def _geom_int_case(self, rng, H, W, tag):
        """integer-valued query coordinates and pixel coordinates, fed as int64 ndarrays / Python int lists."""
        sy, sx = rng.choice([F(1), F(3, 2), F(2), F(3)]), rng.choice([F(1), F(3, 2), F(2), F(3), F(1, 2)])
        oy, ox = gen.origin_pair(rng)
        if rng.random() < 0.3:
            oy, ox = F(round(oy)), F(round(ox)) + 1
        ymin, ymax = oy - H * sy / 2, oy + H * sy / 2
        xmin, xmax = ox - W * sx / 2, ox + W * sx / 2
        ys = [y for y in range(math.floor(ymin) + 1, math.ceil(ymax)) if ymin < y < ymax]
        xs = [x for x in range(math.floor(xmin) + 1, math.ceil(xmax)) if xmin < x < xmax]
        pts = []
        if ys and xs:
            pts = [(F(rng.choice(ys)), F(rng.choice(xs))) for _ in range(8)]
        pix = [(F(rng.randint(-2, H + 2)), F(rng.randint(-2, W + 2))) for _ in range(6)]
        pix += [(F(i), F(j)) for i in (0, H - 1) for j in (0, W - 1)]
        return {"tag": tag, "kind": "geom", "shape": [H, W], "scales": qlist([sy, sx]),
                "origin": qlist([oy, ox]), "points": [qlist(p) for p in pts],
                "pixels": [qlist(p) for p in pix], "variant": self._variant(rng, integer=True)}

    def _geom_case(self, rng, H, W, k, tag, geo=None, hug=True):
        sy, sx, oy, ox = geo if geo is not None else self._scales_origin(rng, k)
        ymax, xmin = oy + H * sy / 2, ox - W * sx / 2
        pts = []
        # random interior points, 8 fractional bits of a pixel
        for _ in range(6 + (H * W) // 4):
            ty = F(rng.randint(1, H * 256 - 1), 256)
            tx = F(rng.randint(1, W * 256 - 1), 256)
            pts.append((ymax - ty * sy, xmin + tx * sx))
        # boundary-hugging: every pixel boundary line, both sides, paired with a random other coordinate
        for b in range(H + 1 if hug else 0):
            for sgn in (-1, 1):
                ty = b + sgn * HUG
                if 0 < ty < H:
                    tx = F(rng.randint(1, W * 64 - 1), 64) + F(1, 256)
                    pts.append((ymax - ty * sy, xmin + tx * sx))
        for b in range(W + 1 if hug else 0):
            for sgn in (-1, 1):
                tx = b + sgn * HUG
                if 0 < tx < W:
                    ty = F(rng.randint(1, H * 64 - 1), 64) + F(1, 256)
                    pts.append((ymax - ty * sy, xmin + tx * sx))
        # a corner-hugging point in each corner pixel
        for ty in ((HUG, H - HUG) if hug else ()):
            for tx in (HUG, W - HUG):
                pts.append((ymax - ty * sy, xmin + tx * sx))
        # fractional pixel coordinates for the pixel -> scaled direction
        pix = [(F(rng.randint(-2 * 8, (H + 2) * 8), 8), F(rng.randint(-2 * 8, (W + 2) * 8), 8))
               for _ in range(6)]
        pix += [(F(i), F(j)) for i in (0, H - 1) for j in (0, W - 1)]
        return {"tag": tag, "kind": "geom", "shape": [H, W], "scales": qlist([sy, sx]),
                "origin": qlist([oy, ox]), "points": [qlist(p) for p in pts],
                "pixels": [qlist(p) for p in pix], "variant": self._variant(rng)}

    def _boundary_case(self, rng, H, W):
        """a single query point exactly on a pixel boundary: inside the property's tie band, skipped and
        counted (either neighbouring pixel is acceptable)."""
        sy, sx, oy, ox = self._scales_origin(rng, 0)
        ymax, xmin = oy + H * sy / 2, ox - W * sx / 2
        b = rng.randint(0, H)
        tx = F(rng.randint(1, W * 64 - 1), 64) + F(1, 256)
        return {"tag": "geom_on_boundary", "kind": "geom", "shape": [H, W], "scales": qlist([sy, sx]),
                "origin": qlist([oy, ox]), "points": [qlist((ymax - b * sy, xmin + tx * sx))],
                "pixels": [], "single_band_point": True}

    def _grid_case(self, rng, H, W, tag, all_masked=False, geo=None):
        sy, sx, oy, ox = geo if geo is not None else self._scales_origin(rng, rng.randrange(3))
        if geo is None and rng.random() < 0.25:  # integer-valued geometry, passed as Python ints by some variants
            sy, sx = F(rng.choice([1, 2, 3])), F(rng.choice([1, 2, 3]))
            oy, ox = F(round(oy)), F(round(ox))
        if all_masked:
            m, kind = gen.full(H, W), "all_masked"
        else:
            m, kind = gen.random_mask(rng, H, W)
        return {"tag": f"{tag}_{kind}", "kind": "grid", "mask": mask_json(m), "scales": qlist([sy, sx]),
                "origin": qlist([oy, ox]), "variant": self._variant(rng)}

    def _grid1d_case(self, rng, n, bits, geo=None):
        s = rng.choice(gen.SCALES)
        o = gen.dyadic(rng, -4, 4, 3)
        if geo is not None:
            s, o = geo
        xmin = o - n * s / 2
        pts = [xmin + F(rng.randint(1, n * 256 - 1), 256) * s for _ in range(4)]
        pts += [xmin + (b + sg * HUG) * s for b in range(n + 1) for sg in (-1, 1) if 0 < b + sg * HUG < n]
        pts += [F(x) for x in range(math.floor(xmin) + 1, math.ceil(xmin + n * s))][:3]  # integer coordinates
        pix = [F(rng.randint(-8, (n + 1) * 8), 8) for _ in range(3)] + [F(0), F(n - 1)]
        return {"tag": "grid1d", "kind": "grid1d", "bits": bits, "scale": q(s), "origin": q(o),
                "points": qlist(pts), "pixels": qlist(pix), "variant": self._variant(rng)}

    def _pixel_distance(self, rng, H, W, sy, sx, cy, cx, ell=None):
        """(double) radial quantity of a random pixel — the thresholds the generators hug."""
        i, j = rng.randrange(H), rng.randrange(W)
        dy = (F(H - 1, 2) - i) * sy - cy
        dx = (j - F(W - 1, 2)) * sx - cx
        if ell is None:
            return math.sqrt(float(dx * dx + dy * dy))
        c, s, qq = ell
        xe = dx * c + dy * s
        ye = (-dx * s + dy * c) / qq
        return math.sqrt(float(xe * xe + ye * ye))

    def _hug(self, rng, d):
        """a radius next to the pixel distance d: just below, just above, or somewhere else."""
        mode = rng.randrange(5)
        if mode == 4:
            return F(rng.randint(0, 8))  # integer radius (0 included: "set but falsy")
        if mode == 0:
            return F(d) * (1 - HUG)
        if mode == 1:
            return F(d) * (1 + HUG)
        if mode == 2:
            return F(d) + F(rng.randint(-32, 32), 128)
        return F(rng.randint(0, 64), 8)

    def _shape_case(self, rng, H, W, ctor, tag, centre_nonzero=False, geo=None, centre=None):
        sy, sx, oy, ox = geo if geo is not None else self._scales_origin(rng, rng.randrange(3))
        integer = rng.random() < 0.2 and geo is None  # integer-valued parameters, passed as Python ints by some variants
        if integer:
            sy, sx = F(rng.choice([1, 2, 3])), F(rng.choice([1, 2, 3]))
            oy, ox = F(round(oy)), F(round(ox))
        # centre: inside the frame, unequal components, sometimes zero
        if rng.random() < 0.25 and not centre_nonzero:
            cy, cx = F(0), F(0)
        elif integer:
            cy, cx = F(rng.randint(-H, H)), F(rng.randint(-W, W))
        else:
            cy = F(rng.randint(-H * 4, H * 4), 8) * sy
            cx = F(rng.randint(-W * 4, W * 4), 8) * sx
            if cy == cx:
                cx += F(1, 8)
        if centre_nonzero and (cy == 0 or cx == 0 or cy == -cx):
            cy, cx = cy + F(3, 8) * sy, cx - F(5, 8) * sx
            if cy == 0 or cx == 0 or cy == cx or cy == -cx:
                cy, cx = cy + sy, cx - F(1, 4) * sx
        if centre is not None:
            cy, cx = centre
        case = {"tag": f"{tag}_{ctor}", "kind": "shape", "ctor": ctor, "shape": [H, W],
                "scales": qlist([sy, sx]), "origin": qlist([oy, ox]), "centre": qlist([cy, cx]),
                "variant": self._variant(rng)}

        def pd(ell=None):
            return self._pixel_distance(rng, H, W, sy, sx, cy, cx, ell)

        def ell_params():
            qq = rng.choice([F(1), F(1, 2), F(3, 4), F(1, 4), F(7, 8), F(3, 8)])
            ang = rng.choice([F(0), F(90), F(45), F(30), F(-60), F(135), F(180), F(270), F(10), F(77),
                              F(rng.randint(-720, 720), 2)])
            cs = cs_of(ang)
            return qq, ang, cs

        if ctor == "circular":
            r = self._hug(rng, pd())
            if rng.random() < 0.03:
                r = -r
            case["radius"] = q(r)
        elif ctor == "annular":
            a, b = sorted([self._hug(rng, pd()), self._hug(rng, pd())])
            if rng.random() < 0.05:
                a, b = b, a  # inverted radii: empty annulus unless equal
            if rng.random() < 0.05:
                a = -a
            case["inner"], case["outer"] = q(a), q(b)
        elif ctor == "anti_annular":
            a, b, c = sorted([self._hug(rng, pd()), self._hug(rng, pd()), self._hug(rng, pd())])
            if rng.random() < 0.05:
                b, c = c, b
            case["inner"], case["outer"], case["outer2"] = q(a), q(b), q(c)
        elif ctor == "elliptical":
            qq, ang, cs = ell_params()
            ell = (F(cs[0]), F(cs[1]), qq)
            case.update({"major": q(self._hug(rng, pd(ell))), "axis_ratio": q(qq), "angle": q(ang), "cs": cs})
        else:
            qi, ai, csi = ell_params()
            qo, ao, cso = ell_params()
            ri = self._hug(rng, pd((F(csi[0]), F(csi[1]), qi)))
            ro = self._hug(rng, pd((F(cso[0]), F(cso[1]), qo)))
            if rng.random() < 0.7 and ri > ro:
                ri, ro = ro, ri
            case.update({"inner_major": q(ri), "inner_axis_ratio": q(qi), "inner_phi": q(ai), "inner_cs": csi,
                         "outer_major": q(ro), "outer_axis_ratio": q(qo), "outer_phi": q(ao), "outer_cs": cso})
        return case

    # ------------------------------------------------------------------ large stream (size-gated code paths)
    def _large_frame(self, n, rng, above):
        """a non-square frame with exactly n pixels when n has a usable factorisation, else the nearest such
        count on the requested side of n (`above`: never below n; else never above n); last resort 1 x n"""
        for d in range(0, 12):
            m = n + d if above else n - d
            if m < 2:
                break
            fp = factor_pairs(m)
            if fp:
                h, w = rng.choice(fp[:3])
                return (h, w) if rng.random() < 0.5 else (w, h)
        return (1, n) if rng.random() < 0.5 else (n, 1)

    def _large_variant(self, rng, integer=False):
        v = self._variant(rng, integer=integer)
        v["mask_arg"] = "ndarray"
        v["skip_util"] = rng.random() < 0.8
        if not integer and v["vals"] in ("int64", "pyint"):
            v["vals"] = rng.choice(["float64", "pylist"])
        return v

    def _large_cases_for_size(self, n, rng, above, per_axis):
        """cases whose every size dimension (frame pixels, unmasked pixels, points of a grid, 1-D cells, one axis)
        equals n, with the ingredients that make a wrong result visible"""
        seed = lambda: rng.randrange(1 << 31)
        if n <= LARGE_MODEL_MAX:  # small targets: ordinary families, compared with the Lean model as well
            H, W = self._large_frame(n, rng, above)
            yield self._geom_case(rng, H, W, rng.randrange(3), "large_small_geom")
            yield self._grid_case(rng, H, W, "large_small_grid")
            for ctor in CTORS:
                yield self._shape_case(rng, H, W, ctor, "large_small_shape", centre_nonzero=rng.random() < 0.8)
            yield self._grid1d_case(rng, n, "".join(rng.choice("01") for _ in range(n)))
            h, w = rng.choice([(3, 5), (5, 3), (4, 7), (7, 2)])
            c = self._geom_case(rng, h, w, 0, "large_small_points")
            sy, sx, oy, ox = (F(x) for x in c["scales"] + c["origin"])
            while len(c["points"]) < n:
                ty, tx = F(rng.randint(1, h * 256 - 1), 256), F(rng.randint(1, w * 256 - 1), 256)
                c["points"].append(qlist((oy + h * sy / 2 - ty * sy, ox - w * sx / 2 + tx * sx)))
            c["points"] = c["points"][:n]
            yield c
            return
        H, W = self._large_frame(n, rng, above)
        so = lambda k=None: self._scales_origin(rng, rng.randrange(3) if k is None else k)
        # (1) the five shape constructors on an H x W = n frame, off-centre
        for ctor in CTORS:
            c = self._shape_case(rng, H, W, ctor, "large_shape", centre_nonzero=rng.random() < 0.85)
            c.update({"large": True, "variant": self._large_variant(rng)})
            yield c
        # (2) pixel-centre grids: n frame pixels (half unmasked / all unmasked), and exactly n UNMASKED pixels
        sy, sx, oy, ox = so(0)
        yield {"tag": "large_grid", "kind": "grid", "large": True, "scales": qlist([sy, sx]), "origin": qlist([oy, ox]),
               "mask_gen": {"h": H, "w": W, "seed": seed(), "style": rng.choice(["random", "blob", "all_false"])},
               "variant": self._large_variant(rng)}
        H2, W2 = self._large_frame(n + n // 3 + rng.randint(1, 9), rng, True)
        sy, sx, oy, ox = so()
        yield {"tag": "large_grid_unmasked", "kind": "grid", "large": True, "scales": qlist([sy, sx]),
               "origin": qlist([oy, ox]),
               "mask_gen": {"h": H2, "w": W2, "seed": seed(), "style": rng.choice(["random", "blob"]), "unmasked": n},
               "variant": self._large_variant(rng)}
        # (3) geometry of an n-pixel frame (every pixel centre, extent, centre round trip) with a few hundred points
        sy, sx, oy, ox = so(0)
        integer = rng.random() < 0.25
        yield {"tag": "large_geom_frame", "kind": "geom", "large": True, "shape": [H, W], "scales": qlist([sy, sx]),
               "origin": qlist([oy, ox]),
               "points_gen": {"n": 300, "seed": seed(), "mode": "int" if integer else "frac"},
               "pixels_gen": {"n": 100, "seed": seed(), "mode": "int" if integer else "frac"},
               "variant": self._large_variant(rng, integer)}
        # (4) n points / n pixel coordinates through the grid conversions of a small non-square frame
        h, w = rng.choice([(7, 11), (11, 7), (5, 16), (13, 4), (9, 10), (2, 31)])
        sy, sx, oy, ox = so(0)
        integer = rng.random() < 0.25
        if integer:
            sy, sx = F(rng.choice([2, 3])), F(rng.choice([3, 2, 1]))
        yield {"tag": "large_geom_points", "kind": "geom", "large": True, "shape": [h, w], "scales": qlist([sy, sx]),
               "origin": qlist([oy, ox]),
               "points_gen": {"n": n, "seed": seed(), "mode": "int" if integer else "frac"},
               "pixels_gen": {"n": n, "seed": seed(), "mode": "int" if integer else "frac"},
               "variant": self._large_variant(rng, integer)}
        # (5) 1-D: n cells, and exactly n unmasked cells
        for cells, unm in ((n, None), (n + n // 3 + 1, n)):
            yield {"tag": "large_grid1d", "kind": "grid1d", "large": True, "scale": q(rng.choice(gen.SCALES)),
                   "origin": q(gen.dyadic(rng, -4, 4, 3)),
                   "bits_gen": {"n": cells, "seed": seed(), "style": "random", "unmasked": unm},
                   "variant": self._large_variant(rng)}
        # (6) one axis of length n (a gate on shape_native[0] or [1] alone)
        if per_axis:
            for (h, w) in ((n, 2), (3, n)):
                c = self._shape_case(rng, h, w, rng.choice(CTORS), "large_axis_shape", centre_nonzero=True)
                c.update({"large": True, "variant": self._large_variant(rng)})
                yield c
                sy, sx, oy, ox = so(0)
                yield {"tag": "large_axis_grid", "kind": "grid", "large": True, "scales": qlist([sy, sx]),
                       "origin": qlist([oy, ox]),
                       "mask_gen": {"h": h, "w": w, "seed": seed(), "style": rng.choice(["random", "all_false"])},
                       "variant": self._large_variant(rng)}
                yield {"tag": "large_axis_geom", "kind": "geom", "large": True, "shape": [h, w],
                       "scales": qlist([sy, sx]), "origin": qlist([oy, ox]),
                       "points_gen": {"n": 200, "seed": seed(), "mode": "frac"},
                       "pixels_gen": {"n": 50, "seed": seed(), "mode": "frac"}, "variant": self._large_variant(rng)}

    def _large_for_hint(self, c, rng, level):
        """level 2: all five sizes (+ single-axis frames); 1: below / above / non-multiple; 0: one size above"""
        sizes = {2: [(c + 1, True), (c + c // 3 + 1, True), (c, True), (2 * c + 1, True), (c - 1, False)],
                 1: [(c + 1, True), (c + c // 3 + 1, True), (c - 1, False)],
                 0: [(c + c // 3 + 1, True)]}[level]
        for rep in range(2 if c <= 4000 else 1):
            for n, above in sizes:
                if n >= 2:
                    yield from self._large_cases_for_size(n, rng, above, per_axis=(level == 2 and n in (c - 1, c + 1)))

    def generate_large(self, hints, rng):
        """constant-directed cases (DESIGN §13): for every new integer constant c of the anchored source, frames /
        masks / point lists / 1-D masks whose size is c-1, c, c+1, c + c//3 + 1 and 2c+1.  Targets above
        LARGE_MODEL_MAX pixels are oracle-only (`large`: no model request; the vectorised oracle judges them)."""
        hints = sorted({int(c) for c in hints if 8 <= int(c) <= LARGE_HINT_MAX})
        gens, spent = [], 0.0
        for c in hints:  # ascending; estimated seconds of pure-Python loops, total kept near 40 s
            level = 2 if c <= 20000 else 1
            est = {2: 7e-4, 1: 2.5e-4, 0: 1.0e-4}
            while level > 0 and spent + est[level] * c > 45.0:
                level -= 1
            if spent + est[level] * c > 60.0 and gens:
                continue
            spent += est[level] * c
            gens.append(self._large_for_hint(c, rng, level))
        while gens:  # round-robin, so every hint is reached early
            for g in list(gens):
                try:
                    yield next(g)
                except StopIteration:
                    gens.remove(g)

    # ------------------------------------------------------------------ history stream (reuse / stale state)
    @staticmethod
    def _perturb(rng, v):
        """a double that `np.allclose` (rtol 1e-5, atol 1e-8) calls equal to v, but far outside the property's 1e-9"""
        v = F(v)
        if v == 0:
            return F(rng.choice([-1, 1]) * rng.choice([6e-9, 8e-9, 9e-9]))
        eps = rng.choice([1e-6, 2.5e-6, 6e-6, 9e-6]) * rng.choice([-1, 1])
        return F(float(v) * (1.0 + eps))

    @staticmethod
    def _far_origin(rng):
        return (F(rng.randint(-9000, 9000)) + F(rng.randint(0, 7), 8), F(rng.randint(-900, 900)) + F(rng.randint(1, 7), 8))

    def _hshape(self, rng):
        if rng.random() < 0.8:
            H, W = rng.randint(1, 7), rng.randint(1, 7)
        else:
            H, W = rng.randint(6, 12), rng.randint(5, 11)
        return H, W

    @staticmethod
    def _copy(c):
        import copy
        return copy.deepcopy(c)

    def _hopts(self, rng, names, **kw):
        o = dict(kw)
        if rng.random() < 0.5:
            o["order"] = rng.sample(list(names), len(names))
        if rng.random() < 0.2:
            o["decoy"] = True
        if rng.random() < 0.25:
            o["scribble"] = True
        return o

    _NAMES = {"grid": GRID_OBS, "geom": GEOM_GROUPS, "grid1d": GRID1D_OBS, "shape": SHAPE_OBS}

    def _step(self, rng, sub, what, **kw):
        kind = sub["base"]["kind"] if sub["kind"] == "decade" else sub["kind"]
        return {"case": sub, "what": what, "opts": self._hopts(rng, self._NAMES[kind], **kw)}

    def _perturb_geometry(self, rng, c):
        """twin of a 2-D case: scales / origin replaced by near-duplicates"""
        b = self._copy(c)
        which = rng.choice(["oy", "ox", "o", "sy", "sx", "s", "all"])
        o, s = list(b["origin"]), list(b["scales"])
        if which in ("oy", "o", "all"):
            o[0] = q(self._perturb(rng, o[0]))
        if which in ("ox", "o", "all"):
            o[1] = q(self._perturb(rng, o[1]))
        if which in ("sy", "s", "all"):
            s[0] = q(self._perturb(rng, s[0]))
        if which in ("sx", "s", "all"):
            s[1] = q(self._perturb(rng, s[1]))
        b["origin"], b["scales"] = o, s
        return b, f"the same call with {which} changed by ~1e-6 relative"

    def _world(self, rng, kind, H, W, like=None):
        """an ordinary sub-case of the given kind on an H x W frame (for grid1d: H*W... cells = W)"""
        if kind == "grid":
            c = self._grid_case(rng, H, W, "hist")
        elif kind == "geom":
            c = self._geom_case(rng, H, W, rng.randrange(3), "hist")
            if len(c["points"]) > 24:
                c["points"] = c["points"][:6] + rng.sample(c["points"][6:], 18)
        elif kind == "shape":
            c = self._shape_case(rng, H, W, rng.choice(CTORS), "hist", centre_nonzero=rng.random() < 0.7)
        else:
            n = max(1, min(9, W))
            c = self._grid1d_case(rng, n, "".join(rng.choice("01") for _ in range(n)))
        if like is not None:
            c["variant"] = self._copy(like["variant"])
        return c

    def _radial(self, c, key_prefix=""):
        """double radial quantity of every pixel centre of a shape case (circular, or the ellipse `key_prefix`)"""
        H, W = c["shape"]
        sy, sx = (fl(v) for v in c["scales"])
        cy, cx = (fl(v) for v in c["centre"])
        ii = np.arange(H, dtype=float)[:, None]
        jj = np.arange(W, dtype=float)[None, :]
        dy = (((H - 1) / 2 - ii) * sy - cy) + 0.0 * jj
        dx = ((jj - (W - 1) / 2) * sx - cx) + 0.0 * ii
        if c["ctor"] in ("circular", "annular", "anti_annular"):
            return np.sqrt(dx * dx + dy * dy)
        cs = c[key_prefix + "cs"]
        qq = fl(c[{"": "axis_ratio", "inner_": "inner_axis_ratio", "outer_": "outer_axis_ratio"}[key_prefix]])
        co, si = fl(cs[0]), fl(cs[1])
        return np.sqrt((dx * co + dy * si) ** 2 + ((-dx * si + dy * co) / qq) ** 2)

    TWIN_COMBOS = tuple(
        (ctor, active, pkind)
        for ctor, keys in (("circular", ["radius"]), ("annular", ["inner", "outer"]),
                           ("anti_annular", ["inner", "outer", "outer2"]), ("elliptical", ["major"]),
                           ("elliptical_annular", ["inner_major", "outer_major"]))
        for active in keys
        for pkind in (["radius", "centre", "scales"] + (["angle", "axis_ratio"] if ctor.startswith("ellip") else [])))
    _twin_k = 0
    _own_k = 0
    _conf_k = 0

    def _shape_twin(self, rng, H, W):
        """two shape cases whose parameters agree to ~1e-6 relative but which differ in at least one pixel (outside
        the tie band of both): (A, B, description)"""
        # (constructor, active radius, kind of the perturbed parameter) cycle deterministically, so that every
        # combination -- in particular every angle / axis-ratio parameter -- occurs several times in every run
        ctor, active, pkind = self.TWIN_COMBOS[self._twin_k % len(self.TWIN_COMBOS)]
        self._twin_k += 1
        a = self._shape_case(rng, H, W, ctor, "hist", centre_nonzero=True)
        prefix = {"inner_major": "inner_", "outer_major": "outer_"}.get(active, "")
        param = {"radius": "radius", "centre": rng.choice(["centre0", "centre1"]),
                 "scales": rng.choice(["scales0", "scales1"]),
                 "angle": prefix + "phi" if ctor == "elliptical_annular" else "angle",
                 "axis_ratio": prefix + "axis_ratio"}[pkind]
        b = self._copy(a)
        big = float(np.max(self._radial(a, prefix))) * 2 + 10
        if param == "radius":
            d = self._radial(a, prefix)
            dval = float(d[rng.randrange(H), rng.randrange(W)])
            if dval <= 0:
                dval = float(np.max(d)) or 1.0
            lo, hi = F(dval) * (1 - HUG), F(dval) * (1 + HUG)
            if rng.random() < 0.5:
                lo, hi = hi, lo
            a[active], b[active] = q(lo), q(hi)
            r = F(dval)
        else:
            if param.startswith("centre") or param.startswith("scales"):
                key, k = param[:-1], int(param[-1])
                vals = list(b[key])
                vals[k] = q(self._perturb(rng, vals[k]))
                b[key] = vals
            elif param.endswith("axis_ratio"):
                b[param] = q(self._perturb(rng, b[param]))
            else:  # angle
                ang = self._perturb(rng, b[param]) if F(b[param]) != 0 else F(rng.choice([-1, 1]) * 7e-4)
                b[param] = q(ang)
                b[{"angle": "cs", "inner_phi": "inner_cs", "outer_phi": "outer_cs"}[param]] = cs_of(ang)
            da, db = self._radial(a, prefix), self._radial(b, prefix)
            k = int(np.argmax(np.abs(da - db) / np.maximum(1.0, np.maximum(da, db))))
            r = F((float(da.ravel()[k]) + float(db.ravel()[k])) / 2)
            a[active] = b[active] = q(r)
        # the other radii stay out of the way of the pixel that flips
        for c in (a, b):
            self._isolate(c, ctor, active, r, big)
        return a, b, f"the same {ctor} call with {param if param != 'radius' else active} changed by ~1e-6 relative"

    @staticmethod
    def _isolate(c, ctor, active, r, big):
        """the radii of `c` other than `active` (which is about r) moved out of the way of the pixels near r"""
        if ctor == "annular":
            if active == "outer":
                c["inner"] = q(F(0))
            else:
                c["outer"] = q(F(big))
        elif ctor == "anti_annular":
            if active == "inner":
                c["outer"], c["outer2"] = q(r + F(big)), q(r + 2 * F(big))
            elif active == "outer":
                c["inner"], c["outer2"] = q(F(-1)), q(F(big))
            else:
                c["inner"], c["outer"] = q(F(-1)), q(F(0))
        elif ctor == "elliptical_annular":
            if active == "outer_major":
                c["inner_major"] = q(F(0))
            else:
                c["outer_major"] = q(F(big) * 8)

    def _history(self, fam, rng):
        H, W = self._hshape(rng)
        far = rng.random() < 0.3
        steps = []
        if fam in ("twin_grid", "twin_geom"):
            kind = fam[5:]
            a = self._world(rng, kind, H, W)
            if far:
                a["origin"] = qlist(self._far_origin(rng))
                if kind == "geom":  # keep the query points inside the moved frame
                    a = self._geom_case_at(rng, a)
            reuse = ["containers"] if rng.random() < 0.4 else []
            if reuse:
                a["variant"]["seq"] = "list"
            if kind == "geom" and rng.random() < 0.3:  # same geometry object, near-duplicate query points
                b = self._copy(a)
                b["points"] = [qlist([self._perturb(rng, p[0]), self._perturb(rng, p[1])]) for p in a["points"]]
                what, reuse = "the same conversions with every query coordinate changed by ~1e-6 relative", ["geometry"]
            else:
                b, what = self._perturb_geometry(rng, a)
            if kind == "grid" and rng.random() < 0.3:
                b["mask"] = self._world(rng, "grid", H, W)["mask"]
            steps = [self._step(rng, a, "first call"), self._step(rng, b, what, reuse=reuse)]
            r = rng.random()
            if r < 0.35:
                steps.append(self._step(rng, self._copy(a), "the first call again", reuse=reuse))
            elif r < 0.6:
                c, what2 = self._perturb_geometry(rng, b)
                steps.append(self._step(rng, c, what2, reuse=reuse))
        elif fam == "twin_shape":
            a, b, what = self._shape_twin(rng, H, W)
            reuse = ["containers"] if rng.random() < 0.4 else []
            if reuse:
                a["variant"]["seq"] = b["variant"]["seq"] = "list"
            if rng.random() < 0.5:
                a, b = b, a
            steps = [self._step(rng, a, "first call"), self._step(rng, b, what, reuse=reuse)]
            if rng.random() < 0.4:
                steps.append(self._step(rng, self._copy(a), "the first call again", reuse=reuse))
        elif fam == "twin_grid1d":
            a = self._world(rng, "grid1d", 1, rng.randint(1, 9))
            if far:
                a["origin"] = q(self._far_origin(rng)[0])
                a = self._grid1d_case_at(rng, a)
            b = self._copy(a)
            which = rng.choice(["scale", "origin", "both"])
            if which in ("scale", "both"):
                b["scale"] = q(self._perturb(rng, b["scale"]))
            if which in ("origin", "both"):
                b["origin"] = q(self._perturb(rng, b["origin"]))
            steps = [self._step(rng, a, "first call"),
                     self._step(rng, b, f"the same 1-D call with {which} changed by ~1e-6 relative")]
            if rng.random() < 0.4:
                steps.append(self._step(rng, self._copy(a), "the first call again"))
        elif fam == "edit_mask":
            a = self._world(rng, "grid", H, W)
            fresh_all_false = rng.random() < 0.3
            if fresh_all_false:  # an all-unmasked mask from Mask2D.all_false, edited in place; a second all_false
                a["mask"]["bits"] = "0" * (H * W)  # mask of the same frame must still be all-unmasked afterwards
            steps = [self._step(rng, a, "build + read", via_all_false=fresh_all_false)]
            cur = a
            for _ in range(rng.randint(1, 3)):
                b = self._copy(cur)
                bits = list(b["mask"]["bits"])
                mode = rng.randrange(5)
                if mode == 0 and len(steps) > 1:
                    bits = list(a["mask"]["bits"])  # back to the first content
                elif mode == 1:
                    y = rng.randrange(H)
                    v = rng.choice("01")
                    bits[y * W:(y + 1) * W] = v * W
                else:
                    for k in rng.sample(range(H * W), min(H * W, rng.randint(1, 3))):
                        bits[k] = "0" if bits[k] == "1" else "1"
                b["mask"]["bits"] = "".join(bits)
                steps.append(self._step(rng, b, "in-place edit of the Mask2D (mask[y, x] = value) + read again",
                                        reuse=["mask"], edit_style=rng.choice(["pixel", "pixel", "row", "boolkey"])))
                cur = b
            if fresh_all_false:
                g = self._world(rng, "geom", H, W)
                g["scales"], g["origin"] = list(a["scales"]), list(a["origin"])
                g = self._geom_case_at(rng, g)
                g["variant"].update({"mask_ctor": "all_false", "route": "geometry"})
                steps.append(self._step(rng, g, "a NEW Mask2D.all_false of the same frame and its pixel-centre grid"))
                steps.append(self._step(rng, self._copy(a), "a NEW all-unmasked mask of the same frame",
                                        via_all_false=True))
        elif fam == "edit_mask1d":
            a = self._world(rng, "grid1d", 1, rng.randint(2, 9))
            steps = [self._step(rng, a, "build + read")]
            cur = a
            for _ in range(rng.randint(1, 2)):
                b = self._copy(cur)
                bits = list(b["bits"])
                for k in rng.sample(range(len(bits)), rng.randint(1, min(2, len(bits)))):
                    bits[k] = "0" if bits[k] == "1" else "1"
                b["bits"] = "".join(bits)
                steps.append(self._step(rng, b, "in-place edit of the Mask1D (mask[x] = value) + read again",
                                        reuse=["mask"], edit_style=rng.choice(["pixel", "boolkey"])))
                cur = b
        elif fam == "edit_points":
            a = self._world(rng, "geom", H, W)
            a["variant"].update({"vals": "float64", "route": rng.choice(["geometry", "geometry_obj"])})
            steps = [self._step(rng, a, "convert a query grid")]
            cur = a
            for _ in range(rng.randint(1, 2)):
                b = self._copy(cur)
                fresh = self._geom_case_at(rng, self._copy(a))
                for key in ("points", "pixels"):
                    for k in rng.sample(range(len(b[key])), max(1, len(b[key]) // 3)):
                        b[key][k] = fresh[key][k % len(fresh[key])]
                steps.append(self._step(rng, b, "in-place edit of the caller's query Grid2D (grid[k] = (y, x)) + "
                                        "convert again with the same geometry object", reuse=["geometry", "qgrid"]))
                cur = b
        elif fam == "fault":
            kind = rng.choice(["grid", "geom", "shape", "grid1d"])
            a = self._world(rng, kind, H, W)
            if kind == "grid1d":
                faults = rng.sample(["bad_scales_uniform", "mask_bad_index", "short_scales"], rng.randint(1, 2))
            else:
                faults = rng.sample(["nan_point", "nan_point_geom", "nan_scalar", "bad_scales_uniform",
                                     "short_scales_util", "radius_none", "angle_str", "short_centre",
                                     "mask_bad_index", "readonly_edit"], rng.randint(1, 3))
            nxt = self._copy(a) if rng.random() < 0.5 else self._world(rng, kind, H, W, like=a)
            if kind == "grid1d" and len(nxt["bits"]) != len(a["bits"]):
                nxt = self._copy(a)
            reuse = {"grid": ["mask"], "geom": ["geometry", "qgrid"], "grid1d": ["mask"], "shape": []}[kind]
            steps = [self._step(rng, a, "first call"),
                     self._step(rng, nxt, "a call that raises part-way, then the same objects are used again",
                                faults=faults, reuse=reuse if rng.random() < 0.7 else [])]
        elif fam == "shared":
            kind = rng.choice(["grid", "geom", "shape", "geom"])
            a = self._world(rng, kind, H, W)
            a["variant"]["seq"] = "list"
            if kind == "geom" and rng.random() < 0.5:  # one Geometry2D object, two different point sets, both orders
                b = self._geom_case_at(rng, self._copy(a))
                reuse = ["geometry"]
                what = "the same Geometry2D object converts a different set of coordinates"
            else:  # the caller's own list objects (shape / scales / origin / centre) edited in place for another world
                h2, w2 = (H, W) if rng.random() < 0.6 else self._hshape(rng)
                b = self._world(rng, kind, h2, w2, like=a)
                reuse = ["containers"]
                what = "the caller's shape / scales / origin / centre lists are edited in place and passed again"
            steps = [self._step(rng, a, "world A"), self._step(rng, b, what, reuse=reuse),
                     self._step(rng, self._copy(a), "world A again (" + what + ")", reuse=reuse)]
        elif fam == "own":
            # R5-B ownership: observe -> overwrite in place EVERY array the API returned or accepted -> rebuild the same
            # world from fresh equal inputs -> observe again; three rounds, each judged as a fresh world
            kind = ("grid", "geom", "shape", "grid1d", "grid", "geom")[self._own_k % 6]
            a = self._world(rng, kind, H, W)
            if kind == "geom":
                a["variant"]["vals"] = rng.choice(["float64", "float64", "pylist"])
                a["variant"]["route"] = ("geometry", "util", "geometry_obj")[(self._own_k // 6) % 3]
            wrap = (lambda c: c)
            if rng.random() < 0.3:
                k = rng.choice([-30, -14, -7, 7, 20])
                wrap = (lambda c: self._decade(c, k, "dec_own"))
            style = ("nan", "plus1", "setitem")[(self._own_k // 2) % 3]
            self._own_k += 1
            what = f"rebuilt from fresh equal inputs after every returned / accepted array was overwritten in place ({style})"

            def own(c, w):
                o = {"scribble": "all", "scribble_style": style}
                if rng.random() < 0.4:
                    o["order"] = rng.sample(list(self._NAMES[kind]), len(self._NAMES[kind]))
                return {"case": wrap(c), "what": w, "opts": o}
            if rng.random() < 0.3 and kind != "grid1d":  # same frame, another geometry in between
                b = self._world(rng, kind, H, W, like=a)
                steps = [own(a, "world A"), own(b, "world B on the same frame, after everything of A was overwritten"),
                         own(self._copy(a), "world A again, " + what)]
            else:
                c3 = self._copy(a)
                if kind == "geom":
                    c3["variant"]["route"] = rng.choice(["geometry", "util", "geometry_obj"])
                steps = [own(a, "first read"), own(self._copy(a), what), own(c3, "third round of the same")]
        elif fam == "conf":
            # R5-D: the anchored code reads no configuration value, so every observation must be independent of the
            # configuration in force: values flipped BETWEEN calls on reused and on fresh objects, pinned values as controls
            # (configuration value x kind of case) cycle deterministically: each combination once per 16 histories
            kind = ("grid", "geom", "shape", "grid1d")[self._conf_k % 4]
            X = ({"flip": True}, {"nbo": True}, {"rpc": True}, {"flip": True, "nbo": True, "rpc": True})[(self._conf_k // 4) % 4]
            self._conf_k += 1
            a = self._world(rng, kind, H, W)
            c0, c1 = ({}, X) if rng.random() < 0.7 else (X, {})
            reuse = {"grid": ["mask"], "geom": ["geometry", "qgrid"], "grid1d": ["mask"], "shape": []}[kind]
            names = self._NAMES[kind]

            def cstep(c, w, conf, **kw):
                o = {"conf": dict(conf), **kw}
                if rng.random() < 0.4:
                    o["order"] = rng.sample(list(names), len(names))
                return {"case": c, "what": w, "opts": o}
            d0 = "the pinned configuration" if not c0 else f"configuration {c0}"
            d1 = "the pinned configuration" if not c1 else f"configuration {c1}"
            steps = [cstep(a, f"first read under {d0}", c0),
                     cstep(self._copy(a), f"configuration changed to {d1} between calls, same objects read again", c1,
                           reuse=reuse),
                     cstep(self._copy(a), f"fresh objects built and read under {d1}", c1),
                     cstep(self._copy(a), f"configuration changed back to {d0}, same objects read again", c0, reuse=reuse)]
        else:  # "order": sibling observations in a permuted order, decoy reads first, returned arrays scribbled on
            kind = rng.choice(["grid", "geom", "shape", "grid1d"])
            a = self._world(rng, kind, H, W)
            names = self._NAMES[kind]
            s1 = {"case": a, "what": "reads in a permuted order after decoy reads",
                  "opts": {"order": rng.sample(list(names), len(names)), "decoy": rng.random() < 0.7,
                           "scribble": rng.random() < 0.6}}
            s2 = {"case": self._copy(a), "what": "the same reads again in another order on the same objects",
                  "opts": {"order": rng.sample(list(names), len(names)), "scribble": rng.random() < 0.3,
                           "reuse": {"grid": ["mask"], "geom": ["geometry", "qgrid"], "grid1d": ["mask"],
                                     "shape": []}[kind]}}
            steps = [s1, s2]
        return {"tag": "hist_" + fam, "kind": "history", "steps": steps}

    def _geom_case_at(self, rng, c):
        """fresh query points / pixel coordinates for the geometry that `c` already has (variant kept)"""
        H, W = c["shape"]
        sy, sx, oy, ox = (F(x) for x in c["scales"] + c["origin"])
        ymax, xmin = oy + H * sy / 2, ox - W * sx / 2
        npts, npix = max(1, len(c["points"])), max(1, len(c["pixels"]))
        pts = []
        for k in range(npts):
            ty = F(rng.randint(1, H * 256 - 1), 256) if k % 3 else rng.randrange(H) + rng.choice([HUG, 1 - HUG])
            tx = F(rng.randint(1, W * 256 - 1), 256) if k % 4 else rng.randrange(W) + rng.choice([HUG, 1 - HUG])
            pts.append(qlist((ymax - ty * sy, xmin + tx * sx)))
        c["points"] = pts
        c["pixels"] = [qlist((F(rng.randint(-16, (H + 2) * 8), 8), F(rng.randint(-16, (W + 2) * 8), 8)))
                       for _ in range(npix)]
        return c

    def _grid1d_case_at(self, rng, c):
        n = len(c["bits"])
        s, o = F(c["scale"]), F(c["origin"])
        xmin = o - n * s / 2
        pts = [xmin + F(rng.randint(1, n * 256 - 1), 256) * s for _ in range(4)]
        pts += [xmin + (b + sg * HUG) * s for b in range(n + 1) for sg in (-1, 1) if 0 < b + sg * HUG < n]
        c["points"] = qlist(pts)
        return c

    HIST_FAMILIES = (("twin_grid", 80), ("twin_geom", 40), ("twin_shape", 110), ("twin_grid1d", 28),
                     ("edit_mask", 56), ("edit_mask1d", 20), ("edit_points", 30), ("fault", 56), ("shared", 56),
                     ("order", 44), ("own", 40), ("conf", 16))

    def _histories(self, tier, rng):
        mult = 1 if tier == "quick" else 3
        self._twin_k = 0
        self._own_k, self._conf_k = rng.randrange(18), rng.randrange(16)
        todo = [[fam, n * mult] for fam, n in self.HIST_FAMILIES]
        while todo:  # round-robin over the families
            for t in list(todo):
                yield self._history(t[0], rng)
                t[1] -= 1
                if t[1] <= 0:
                    todo.remove(t)

    # ================================================================== round 5/6 streams (DESIGN §14, R5-A ... R5-F)
    DEC_KS = (-45, -40, -33, -27, -20, -14, -10, -7, -3, 3, 7, 10, 14, 20, 27, 33, 40, 45)
    DEC_KS_EXTREME = (-480, 400, -300, 150, -400, 480, -150, 300)
    NEAR_KS = (0, -7, -14, 0, -27, 10, -40, 30)

    @staticmethod
    def _case_reals(c):
        """every scaled-unit input of an ordinary case, as Fractions"""
        if c["kind"] == "grid1d":
            return [fr(c["scale"]), fr(c["origin"])] + [fr(p) for p in c["points"]]
        out = [fr(v) for v in c["scales"] + c["origin"] + c.get("centre", [])]
        out += [fr(x) for p_ in c.get("points", []) for x in p_]
        out += [fr(c[k]) for k in RADII_KEYS if k in c]
        return out

    def _decade(self, base, k, tag):
        """`base` in units 2^k times larger; k falls back to 0 if a scaled input would not be an exact double"""
        k = max(-DEC_K_MAX, min(DEC_K_MAX, int(k)))
        f = self._dec_factor({"k": k})
        if k and not all(is_double(v * f) for v in self._case_reals(base)):
            k = 0
        if abs(k) > 45:
            tag = tag.replace("dec_", "decx_", 1)
        return {"tag": tag, "kind": "decade", "k": k, "base": base}

    def _rshape(self, rng, lo=1, hi=6):
        H, W = rng.randint(lo, hi), rng.randint(lo, hi)
        if H == W and rng.random() < 0.7:
            W = W % hi + 1
        return H, W

    def _trim_points(self, rng, c, n=20):
        if len(c["points"]) > n:
            c["points"] = c["points"][:4] + rng.sample(c["points"][4:], n - 4)
        return c

    def _decade_cases(self, tier, rng):
        """R5-A / R5-E: ordinary cases with the whole world in other units (x 2^k, exact), out to 2^+-480 (~1e+-144:
        squares of every quantity stay inside the double range)"""
        reps = 1 if tier == "quick" else 5
        i = rng.randrange(1000)

        def nk():
            nonlocal i
            i += 1
            return self.DEC_KS_EXTREME[(i // 2) % len(self.DEC_KS_EXTREME)] if i % 2 == 0 \
                else self.DEC_KS[(i // 2) % len(self.DEC_KS)]
        for _ in range(reps):
            for _ in range(16):
                H, W = self._rshape(rng)
                c = self._trim_points(rng, self._geom_case(rng, H, W, rng.randrange(3), "dec"))
                yield self._decade(c, nk(), "dec_geom")
            for _ in range(10):
                H, W = self._rshape(rng)
                yield self._decade(self._grid_case(rng, H, W, "dec"), nk(), "dec_grid")
            for ctor in CTORS:
                for _ in range(7):
                    H, W = self._rshape(rng, 2, 7)
                    c = self._shape_case(rng, H, W, ctor, "dec", centre_nonzero=rng.random() < 0.7)
                    yield self._decade(c, nk(), "dec_shape")
            for _ in range(7):
                n = rng.randint(1, 9)
                c = self._grid1d_case(rng, n, "".join(rng.choice("01") for _ in range(n)))
                yield self._decade(c, nk(), "dec_grid1d")

    # -- nearly-equal / nearly-zero / nearly-special ingredients (relative difference 2^-20 ... 2^-24: inside the
    #    defaults of np.allclose / np.isclose, 10-1000 x outside the property's 1e-9), each at several decades
    def _near_geo(self, rng, mode):
        sy, sx, oy, ox = self._scales_origin(rng, 0)
        e = rng.choice([20, 21, 22, 23])
        eps = F(rng.choice([-1, 1]), 1 << e)
        if oy == 0:
            oy = F(5, 8)
        if mode == "s_eq":
            sx = sy * (1 + eps)
        elif mode == "o_eq":
            ox = oy * (1 + eps)
        elif mode == "o_neg":
            ox = -oy * (1 + eps)
        elif mode == "o0":
            oy, ox = sy * F(rng.choice([-3, -1, 1, 2, 3]), 1 << e), sx * F(rng.choice([-3, 1, 2, 5]), 1 << (e + 1))
        elif mode == "o0y":
            oy = sy * F(rng.choice([-3, -1, 1, 3]), 1 << e)
        return sy, sx, oy, ox

    NEAR_SHAPE_COMBOS = tuple(
        [(c, a, m) for m in ("q1", "ang") for c, a in (("elliptical", "major"), ("elliptical_annular", "inner_major"),
                                                         ("elliptical_annular", "outer_major"))]
        + [(c, a, m) for m in ("s_eq", "c0", "c_eq_o")
           for c, a in (("circular", "radius"), ("annular", "inner"), ("annular", "outer"), ("anti_annular", "outer"),
                        ("anti_annular", "outer2"), ("elliptical", "major"), ("elliptical_annular", "outer_major"))]
        + [("annular", "ring", "ring"), ("anti_annular", "ring", "ring"), ("elliptical_annular", "ring", "ring")]
        + [("circular", "radius", "r0"), ("annular", "outer", "r0"), ("elliptical", "major", "r0"),
           ("anti_annular", "inner", "r0")])

    def _near_shape(self, rng, H, W, combo):
        """a single constructor call with one ingredient within 2^-20...2^-23 (relative) of a special value — axis ratio
        ~ 1, angle ~ a multiple of 90 degrees, s_x ~ s_y, centre ~ 0, centre ~ mask origin (far from zero), inner ~ outer
        radius, radius ~ 0 — and the active radius placed between the radial quantities that the special and the actual
        value give the pixel that moves most: a shortcut that treats the ingredient as special flips a compared pixel"""
        ctor, active, mode = combo
        prefix = {"inner_major": "inner_", "outer_major": "outer_"}.get(active, "")
        e = rng.choice([20, 21, 22])
        eps = F(rng.choice([-1, 1]), 1 << e)
        sy, sx, oy, ox = self._scales_origin(rng, rng.randrange(3))
        if mode == "c_eq_o":
            sy = rng.choice([F(1), F(1, 2), F(2)])
            sx = sy * rng.choice([F(1, 2), F(2), F(1)])
            oy = rng.choice([-1, 1]) * (F(1 << 17) + rng.randint(0, 4000) + F(rng.randint(1, 7), 8)) * sy
            ox = rng.choice([-1, 1]) * (F(1 << 16) + rng.randint(0, 4000) + F(rng.randint(1, 7), 8)) * sx
        if mode == "s_eq":
            sx = sy
        cen = None
        if mode == "c0":
            cen = (F(0), F(0))
        elif mode == "c_eq_o":
            cen = (oy, ox)
        elif mode == "r0":
            cen = ((F(H - 1, 2) - rng.randrange(H)) * sy, (rng.randrange(W) - F(W - 1, 2)) * sx)
        a = self._shape_case(rng, H, W, ctor, "near", centre_nonzero=True, geo=(sy, sx, oy, ox), centre=cen)
        a["tag"] = f"near_{mode}"
        akey = {"": "axis_ratio", "inner_": "inner_axis_ratio", "outer_": "outer_axis_ratio"}[prefix]
        pkey = ("angle" if ctor == "elliptical" else prefix + "phi")
        ckey = {"angle": "cs", "inner_phi": "inner_cs", "outer_phi": "outer_cs"}.get(pkey)
        if mode == "ring":  # inner ~ outer: exactly the pixels at one distance are unmasked
            pre = "outer_" if ctor == "elliptical_annular" else ""
            if ctor == "elliptical_annular":  # one ellipse for both radii
                for k_ in ("axis_ratio", "phi", "cs"):
                    a["inner_" + k_] = a["outer_" + k_]
            d = self._radial(a, pre)
            dval = float(d[rng.randrange(H), rng.randrange(W)]) or float(np.max(d)) or 1.0
            lo, hi = F(dval) * (1 - abs(eps)), F(dval) * (1 + abs(eps))
            if ctor == "annular":
                a["inner"], a["outer"] = q(lo), q(hi)
            elif ctor == "anti_annular":
                a["inner"], a["outer"], a["outer2"] = q(F(-1)), q(lo), q(hi)
            else:
                a["inner_major"], a["outer_major"] = q(lo), q(hi)
            return exactify(a)
        if mode == "r0":  # radius ~ 0 about a centre that is exactly a pixel centre: that pixel alone is unmasked
            r = min(sy, sx) * F(rng.randint(1, 3), 1 << rng.randint(21, 24))
            a[active] = q(r)
            self._isolate(a, ctor, active, r, float(np.max(self._radial(a, prefix))) * 2 + 10)
            return exactify(a)
        b = self._copy(a)  # `a`: the special value; `b`: the nearby value (the case that is run)
        if mode == "q1":
            a[akey], b[akey] = q(F(1)), q(1 - abs(eps))
        elif mode == "ang":
            if F(a[akey]) == 1:
                a[akey] = b[akey] = q(F(3, 4))
            ang0 = F(90 * rng.choice([1, 2, 3, 4, -1, -2]))
            e2 = rng.choice([17, 18, 19])
            ang1 = ang0 * (1 + F(rng.choice([-1, 1]), 1 << e2))
            a[pkey], b[pkey] = q(ang0), q(ang1)
            a[ckey], b[ckey] = cs_of(ang0), cs_of(ang1)
        elif mode == "s_eq":
            b["scales"] = qlist([sy, sy * (1 + eps)])
        elif mode == "c0":
            b["centre"] = qlist([sy * F(rng.choice([-3, -1, 1, 2]), 1 << e), sx * F(rng.choice([-2, 1, 3]), 1 << e)])
        elif mode == "c_eq_o":
            b["centre"] = qlist([oy + sy * F(rng.choice([-5, -3, 3, 5]), 8), ox + sx * F(rng.choice([-5, -1, 1, 3]), 8)])
        da, db = self._radial(a, prefix), self._radial(b, prefix)
        k = int(np.argmax(np.abs(da - db) / np.maximum(1e-300, np.maximum(da, db))))
        r = F((float(da.ravel()[k]) + float(db.ravel()[k])) / 2)
        b[active] = q(r)
        self._isolate(b, ctor, active, r, float(np.max(db)) * 2 + 10)
        return exactify(b)

    def _near_cases(self, tier, rng):
        reps = 1 if tier == "quick" else 4
        j = rng.randrange(len(self.NEAR_KS))
        for _ in range(reps):
            for combo in self.NEAR_SHAPE_COMBOS:
                for _ in range(2 if combo[2] in ("q1", "ang", "ring", "r0") else 1):
                    H, W = self._rshape(rng, 2, 7)
                    c = self._near_shape(rng, H, W, combo)
                    j += 1
                    k = 0 if combo[2] == "c_eq_o" else self.NEAR_KS[j % len(self.NEAR_KS)]
                    yield self._decade(c, k, c["tag"])
            for mode in ("s_eq", "o_eq", "o_neg", "o0", "o0y"):
                for kind in ("geom", "geom", "grid", "grid"):
                    H, W = self._rshape(rng)
                    geo = self._near_geo(rng, mode)
                    if kind == "geom":
                        c = self._trim_points(rng, self._geom_case(rng, H, W, 0, "near", geo=geo))
                    else:
                        c = self._grid_case(rng, H, W, "near", geo=geo)
                    c["tag"] = f"near_{mode}"
                    j += 1
                    yield self._decade(exactify(c), self.NEAR_KS[j % len(self.NEAR_KS)], c["tag"])
            for _ in range(6):  # 1-D: origin ~ 0
                n = rng.randint(2, 9)
                s = rng.choice(gen.SCALES)
                c = self._grid1d_case(rng, n, "".join(rng.choice("01") for _ in range(n)),
                                      geo=(s, s * F(rng.choice([-3, -1, 1, 2]), 1 << rng.randint(20, 23))))
                c["tag"] = "near_o0"
                j += 1
                yield self._decade(exactify(c), self.NEAR_KS[j % len(self.NEAR_KS)], c["tag"])

    # -- origins / centres far from zero; one ingredient (the pixel scale) in other units while the origin stays
    def _far_geo(self, rng, pow2):
        if pow2:  # powers of two: every float operation of the code is exact, |origin| / scale up to 2^24
            sy, sx = F(2) ** rng.randint(-3, 3), F(2) ** rng.randint(-3, 3)
            M = 1 << rng.randint(12, 24)
        else:  # |origin| / scale <= 2^17: rounding of y / s stays below 1e-10 pixel
            sy, sx = gen.scales_pair(rng)
            M = 1 << rng.randint(10, 17)
        oy = rng.choice([-1, 1]) * (F(M - rng.randint(0, M // 4)) + F(rng.randint(0, 7), 8)) * sy
        ox = rng.choice([-1, 1]) * (F(M // rng.choice([1, 2, 8]) - rng.randint(0, 9)) + F(rng.randint(1, 7), 8)) * sx
        return sy, sx, oy, ox

    def _far_cases(self, tier, rng):
        reps = 1 if tier == "quick" else 4
        for _ in range(reps):
            for i in range(12):
                H, W = self._rshape(rng)
                c = self._trim_points(rng, self._geom_case(rng, H, W, 0, "far", geo=self._far_geo(rng, i % 2 == 0)), 24)
                c["tag"] = "far_geom"
                yield exactify(c)
            for i in range(10):
                H, W = self._rshape(rng)
                c = self._grid_case(rng, H, W, "far", geo=self._far_geo(rng, i % 2 == 0))
                c["tag"] = "far_grid"
                yield exactify(c)
            for i in range(6):
                n = rng.randint(1, 9)
                sy, _, oy, _ = self._far_geo(rng, i % 2 == 0)
                c = self._grid1d_case(rng, n, "".join(rng.choice("01") for _ in range(n)), geo=(sy, oy))
                c = self._grid1d_case_at(rng, c)
                c["tag"] = "far_grid1d"
                yield exactify(c)
            for ctor in CTORS:  # centre far from zero (the shape is measured from the mask origin, which is far too)
                for i in range(2):
                    H, W = self._rshape(rng, 2, 7)
                    sy, sx, oy, ox = self._far_geo(rng, i == 0)
                    M = 1 << rng.randint(8, 17)
                    cen = (rng.choice([-1, 1]) * (F(M) + F(rng.randint(0, 63), 8)) * sy,
                           rng.choice([-1, 1]) * (F(M // rng.choice([1, 4])) + F(rng.randint(1, 63), 8)) * sx)
                    c = self._shape_case(rng, H, W, ctor, "far", geo=(sy, sx, oy, ox), centre=cen)
                    c["tag"] = "far_shape"
                    yield exactify(c)
            for i in range(8):  # pixel scale 2^j with the origin left where it was: origin tiny / huge in pixel units
                H, W = self._rshape(rng)
                sy, sx, oy, ox = self._scales_origin(rng, 0)
                jy, jx = (rng.randint(5, 20), rng.randint(5, 20)) if i % 2 else (-rng.randint(5, 12), -rng.randint(5, 12))
                geo = (sy * F(2) ** jy, sx * F(2) ** jx, oy, ox)
                if i % 4 < 2:
                    c = self._trim_points(rng, self._geom_case(rng, H, W, 0, "far", geo=geo), 24)
                else:
                    c = self._shape_case(rng, max(2, H), max(2, W), rng.choice(CTORS), "far", centre_nonzero=True, geo=geo)
                c["tag"] = "far_scale_only"
                yield exactify(c)

    # -- R5-C: equal-valued inputs in other memory layouts / dtypes / containers, structures built from structures
    def _layout_cases(self, tier, rng):
        reps = 1 if tier == "quick" else 4
        for _ in range(reps):
            for lay in MASK_LAYOUTS:
                for i in range(3):
                    H, W = self._rshape(rng, 1 if i == 2 else 2, 6)
                    c = self._grid_case(rng, H, W, "lay")
                    for _try in range(6):  # a mask whose memory order matters (row-major != column-major traversal)
                        b_ = np.array([ch == "1" for ch in c["mask"]["bits"]]).reshape(H, W)
                        if i == 2 or (b_.ravel(order="F") != b_.ravel()).any():
                            break
                        c["mask"] = mask_json(gen.random_mask(rng, H, W, kind="bernoulli")[0])
                    c["variant"].update({"mask_layout": lay, "mask_invert": rng.random() < 0.25})
                    if lay == "from_mask2d" and i == 0:  # built from a mask of another geometry, origin exactly (0, 0)
                        c["origin"] = ["0", "0"]
                        c["variant"].update({"origin_mode": rng.choice(["explicit", "int", "omit"])})
                    c["tag"] = f"lay_mask_{lay}"
                    yield c
            for os_ in ("u1", "u2", "iterate"):
                H, W = self._rshape(rng)
                c = self._grid_case(rng, H, W, "lay")
                c["variant"]["over_sampling"] = os_
                c["tag"] = "lay_over_sampling"
                yield c
            for lay in POINT_LAYOUTS:
                for i in range(2):
                    H, W = self._rshape(rng)
                    f32 = lay == "float32"
                    geo = None
                    if f32:  # values and every intermediate result exact in 24 bits: the same real numbers come out
                        geo = (F(2) ** rng.randint(-2, 1), F(2) ** rng.randint(-2, 1), gen.dyadic(rng, -4, 4, 3),
                               gen.dyadic(rng, -4, 4, 3))
                    c = self._trim_points(rng, self._geom_case(rng, H, W, 0, "lay", geo=geo, hug=not f32))
                    c["variant"].update({"points_layout": lay, "vals": "float64",
                                         "route": ("geometry", "util", "geometry_obj")[(i + rng.randrange(3)) % 3]})
                    if lay in ("native3d", "from_grid2d"):
                        c["variant"]["route"] = rng.choice(["geometry", "geometry_obj"])
                    if i == 1 and rng.random() < 0.5:  # one-element coordinate lists
                        c["points"], c["pixels"] = c["points"][:1], c["pixels"][:1]
                    c["tag"] = f"lay_points_{lay}"
                    yield c
            for sk_, shk in (("np64", "list"), ("np64", "tuple"), ("py", "npint"), ("np64", "npint"), ("py", "list")):
                H, W = self._rshape(rng)
                c = self._trim_points(rng, self._geom_case(rng, H, W, rng.randrange(3), "lay"))
                c["variant"].update({"scalar_kind": sk_, "shape_kind": shk, "scalar_scales": False,
                                     "mask_layout": rng.choice([None, "f", "strided", "from_mask2d"]),
                                     "mask_ctor": rng.choice(["all_false", "manual"])})
                c["tag"] = "lay_scalars"
                yield c
                c = self._grid_case(rng, H, W, "lay")
                c["variant"].update({"scalar_kind": sk_, "shape_kind": shk, "scalar_scales": False})
                c["tag"] = "lay_scalars"
                yield c
            for lay in ("strided", "readonly", "uint8", "float", None, None):
                n = rng.randint(1, 9)
                c = self._grid1d_case(rng, n, "".join(rng.choice("01") for _ in range(n)))
                c["variant"].update({"mask_layout": lay, "mask_invert": lay is None or rng.random() < 0.3,
                                     "mask_arg": "ndarray"})
                c["tag"] = "lay_mask1d"
                yield c
            for ctor in CTORS:
                for sk_, shk in (("np64", "tuple"), ("np0d", "npint"), ("np0d", "list")):
                    H, W = self._rshape(rng, 2, 7)
                    c = self._shape_case(rng, H, W, ctor, "lay", centre_nonzero=rng.random() < 0.7)
                    c["variant"].update({"scalar_kind": sk_, "shape_kind": shk, "scalar_scales": False})
                    c["tag"] = "lay_scalars"
                    yield c

    # -- R5-F: the options of the constructors (introspected), every non-default value of one crossed with every
    #    non-default value of another, "set but falsy" values included
    OPT_VALUES = {"origin": ("explicit0", "int0", "nonzero"), "centre": ("explicit0", "int0", "nonzero"),
                  "invert": (True, False), "over_sampling": ("u1", "u2"), "pixel_scales": ("scalar",)}
    CTOR_METHOD = {"circular": "circular", "annular": "circular_annular", "anti_annular": "circular_anti_annular",
                   "elliptical": "elliptical", "elliptical_annular": "elliptical_annular"}

    def _option_names(self, *fns):
        import inspect
        names = []
        for fn in fns:
            try:
                ps = inspect.signature(fn).parameters
            except (TypeError, ValueError):
                continue
            for n_ in ps:
                if n_ in self.OPT_VALUES and n_ not in names:
                    names.append(n_)
        return sorted(names)

    def _option_cases(self, tier, rng):
        import itertools
        aa = load_autoarray()
        reps = 1 if tier == "quick" else 3
        MODE = {"explicit0": "explicit", "int0": "int", "nonzero": "explicit"}
        targets = [("shape", ctor, self._option_names(getattr(aa.Mask2D, self.CTOR_METHOD[ctor]))) for ctor in CTORS]
        targets.append(("grid", None, self._option_names(aa.Mask2D.__init__, aa.Grid2D.uniform, aa.Grid2D.from_mask)))
        for _ in range(reps):
            for kind, ctor, names in targets:
                for n1, n2 in itertools.combinations(names, 2):
                    if kind == "grid" and "centre" in (n1, n2):
                        continue
                    for v1 in self.OPT_VALUES[n1]:
                        for v2 in self.OPT_VALUES[n2]:
                            o = {n1: v1, n2: v2}
                            H, W = self._rshape(rng, 2, 6)
                            sy, sx, oy, ox = self._scales_origin(rng, 0)
                            if o.get("origin") != "nonzero":
                                oy, ox = F(0), F(0)
                            elif o.get("origin") == "nonzero" and (oy == 0 or ox == 0):
                                oy, ox = oy + F(5, 8), ox - F(7, 8)
                            if o.get("pixel_scales") == "scalar":
                                sx = sy
                            if kind == "shape":
                                cen = None if o.get("centre") == "nonzero" else (F(0), F(0))
                                c = self._shape_case(rng, H, W, ctor, "opt", centre_nonzero=True, geo=(sy, sx, oy, ox),
                                                     centre=cen)
                            else:
                                c = self._grid_case(rng, H, W, "opt", geo=(sy, sx, oy, ox))
                            v = c["variant"]
                            v.update({"params": "float", "omit_defaults": False, "explicit_flags": False,
                                      "scalar_scales": o.get("pixel_scales") == "scalar",
                                      "origin_mode": MODE.get(o.get("origin"), "omit"),
                                      "centre_mode": MODE.get(o.get("centre"), "omit")})
                            if "invert" in o:
                                if o["invert"]:
                                    v["invert" if kind == "shape" else "mask_invert"] = True
                                else:
                                    v["explicit_flags"] = True
                            if "over_sampling" in o:
                                v["over_sampling"] = o["over_sampling"]
                            c["tag"] = "opt_" + n1 + "_x_" + n2
                            yield c

    # -- R5-E: always-on sizes beyond 2^15 / 2^16 elements (oracle-only, judged by the vectorised oracle)
    def _big_cases(self, tier, rng):
        def relabel(cs, keep=None):
            for c in cs:
                if keep is None or c["tag"] in keep:
                    c["tag"] = "big_" + c["tag"][len("large_"):]
                    yield c
        # a frame well beyond 2^16 pixels, so that a good part of the query points has a flattened index > 65535
        n_frame = rng.randint(72000, 88000)
        frame = [c for c in self._large_cases_for_size(n_frame, rng, True, per_axis=False)
                 if c["tag"] == "large_geom_frame"]
        if tier == "quick":
            n = (1 << 16) + rng.randint(1, 300)
            cs = list(self._large_cases_for_size(n, rng, True, per_axis=False))
            always = [c for c in cs if c["tag"] == "large_geom_points"]
            others = [c for c in cs if c["tag"] not in ("large_geom_frame", "large_geom_points")]
            yield from relabel(frame + always + rng.sample(others, 2))
        else:
            yield from relabel(frame)
            for n in ((1 << 15) + rng.randint(1, 300), (1 << 16) + rng.randint(1, 300)):
                yield from relabel(self._large_cases_for_size(n, rng, True, per_axis=False))
            yield from relabel(self._large_cases_for_size((1 << 17) + rng.randint(1, 300), rng, True, per_axis=False),
                               keep=("large_geom_frame", "large_geom_points", "large_grid_unmasked"))

    def _round56(self, tier, rng):
        yield from self._big_cases(tier, rng)
        yield from self._decade_cases(tier, rng)
        yield from self._near_cases(tier, rng)
        yield from self._far_cases(tier, rng)
        yield from self._layout_cases(tier, rng)
        yield from self._option_cases(tier, rng)

    def generate(self, tier, rng):
        side = 7 if tier == "quick" else 12
        shapes = [(h, w) for h in range(1, side + 1) for w in range(1, side + 1)]
        reps_geom = 3 if tier == "quick" else 6
        reps_shape = 4 if tier == "quick" else 12
        # the history stream has its own PRNG (derived from the run's, without consuming it) and is interleaved with
        # the ordinary families, so the escalation phase and the failing-input search reach it early
        hist = self._histories(tier, random.Random(int(hashlib.sha1(repr(rng.getstate()).encode()).hexdigest()[:16], 16)))
        n_hist = sum(n for _, n in self.HIST_FAMILIES) * (1 if tier == "quick" else 3)
        hist_per_shape = -(-n_hist // len(shapes))
        # round 5/6 streams: own PRNG as well, spread over the shapes (the rest follows at the end)
        r56 = self._round56(tier, random.Random(int(hashlib.sha1((repr(rng.getstate()) + "r56").encode()).hexdigest()[:16], 16)))
        r56_per_shape = 12 if tier == "quick" else 16
        for (H, W) in shapes:
            for _ in range(hist_per_shape):
                h = next(hist, None)
                if h is not None:
                    yield h
            for _ in range(r56_per_shape):
                c = next(r56, None)
                if c is not None:
                    yield c
            for k in range(reps_geom):
                yield self._geom_case(rng, H, W, k, "geom")
            yield self._geom_int_case(rng, H, W, "geom_int")
            yield self._boundary_case(rng, H, W)
            for _ in range(2 if tier == "quick" else 4):
                yield self._grid_case(rng, H, W, "grid")
            yield self._grid_case(rng, H, W, "grid", all_masked=True)
            for ctor in CTORS:
                for _ in range(reps_shape):
                    yield self._shape_case(rng, H, W, ctor, "shape")
        # 1-D: every mask up to n cells
        for n in range(1, 7 if tier == "quick" else 10):
            for bits in range(1 << n):
                yield self._grid1d_case(rng, n, "".join("1" if (bits >> i) & 1 else "0" for i in range(n)))
        # larger random frames
        for _ in range(20 if tier == "quick" else 120):
            H, W = rng.randint(8, 16), rng.randint(8, 16)
            yield self._geom_case(rng, H, W, rng.randrange(3), "geom_large")
            yield self._geom_int_case(rng, H, W, "geom_int_large")
            yield self._grid_case(rng, H, W, "grid_large")
            yield self._shape_case(rng, H, W, rng.choice(CTORS), "shape_large")
        yield from hist
        yield from r56

    # ------------------------------------------------------------------ implementation
    def run_impl(self, case):
        aa = load_autoarray()
        if case["kind"] == "history":
            obs = isolated_history(case)
            return obs if obs is not None else self._impl_history(aa, case)
        return self._impl_one(aa, case, None, {})

    def _impl_one(self, aa, case, ctx, opts):
        kind = case["kind"]
        if kind == "decade":  # the same world in other units: every scaled-unit input times 2^k
            return self._impl_one(aa, self._dec_scaled(case), ctx, opts)
        if kind == "geom":
            if case.get("large"):
                return self._impl_geom_large(aa, case)
            if case.get("single_band_point") and all(in_band(case, p) for p in case["points"]):
                raise Skip("query point on a pixel boundary (inside the 1e-9 tie band)")
            return self._impl_geom(aa, case, ctx, opts)
        if kind == "grid":
            return self._impl_grid(aa, case, ctx, opts)
        if kind == "grid1d":
            return self._impl_grid1d(aa, case, ctx, opts)
        return self._impl_shape(aa, case, ctx, opts)

    @staticmethod
    def _dec_factor(case) -> F:
        k = int(case["k"])
        return F(1 << k) if k >= 0 else F(1, 1 << -k)

    def _dec_scaled(self, case):
        """the ordinary case a decade case stands for: its base with every scaled-unit input times 2^k.  Values too
        large for an integer dtype are always passed as floats."""
        c = scale_case(case["base"], self._dec_factor(case))
        if case["k"]:
            v = dict(c.get("variant") or {})
            v["params"] = "float"
            if v.get("vals") in ("int64", "pyint"):
                v["vals"] = "float64" if v["vals"] == "int64" else "pylist"
            for key in ("origin_mode", "centre_mode"):
                if v.get(key) == "int":
                    v[key] = "explicit"
            c["variant"] = v
        return c

    # -- histories: the steps of one case run one after the other on REAL reused objects (`ctx`) ---------------
    def _impl_history(self, aa, case):
        ctx = {}
        out = []
        conf0 = self._conf_get()
        try:
            for st in case["steps"]:
                opts = st.get("opts") or {}
                self._owned = []
                if "conf" in opts:  # the configuration in force for this step: pinned values overlaid with the step's
                    self._conf_set({**conf0, **opts["conf"]})
                try:
                    for name in opts.get("faults", ()):
                        self._fault(aa, name, st["case"], ctx)
                    obs = self._impl_one(aa, st["case"], ctx, opts)
                except Skip:
                    raise
                except Exception as e:  # an unexpected exception of one step is that step's observation
                    obs = {"err": type(e).__name__, "msg": str(e)[:300]}
                if opts.get("scribble") == "all":
                    self._scribble_all(opts.get("scribble_style", "nan"))
                out.append(obs)
        finally:
            self._conf_set(conf0)  # also when a step raises
            self._owned = []
        return {"steps": out}

    @staticmethod
    def _conf_get():
        from autoconf import conf
        return {k: conf.instance[a][b][c] for k, (a, b, c) in CONF_KEYS.items()}

    @staticmethod
    def _conf_set(state):
        from autoconf import conf
        for k, val in state.items():
            a, b, c = CONF_KEYS[k]
            conf.instance[a][b][c] = val

    @staticmethod
    def _seq(ctx, opts, name, xs, kind):
        """container of a short sequence argument.  In a history step that reuses "containers" the caller-owned
        list handed to the library by the previous step is edited in place and handed over again."""
        xs = list(xs)
        if ctx is not None and kind == "list" and "containers" in (opts or {}).get("reuse", ()):
            c = ctx.get("c_" + name)
            if isinstance(c, list) and len(c) == len(xs):
                c[:] = xs
            else:
                c = ctx["c_" + name] = list(xs)
            return c
        return seq_of(xs, kind)

    @staticmethod
    def _ordered(default, opts):
        order = [k for k in (opts or {}).get("order", ()) if k in default]
        return order + [k for k in default if k not in order]

    @staticmethod
    def _scribble(raw):
        """caller edits a RETURNED array in place (through the public `__setitem__` of the library's types, or
        numpy for a plain ndarray): must never reach anything the library hands out later."""
        try:
            if isinstance(raw, np.ndarray):
                if raw.size:
                    raw[...] = ~raw if raw.dtype == bool else 12345.678
            elif hasattr(raw, "array"):
                a = np.asarray(raw.array)
                if a.size:
                    raw[0] = (not bool(a.ravel()[0])) if a.dtype == bool else 12345.678
                    raw[-1] = (not bool(a.ravel()[-1])) if a.dtype == bool else -98765.4321
        except Exception:
            pass

    def _read(self, opts, thunk, conv):
        raw = thunk()
        out = conv(raw)
        sc = (opts or {}).get("scribble")
        if sc == "all":
            self._owned.append(raw)
        elif sc:
            self._scribble(raw)
        return out

    # -- ownership histories (round 5/6, R5-B): every array the API returned or accepted in a step is collected and,
    #    when the step's observations have been taken, overwritten in place; the next step rebuilds the same world
    #    from fresh equal inputs and must see none of it
    _owned = []

    def _keep(self, opts, *objs):
        if (opts or {}).get("scribble") == "all":
            self._owned.extend(objs)

    def _kept(self, opts, obj):
        self._keep(opts, obj)
        return obj

    def _scribble_all(self, style):
        for o in self._owned:
            try:
                buf = o if isinstance(o, np.ndarray) else getattr(o, "array", None)
                if not isinstance(buf, np.ndarray) or buf.size == 0:
                    continue
                if style == "setitem" and not isinstance(o, np.ndarray):
                    # through the library's own __setitem__
                    o[...] = (~buf if buf.dtype == bool else buf + 1 if np.issubdtype(buf.dtype, np.integer)
                              else np.full(buf.shape, -31337.125))
                    continue
                if not buf.flags.writeable:
                    continue
                if buf.dtype == bool:
                    np.logical_not(buf, out=buf)
                elif np.issubdtype(buf.dtype, np.integer):
                    buf += 1
                elif style == "plus1":
                    buf += 1.0
                else:
                    buf[...] = np.nan
            except Exception:
                pass
        self._owned = []

    @staticmethod
    def _read_properties(obj, depth=1, skip=("hdu", "fits", "output", "header", "json", "dict")):
        """decoy reads: every public (cached) property of `obj` (and of the derive-helpers it returns)"""
        cls = type(obj)
        for n in dir(cls):
            if n.startswith("_") or any(s in n for s in skip):
                continue
            a = getattr(cls, n, None)
            if not (isinstance(a, property) or type(a).__name__ == "cached_property"):
                continue
            try:
                v = getattr(obj, n)
            except Exception:
                continue
            if depth > 0 and type(v).__name__.startswith(("Derive", "Geometry")):
                C02._read_properties(v, depth - 1, skip)

    @staticmethod
    def _edit_in_place(obj, old, new, style):
        """edit a library mask (`old`/`new`: lists of rows of bools, or flat lists for 1-D) through its public
        `__setitem__` until it holds `new`"""
        one_d = not isinstance(new[0], (list, tuple))
        if one_d:
            diffs = [(x,) for x in range(len(new)) if bool(old[x]) != bool(new[x])]
            val = lambda k: bool(new[k[0]])
        else:
            diffs = [(y, x) for y in range(len(new)) for x in range(len(new[0])) if bool(old[y][x]) != bool(new[y][x])]
            val = lambda k: bool(new[k[0]][k[1]])
        if not diffs:
            return
        if style == "row" and not one_d:
            for y in sorted({k[0] for k in diffs}):
                obj[y, :] = np.array([bool(b) for b in new[y]], dtype=bool)
        elif style == "boolkey" and len({val(k) for k in diffs}) == 1:
            key = np.zeros(np.asarray(new).shape, dtype=bool)
            for k in diffs:
                key[k] = True
            obj[key] = val(diffs[0])
        else:
            for k in diffs:
                obj[k if not one_d else k[0]] = val(k)

    def _fault(self, aa, name, case, ctx):
        """a call that raises part-way (bad input) on the same modules / objects the history keeps using"""
        from autoarray.geometry import geometry_util
        from autoarray.geometry.geometry_2d import Geometry2D
        from autoarray.structures.grids import grid_1d_util, grid_2d_util

        kind = case["kind"]
        try:
            if kind == "grid1d":
                n = len(case["bits"])
                s, o = fl(case["scale"]), fl(case["origin"])
                if name == "bad_scales_uniform":
                    aa.Grid1D.uniform(shape_native=(n,), pixel_scales=(None,), origin=(o,))
                elif name == "mask_bad_index" and ctx.get("m1") is not None:
                    ctx["m1"][n + 3] = False
                else:
                    grid_1d_util.grid_1d_slim_via_mask_from(mask_1d=np.zeros(n, dtype=bool), pixel_scales=(), origin=(o,))
                return
            H, W = case["shape"] if "shape" in case else (case["mask"]["h"], case["mask"]["w"])
            sc_t = tuple(fl(x) for x in case["scales"])
            org_t = tuple(fl(x) for x in case["origin"])
            cen_t = tuple(fl(x) for x in case.get("centre", ["0", "0"]))
            bad = np.array([[org_t[0], org_t[1]], [org_t[0] + sc_t[0] / 4, org_t[1] - sc_t[1] / 4],
                            [np.nan, np.nan], [org_t[0], org_t[1]]])
            if name == "nan_point":  # int(nan) raises after the first rows of the output were written
                geometry_util.grid_pixel_indexes_2d_slim_from(
                    grid_scaled_2d_slim=bad, shape_native=(H, W), pixel_scales=sc_t, origin=org_t)
            elif name == "nan_point_geom":
                g = ctx.get("g") or Geometry2D(shape_native=(H, W), pixel_scales=sc_t, origin=org_t)
                g.grid_pixel_centres_2d_from(
                    grid_scaled_2d=aa.Grid2D.no_mask(values=bad, shape_native=(1, 4), pixel_scales=1.0))
            elif name == "nan_scalar":
                g = ctx.get("g") or Geometry2D(shape_native=(H, W), pixel_scales=sc_t, origin=org_t)
                g.pixel_coordinates_2d_from((org_t[0], float("nan")))
            elif name == "bad_scales_uniform":
                aa.Grid2D.uniform(shape_native=(H, W), pixel_scales=(sc_t[0], None), origin=org_t)
            elif name == "short_scales_util":
                grid_2d_util.grid_2d_slim_via_mask_from(
                    mask_2d=np.full((H, W), False), pixel_scales=(sc_t[0],), origin=org_t)
            elif name == "radius_none":
                aa.Mask2D.circular(shape_native=(H, W), pixel_scales=sc_t, radius=None, centre=cen_t, origin=org_t)
            elif name == "angle_str":
                aa.Mask2D.elliptical(shape_native=(H, W), pixel_scales=sc_t, major_axis_radius=1.0, axis_ratio=0.5,
                                     angle="x", centre=cen_t, origin=org_t)
            elif name == "short_centre":
                aa.Mask2D.circular_annular(shape_native=(H, W), pixel_scales=sc_t, inner_radius=0.5,
                                           outer_radius=2.0, centre=(cen_t[0],), origin=org_t)
            elif name == "mask_bad_index" and ctx.get("mask") is not None:
                ctx["mask"][H + 3, 0] = False
            elif name == "readonly_edit" and ctx.get("qg_points") is not None:
                qg = ctx["qg_points"]
                a = np.asarray(qg.array)
                a.setflags(write=False)
                try:
                    qg[0] = [0.0, 0.0]
                finally:
                    a.setflags(write=True)
        except Exception:
            pass

    def _geometry_args(self, case, ctx=None, opts=None):
        """(variant, pixel_scales, tuple_scales, origin_kwargs) as the case's variant prescribes"""
        v = case.get("variant", {})
        pm, sq = v.get("params", "float"), v.get("seq", "tuple")
        ske = "np64" if v.get("scalar_kind") in ("np64", "np0d") else "py"  # elements of tuples: never 0-d arrays
        sy, sx = (F(x) for x in case["scales"])
        sc_t = tuple(num(x, pm) for x in case["scales"])
        sc = float(sy) if (v.get("scalar_scales") and sy == sx) else \
            self._seq(ctx, opts, "scales", [self._sk(x, ske) for x in sc_t], sq)
        zero = all(F(x) == 0 for x in case["origin"])
        om = v.get("origin_mode", "auto")  # round 5/6 (options crossed pairwise): how a default-valued option is given
        opm = "int" if om == "int" else "float" if om == "explicit" else pm
        org = self._seq(ctx, opts, "origin", [self._sk(num(x, opm), ske) for x in case["origin"]], sq)
        omit = zero and (om == "omit" or (om == "auto" and v.get("omit_defaults")))
        okw = {} if omit else {"origin": org}
        return v, sc, sc_t, okw

    @staticmethod
    def _sk(x, kind):
        """scalar argument as a Python number | numpy scalar | 0-d array (equal value)"""
        if kind == "np64":
            return np.float64(x) if isinstance(x, float) else np.int64(x)
        if kind == "np0d":
            return np.array(x)
        return x

    @staticmethod
    def _shape_arg(H, W, kind):
        if kind == "list":
            return [H, W]
        if kind == "npint":
            return (np.int64(H), np.int64(W))
        return (H, W)

    @staticmethod
    def _over_sampling(aa, v):
        o = v.get("over_sampling")
        if o == "u1":
            return {"over_sampling": aa.OverSamplingUniform(sub_size=1)}
        if o == "u2":
            return {"over_sampling": aa.OverSamplingUniform(sub_size=2)}
        if o == "iterate":
            return {"over_sampling": aa.OverSamplingIterate()}
        return {}

    def _mask2d(self, aa, bits2d, v, sc, okw):
        """Mask2D of the given bits through the variant's container / layout / dtype / invert option"""
        lay = v.get("mask_layout")
        # `invert=True` is only combined with boolean-typed input (the library applies np.invert to the array as
        # given: on a 0/1 integer array that is the bitwise complement -- outside what C02 speaks about)
        inv = bool(v.get("mask_invert")) and lay not in ("uint8", "int_f", "float") and \
            (bool(lay) or v.get("mask_arg", "ndarray") in ("ndarray", "list"))
        b = np.array(bits2d, dtype=bool)
        if inv:
            b = ~b
        ikw = {"invert": True} if inv else ({"invert": False} if v.get("explicit_flags") else {})
        if lay == "from_mask2d":  # a structure built from another structure (of ANOTHER geometry)
            inner = aa.Mask2D(mask=b, pixel_scales=(7.0, 0.375), origin=(-3.5, 11.25))
            return aa.Mask2D(mask=inner, pixel_scales=sc, **okw, **ikw)
        if lay:
            return aa.Mask2D(mask=lay_mask(b, lay), pixel_scales=sc, **okw, **ikw)
        return aa.Mask2D(mask=mask_arg(b.tolist(), v.get("mask_arg", "ndarray")), pixel_scales=sc, **okw, **ikw)

    def _impl_geom(self, aa, case, ctx=None, opts=None):
        from autoarray.geometry import geometry_util
        from autoarray.geometry.geometry_2d import Geometry2D

        opts = opts or {}
        reuse = opts.get("reuse", ()) if ctx is not None else ()
        H, W = case["shape"]
        v, sc, sc_t, okw = self._geometry_args(case, ctx, opts)
        org_t = tuple(okw["origin"]) if okw else (0.0, 0.0)
        route = v.get("route", "geometry")
        gkey = ("geom", H, W, tuple(case["scales"]), tuple(case["origin"]), route, v.get("mask_ctor", "all_false"))
        if "geometry" in reuse and ctx.get("g_key") == gkey:
            mask, g = ctx["gmask"], ctx["g"]
        else:
            shp = self._shape_arg(H, W, v["shape_kind"]) if v.get("shape_kind") else \
                self._seq(ctx, opts, "shape", (H, W), v.get("seq", "tuple"))
            if v.get("mask_ctor", "all_false") == "all_false":
                mask = aa.Mask2D.all_false(shape_native=shp, pixel_scales=sc, **okw,
                                           **({"invert": False} if v.get("explicit_flags") else {}))
            else:
                mask = self._mask2d(aa, [[False] * W for _ in range(H)], v, sc, okw)
            g = Geometry2D(shape_native=shp, pixel_scales=sc, **okw) if route == "geometry_obj" else mask.geometry
            if ctx is not None:
                ctx.update({"g_key": gkey, "gmask": mask, "g": g})
        vals, pseq = v.get("vals", "pylist"), v.get("point_seq", "tuple")
        pm = "int" if vals in ("int64", "pyint") else "float"
        pts = [seq_of([num(a, pm), num(b, pm)], pseq) for a, b in case["points"]]
        pix = [seq_of([num(a, pm), num(b, pm)], pseq) for a, b in case["pixels"]]
        ukw = dict(shape_native=(H, W), pixel_scales=sc_t, origin=org_t)

        play = v.get("points_layout")

        def qgrid(pairs, slot):
            a = lay_points(arr_of(pairs, vals), play)
            if play == "native3d" and isinstance(a, np.ndarray) and a.ndim == 2 and len(a):
                a = a.reshape(1, len(a), 2)  # the query grid handed over in its native (1, N, 2) form
            self._keep(opts, a)
            old = ctx.get("qg_" + slot) if ctx is not None else None
            if ("qgrid" in reuse and old is not None and isinstance(a, np.ndarray) and a.dtype == np.float64
                    and np.asarray(old.array).dtype == np.float64 and len(old) == len(a)):
                # the caller's query grid of the previous step, edited in place through Grid2D.__setitem__
                for k in range(len(a)):
                    if tuple(np.asarray(old.array)[k]) != tuple(a[k]):
                        old[k] = [float(a[k][0]), float(a[k][1])]
                return old
            if v.get("grid_ctor", "no_mask") == "no_mask":
                qg = aa.Grid2D.no_mask(values=a, shape_native=(1, len(pairs)), pixel_scales=1.0)
            else:
                qg = aa.Grid2D(values=a, mask=aa.Mask2D.all_false(shape_native=(1, len(pairs)), pixel_scales=1.0))
            if play == "from_grid2d":  # a structure built from another structure (what `Grid2D.slim` does)
                qg = aa.Grid2D(values=qg, mask=qg.mask)
            if ctx is not None:
                ctx["qg_" + slot] = qg
            self._keep(opts, qg)
            return qg

        if opts.get("decoy"):
            self._read_properties(mask)
            self._read_properties(g)
        self._keep(opts, mask)
        obs = {}
        arr = lambda o: np.asarray(o.array if hasattr(o, "array") else o)

        def g_scalars():
            obs.update({
                "central_pixel": qlist(g.central_pixel_coordinates),
                "central_scaled": qlist(g.central_scaled_coordinates),
                "minima": qlist(g.scaled_minima), "maxima": qlist(g.scaled_maxima),
                "shape_scaled": qlist(g.shape_native_scaled),
                "extent": qlist(g.extent)})

        def g_grid():
            obs["grid"] = self._read(opts, lambda: aa.Grid2D.from_mask(mask=mask, **self._over_sampling(aa, v)),
                                     lambda o: pairs_q(arr(o)))

        def g_centre_roundtrip():
            obs["centre_roundtrip"] = [
                [int(x) for x in g.pixel_coordinates_2d_from(g.scaled_coordinates_2d_from((i, j)))]
                for i in range(H) for j in range(W)]

        def g_empty():  # empty coordinate lists through the util routines
            e = np.zeros((0, 2))
            obs["empty"] = [len(geometry_util.grid_pixels_2d_slim_from(grid_scaled_2d_slim=e, **ukw)),
                            len(geometry_util.grid_pixel_centres_2d_slim_from(grid_scaled_2d_slim=e, **ukw)),
                            len(geometry_util.grid_pixel_indexes_2d_slim_from(grid_scaled_2d_slim=e, **ukw)),
                            len(geometry_util.grid_scaled_2d_slim_from(grid_pixels_2d_slim=e, **ukw))]

        def g_points():
            if not pts:
                return
            obs["pix_a"] = [[int(x) for x in g.pixel_coordinates_2d_from(p)] for p in pts]
            obs["snap"] = [qlist(g.scaled_coordinate_2d_to_scaled_at_pixel_centre_from(p)) for p in pts]
            rd = lambda th, conv: self._read(opts, th, conv)
            c_cen = lambda o: [[int(a_), int(b_)] for a_, b_ in arr(o).reshape(-1, 2)]
            c_idx = lambda o: [int(x) for x in arr(o).ravel()]
            c_pq = lambda o: pairs_q(arr(o))
            if route == "util":
                a = lay_points(np.asarray(arr_of(case["points"], vals)), play)
                obs["centres"] = rd(lambda: geometry_util.grid_pixel_centres_2d_slim_from(grid_scaled_2d_slim=a, **ukw), c_cen)
                obs["indexes"] = rd(lambda: geometry_util.grid_pixel_indexes_2d_slim_from(grid_scaled_2d_slim=a, **ukw), c_idx)
                cont = geometry_util.grid_pixels_2d_slim_from(grid_scaled_2d_slim=a, **ukw)
                self._keep(opts, a, cont)
                obs["pixels"] = c_pq(cont)
                obs["roundtrip"] = rd(lambda: geometry_util.grid_scaled_2d_slim_from(grid_pixels_2d_slim=cont, **ukw), c_pq)
            else:
                qg = qgrid(case["points"], "points")
                if opts.get("decoy"):
                    self._read_properties(qg, depth=0)
                obs["centres"] = rd(lambda: g.grid_pixel_centres_2d_from(grid_scaled_2d=qg), c_cen)
                obs["indexes"] = rd(lambda: g.grid_pixel_indexes_2d_from(grid_scaled_2d=qg), c_idx)
                contg = g.grid_pixels_2d_from(grid_scaled_2d=qg)
                self._keep(opts, contg)
                obs["pixels"] = c_pq(contg)
                obs["roundtrip"] = rd(lambda: g.grid_scaled_2d_from(grid_pixels_2d=contg), c_pq)

        def g_pixels():
            if not pix:
                return
            obs["scaled"] = [qlist(g.scaled_coordinates_2d_from(p)) for p in pix]
            if route == "util":
                a = lay_points(np.asarray(arr_of(case["pixels"], vals)), play)
                gs = geometry_util.grid_scaled_2d_slim_from(grid_pixels_2d_slim=a, **ukw)
                rt = geometry_util.grid_pixels_2d_slim_from(grid_scaled_2d_slim=gs, **ukw)
                self._keep(opts, a, gs, rt)
            else:
                gsg = g.grid_scaled_2d_from(grid_pixels_2d=qgrid(case["pixels"], "pixels"))
                gs = gsg.array
                rtg = g.grid_pixels_2d_from(grid_scaled_2d=gsg)
                rt = rtg.array
                self._keep(opts, gsg, rtg)
            obs["grid_scaled"] = pairs_q(gs)
            obs["roundtrip_p"] = pairs_q(rt)

        groups = {"scalars": g_scalars, "grid": g_grid, "centre_roundtrip": g_centre_roundtrip, "empty": g_empty,
                  "points": g_points, "pixels": g_pixels}
        for name in self._ordered(GEOM_GROUPS, opts):
            groups[name]()
        return obs

    def _impl_grid(self, aa, case, ctx=None, opts=None):
        from autoarray.structures.grids import grid_2d_util

        opts = opts or {}
        reuse = opts.get("reuse", ()) if ctx is not None else ()
        large = bool(case.get("large"))
        if large:
            m_np = large_mask(case["mask_gen"])
            H, W = m_np.shape
            bits2d = m_np if case.get("variant", {}).get("mask_arg", "ndarray") == "ndarray" else m_np.tolist()
        else:
            mj = case["mask"]
            H, W = mj["h"], mj["w"]
            bits2d = [[mj["bits"][y * W + x] == "1" for x in range(W)] for y in range(H)]
            m_np = np.array(bits2d, dtype=bool)
        v, sc, sc_t, okw = self._geometry_args(case, ctx, opts)
        org_t = tuple(okw["origin"]) if okw else (0.0, 0.0)
        mkey = ("grid", H, W, tuple(case["scales"]), tuple(case["origin"]))
        if "mask" in reuse and ctx.get("mask_key") == mkey and not large:
            mask = ctx["mask"]  # the SAME Mask2D object, edited in place to this step's bits
            self._edit_in_place(mask, ctx["mask_bits"], bits2d, opts.get("edit_style", "pixel"))
        elif opts.get("via_all_false") and not m_np.any():
            mask = aa.Mask2D.all_false(shape_native=(H, W), pixel_scales=sc, **okw)
        elif large:
            mask = aa.Mask2D(mask=mask_arg(bits2d, v.get("mask_arg", "ndarray")), pixel_scales=sc, **okw)
        else:
            mask = self._mask2d(aa, bits2d, v, sc, okw)
        if ctx is not None:
            ctx.update({"mask_key": mkey, "mask": mask, "mask_bits": bits2d})
        if opts.get("decoy"):
            self._read_properties(mask)
        self._keep(opts, mask)
        osk = self._over_sampling(aa, v)
        ulay = v.get("mask_layout") if v.get("mask_layout") != "from_mask2d" else None
        shp = self._shape_arg(H, W, v["shape_kind"]) if v.get("shape_kind") else None
        P = (lambda o: NPArr(np.asarray(o.array if hasattr(o, "array") else o, dtype=float).reshape(-1, 2))) \
            if large else (lambda o: pairs_q(np.asarray(o.array if hasattr(o, "array") else o)))
        thunks = {
            "from_mask": lambda: aa.Grid2D.from_mask(mask=mask, **osk),
            "unmasked": lambda: mask.derive_grid.unmasked,
            "all_false": lambda: mask.derive_grid.all_false,
            "uniform": lambda: aa.Grid2D.uniform(
                shape_native=shp if shp is not None else self._seq(ctx, opts, "shape", (H, W), v.get("seq", "tuple")),
                pixel_scales=sc, **okw, **osk),
            "util": lambda: grid_2d_util.grid_2d_slim_via_mask_from(
                mask_2d=self._kept(opts, lay_mask(m_np, ulay) if ulay else np.array(m_np, dtype=bool)),
                pixel_scales=sc_t, origin=org_t),
        }
        obs = {}
        for name in self._ordered(GRID_OBS, opts):
            obs[name] = self._read(opts, thunks[name], P)
        return obs

    def _impl_grid1d(self, aa, case, ctx=None, opts=None):
        from autoarray.geometry import geometry_util

        opts = opts or {}
        reuse = opts.get("reuse", ()) if ctx is not None else ()
        large = bool(case.get("large"))
        bits = "".join("1" if b else "0" for b in large_mask({**case["bits_gen"], "h": 1, "w": case["bits_gen"]["n"]})[0]) \
            if large else case["bits"]
        n = len(bits)
        v = case.get("variant", {})
        pm, pseq = v.get("params", "float"), v.get("point_seq", "tuple")
        s, o = num(case["scale"], pm), num(case["origin"], pm)
        marg = v.get("mask_arg", "ndarray")
        mb = [c == "1" for c in bits]
        m = mb if marg == "list" else [int(b) for b in mb] if marg == "int_list" else np.array(mb, dtype=bool)
        inv = bool(v.get("mask_invert")) and v.get("mask_layout") not in ("uint8", "float")
        if v.get("mask_layout") in ("strided", "readonly", "uint8", "float") or inv:
            m = lay_mask(~np.array(mb, dtype=bool) if inv else mb, v.get("mask_layout"))
        ikw = {"invert": True} if inv else {}
        okw = {} if (v.get("omit_defaults") and F(case["origin"]) == 0) else {"origin": (o,)}
        sc = float(F(case["scale"])) if v.get("scalar_scales") else (s,)
        mkey = ("grid1d", n, case["scale"], case["origin"])
        if "mask" in reuse and ctx.get("m1_key") == mkey:
            m1 = ctx["m1"]
            self._edit_in_place(m1, ctx["m1_bits"], mb, opts.get("edit_style", "pixel"))
        else:
            m1 = aa.Mask1D(mask=m, pixel_scales=sc, **okw, **ikw)
        if ctx is not None:
            ctx.update({"m1_key": mkey, "m1": m1, "m1_bits": mb})
        if opts.get("decoy"):
            self._read_properties(m1)
        self._keep(opts, m1, m)
        ipm = "int" if v.get("vals") in ("int64", "pyint") else "float"
        L = (lambda o_: NPArr(np.asarray(o_.array if hasattr(o_, "array") else o_, dtype=float).ravel())) if large \
            else (lambda o_: qlist(np.asarray(o_.array if hasattr(o_, "array") else o_)))
        points = large_points_1d(case)[0] if large else case["points"]
        pixels = large_points_1d(case)[1] if large else case["pixels"]
        thunks = {
            "extent": lambda: qlist(m1.geometry.extent),
            "uniform": lambda: self._read(opts, lambda: aa.Grid1D.uniform(shape_native=(n,), pixel_scales=sc, **okw), L),
            "pix": lambda: [int(geometry_util.pixel_coordinates_1d_from(
                scaled_coordinates_1d=seq_of([num(p, ipm)], pseq), shape_slim=(n,), pixel_scales=(s,),
                origins=(o,))[0]) for p in points],
            "scaled": lambda: qlist([geometry_util.scaled_coordinates_1d_from(
                pixel_coordinates_1d=seq_of([num(p, ipm)], pseq), shape_slim=(n,), pixel_scales=(s,),
                origins=(o,))[0] for p in pixels]),
            "grid": lambda: self._read(opts, lambda: aa.Grid1D.from_mask(mask=m1), L),
        }
        obs = {}
        for name in self._ordered(GRID1D_OBS, opts):
            obs[name] = thunks[name]()
        return obs

    def _impl_shape(self, aa, case, ctx=None, opts=None):
        from autoarray.mask import mask_2d_util

        opts = opts or {}
        H, W = case["shape"]
        v, sc, sc_t, okw = self._geometry_args(case, ctx, opts)
        pm, sq = v.get("params", "float"), v.get("seq", "tuple")
        sk = v.get("scalar_kind", "py")
        ske = "np64" if sk in ("np64", "np0d") else "py"
        cen_t = tuple(num(x, pm) for x in case["centre"])
        shp = self._shape_arg(H, W, v["shape_kind"]) if v.get("shape_kind") else \
            self._seq(ctx, opts, "shape", (H, W), sq)
        kw = dict(shape_native=shp, pixel_scales=sc, **okw)
        cm = v.get("centre_mode", "auto")
        czero = all(F(x) == 0 for x in case["centre"])
        if not (czero and (cm == "omit" or (cm == "auto" and v.get("omit_defaults")))):
            cpm = "int" if cm == "int" else "float" if cm == "explicit" else pm
            kw["centre"] = self._seq(ctx, opts, "centre", [self._sk(num(x, cpm), ske) for x in case["centre"]], sq)
        inverted = bool(v.get("invert"))
        if inverted:
            kw["invert"] = True  # documented: the bools of the mask are inverted; complemented back below
        elif v.get("explicit_flags"):
            kw["invert"] = False
        ukw = dict(shape_native=(H, W), pixel_scales=sc_t, centre=cen_t)
        ctor = case["ctor"]
        g = lambda k: self._sk(num(case[k], pm), sk)
        if ctor == "circular":
            fm = lambda: aa.Mask2D.circular(radius=g("radius"), **kw)
            fu = lambda: mask_2d_util.mask_2d_circular_from(radius=g("radius"), **ukw)
        elif ctor == "annular":
            fm = lambda: aa.Mask2D.circular_annular(inner_radius=g("inner"), outer_radius=g("outer"), **kw)
            fu = lambda: mask_2d_util.mask_2d_circular_annular_from(
                inner_radius=g("inner"), outer_radius=g("outer"), **ukw)
        elif ctor == "anti_annular":
            fm = lambda: aa.Mask2D.circular_anti_annular(inner_radius=g("inner"), outer_radius=g("outer"),
                                                         outer_radius_2=g("outer2"), **kw)
            fu = lambda: mask_2d_util.mask_2d_circular_anti_annular_from(
                inner_radius=g("inner"), outer_radius=g("outer"), outer_radius_2_scaled=g("outer2"), **ukw)
        elif ctor == "elliptical":
            fm = lambda: aa.Mask2D.elliptical(major_axis_radius=g("major"), axis_ratio=g("axis_ratio"),
                                              angle=g("angle"), **kw)
            fu = lambda: mask_2d_util.mask_2d_elliptical_from(
                major_axis_radius=g("major"), axis_ratio=g("axis_ratio"), angle=g("angle"), **ukw)
        else:
            ek = dict(inner_major_axis_radius=g("inner_major"), inner_axis_ratio=g("inner_axis_ratio"),
                      inner_phi=g("inner_phi"), outer_major_axis_radius=g("outer_major"),
                      outer_axis_ratio=g("outer_axis_ratio"), outer_phi=g("outer_phi"))
            fm = lambda: aa.Mask2D.elliptical_annular(**ek, **kw)
            fu = lambda: mask_2d_util.mask_2d_elliptical_annular_from(**ek, **ukw)
        if opts.get("decoy"):  # a sibling constructor on the same frame first, and everything derived from its result
            try:
                d = aa.Mask2D.circular(shape_native=(H, W), pixel_scales=sc_t, radius=1.0, centre=cen_t) \
                    if ctor != "circular" else \
                    aa.Mask2D.elliptical(shape_native=(H, W), pixel_scales=sc_t, major_axis_radius=1.5,
                                         axis_ratio=0.5, angle=30.0, centre=cen_t)
                self._read_properties(d)
            except Exception:
                pass
        obs = {}
        for name in self._ordered(SHAPE_OBS, opts):
            if name == "util_mask":
                if v.get("skip_util"):
                    continue
                obs["util_mask"] = self._read(opts, fu, lambda u: mask_json(np.asarray(u, dtype=bool)))
            else:
                m = fm()
                mb_ = np.asarray(m, dtype=bool)
                obs["mask"] = mask_json(~mb_ if inverted else mb_)
                obs["origin"], obs["scales"] = qlist(m.origin), qlist(m.pixel_scales)
                if opts.get("scribble") == "all":
                    self._keep(opts, m)
                elif opts.get("scribble"):
                    self._scribble(m)
        return obs

    # -- large (oracle-only) geometry cases -------------------------------------------------------------------
    def _impl_geom_large(self, aa, case):
        from autoarray.geometry import geometry_util
        from autoarray.geometry.geometry_2d import Geometry2D

        H, W = case["shape"]
        v, sc, sc_t, okw = self._geometry_args(case)
        org_t = tuple(okw["origin"]) if okw else (0.0, 0.0)
        if v.get("mask_ctor", "all_false") == "all_false":
            mask = aa.Mask2D.all_false(shape_native=seq_of((H, W), v.get("seq", "tuple")), pixel_scales=sc, **okw)
        else:
            mask = aa.Mask2D(mask=np.zeros((H, W), dtype=bool), pixel_scales=sc, **okw)
        route = v.get("route", "geometry")
        g = Geometry2D(shape_native=(H, W), pixel_scales=sc, **okw) if route == "geometry_obj" else mask.geometry
        ukw = dict(shape_native=(H, W), pixel_scales=sc_t, origin=org_t)
        obs = {
            "central_pixel": qlist(g.central_pixel_coordinates),
            "central_scaled": qlist(g.central_scaled_coordinates),
            "minima": qlist(g.scaled_minima), "maxima": qlist(g.scaled_maxima),
            "shape_scaled": qlist(g.shape_native_scaled),
            "extent": qlist(g.extent),
        }
        if case.get("frame_grid", True):
            obs["grid"] = NPArr(np.asarray(aa.Grid2D.from_mask(mask=mask).array, dtype=float).reshape(-1, 2))
            ks = self._large_rt_pixels(case)
            obs["centre_roundtrip"] = NPArr(np.array(
                [[int(x) for x in g.pixel_coordinates_2d_from(g.scaled_coordinates_2d_from((int(k) // W, int(k) % W)))]
                 for k in ks], dtype=np.int64).reshape(-1, 2))
        pts, mode = large_points(case)
        vals = v.get("vals", "float64")
        if mode == "int" and vals in ("int64", "pyint"):
            a = pts.astype(np.int64) if vals == "int64" else [[int(y), int(x)] for y, x in pts]
        else:
            a = pts.tolist() if vals in ("pylist", "pyint") else pts.copy()

        def qgrid(values, n):
            if v.get("grid_ctor", "no_mask") == "no_mask":
                return aa.Grid2D.no_mask(values=values, shape_native=(1, n), pixel_scales=1.0)
            return aa.Grid2D(values=values, mask=aa.Mask2D.all_false(shape_native=(1, n), pixel_scales=1.0))

        if len(pts):
            if route == "util":
                an = np.asarray(a)
                cen = geometry_util.grid_pixel_centres_2d_slim_from(grid_scaled_2d_slim=an, **ukw)
                idx = geometry_util.grid_pixel_indexes_2d_slim_from(grid_scaled_2d_slim=an, **ukw)
                cont = geometry_util.grid_pixels_2d_slim_from(grid_scaled_2d_slim=an, **ukw)
                back = geometry_util.grid_scaled_2d_slim_from(grid_pixels_2d_slim=cont, **ukw)
            else:
                qg = qgrid(a, len(pts))
                cen = g.grid_pixel_centres_2d_from(grid_scaled_2d=qg).array
                idx = g.grid_pixel_indexes_2d_from(grid_scaled_2d=qg).array
                contg = g.grid_pixels_2d_from(grid_scaled_2d=qg)
                cont = contg.array
                back = g.grid_scaled_2d_from(grid_pixels_2d=contg).array
            obs["centres"] = NPArr(np.asarray(cen).reshape(-1, 2))
            obs["indexes"] = NPArr(np.asarray(idx).ravel())
            obs["pixels"] = NPArr(np.asarray(cont, dtype=float).reshape(-1, 2))
            obs["roundtrip"] = NPArr(np.asarray(back, dtype=float).reshape(-1, 2))
            k = min(32, len(pts))
            sp = [(int(y), int(x)) if (mode == "int" and vals in ("int64", "pyint")) else (float(y), float(x))
                  for y, x in pts[:k]]
            obs["pix_a"] = [[int(x) for x in g.pixel_coordinates_2d_from(p)] for p in sp]
            obs["snap"] = [[float(x) for x in g.scaled_coordinate_2d_to_scaled_at_pixel_centre_from(p)] for p in sp]
        pix = large_pixels(case)
        if len(pix):
            pa = pix.tolist() if vals in ("pylist", "pyint") else pix.copy()
            if route == "util":
                gs = geometry_util.grid_scaled_2d_slim_from(grid_pixels_2d_slim=np.asarray(pa), **ukw)
                rt = geometry_util.grid_pixels_2d_slim_from(grid_scaled_2d_slim=gs, **ukw)
            else:
                gsg = g.grid_scaled_2d_from(grid_pixels_2d=qgrid(pa, len(pix)))
                gs = gsg.array
                rt = g.grid_pixels_2d_from(grid_scaled_2d=gsg).array
            obs["grid_scaled"] = NPArr(np.asarray(gs, dtype=float).reshape(-1, 2))
            obs["roundtrip_p"] = NPArr(np.asarray(rt, dtype=float).reshape(-1, 2))
            k = min(32, len(pix))
            obs["scaled"] = [[float(x) for x in g.scaled_coordinates_2d_from((float(y), float(x_)))]
                             for y, x_ in pix[:k]]
        return obs

    @staticmethod
    def _large_rt_pixels(case):
        """flattened indices of the pixels whose centre -> index round trip a large geometry case observes: all of
        them up to 40000 pixels, else the four corners plus a seeded sample of 20000"""
        H, W = case["shape"]
        n = H * W
        if n <= 40000:
            return np.arange(n)
        rs = _rs(case["points_gen"]["seed"] + 7)
        return np.unique(np.concatenate([[0, W - 1, n - W, n - 1], rs.randint(0, n, 20000)]))

    # ------------------------------------------------------------------ model
    def model_requests(self, case, impl_obs):
        kind = case["kind"]
        if kind == "history":  # every step is compared with the model of a FRESH object in that step's state
            return [r for st in case["steps"] for r in self.model_requests(st["case"], None)]
        if kind == "decade":  # the model is run on the SCALED world (exact rationals)
            return self.model_requests(self._dec_scaled(case), None)
        if case.get("large"):
            return []  # oracle-only: the vectorised oracle judges the implementation's output directly
        if kind == "geom":
            base = {"shape": case["shape"], "scales": case["scales"], "origin": case["origin"]}
            return [
                {"op": "c02.geometry", **base},
                {"op": "c02.grid_via_shape", **base},
                {"op": "c02.centre_roundtrip", **base},
                {"op": "c02.pixel_of_scaled", **base, "points": case["points"]},
                {"op": "c02.scaled_of_pixel", **base, "pixels": case["pixels"]},
            ]
        if kind == "grid":
            mj = case["mask"]
            return [
                {"op": "c02.grid_via_mask", "mask": mj, "scales": case["scales"], "origin": case["origin"]},
                {"op": "c02.grid_via_shape", "shape": [mj["h"], mj["w"]], "scales": case["scales"],
                 "origin": case["origin"]},
            ]
        if kind == "grid1d":
            return [{"op": "c02.grid1d", "bits": case["bits"], "scale": case["scale"],
                     "origin": case["origin"], "points": case["points"], "pixels": case["pixels"]}]
        req = {k: v for k, v in case.items() if k not in ("tag", "kind", "ctor", "origin", "corpus_file")}
        req.update({"op": "c02.mask_shape", "kind": case["ctor"]})
        return [req]

    def model_obs(self, case, responses):
        if case["kind"] == "history":
            out, k = [], 0
            for st in case["steps"]:
                n = len(self.model_requests(st["case"], None))
                out.append(self.model_obs(st["case"], responses[k:k + n]))
                k += n
            return {"steps": out}
        if case["kind"] == "decade":
            return self.model_obs(self._dec_scaled(case), responses)
        for r in responses:
            if "err" in r:
                return {"err": r["err"]}
        kind = case["kind"]
        R = [r["ok"] for r in responses]
        if kind == "geom":
            obs = dict(R[0])
            obs["grid"] = R[1]
            obs["centre_roundtrip"] = R[2]
            obs["empty"] = [0, 0, 0, 0]
            if case["points"]:
                obs.update({k: R[3][k] for k in ("pix_a", "centres", "indexes", "pixels", "roundtrip", "snap")})
            if case["pixels"]:
                obs.update({"scaled": R[4]["scaled"], "grid_scaled": R[4]["grid_scaled"],
                            "roundtrip_p": R[4]["roundtrip"]})
            return obs
        if kind == "grid":
            return {"from_mask": R[0], "unmasked": R[0], "util": R[0], "all_false": R[1], "uniform": R[1]}
        if kind == "grid1d":
            return R[0]
        return {"mask": R[0]["mask"], "origin": case["origin"], "scales": case["scales"],
                "_quantities": R[0]["quantities"]}

    @staticmethod
    def _leaves(x):
        if isinstance(x, (list, tuple)):
            return sum(C02._leaves(y) for y in x)
        if isinstance(x, dict):
            return sum(C02._leaves(y) for y in x.values())
        return 1

    def _diff(self, cmp, io, mo):
        """`cmp.diff(io, mo)` for two observation dicts, with a fast path: an entry whose two sides are identical
        (same exact "p/q" strings throughout -- the usual case) is counted as exact leaf by leaf without parsing it"""
        if not (isinstance(io, dict) and isinstance(mo, dict)) or set(io) != set(mo):
            return cmp.diff(io, mo)
        for k in sorted(io):
            a, b = io[k], mo[k]
            if isinstance(a, list) and a == b:
                cmp.exact += self._leaves(a)
                continue
            d = cmp.diff(a, b, f"$.{k}")
            if d:
                return d
        return None

    def compare(self, case, impl_obs, model_obs, cmp):
        if "err" in impl_obs or "err" in model_obs:
            return cmp.diff(impl_obs, model_obs)
        kind = case["kind"]
        if kind == "history":
            for k, st in enumerate(case["steps"]):
                d = self.compare(st["case"], impl_obs["steps"][k], model_obs["steps"][k], cmp)
                if d:
                    return f"history step {k + 1}/{len(case['steps'])}: {d}"
            return None
        if kind == "decade":
            # both observations are brought back to the units of the base case by exact rational division: the
            # tolerance (1e-9, floor 1) and the tie bands are then relative to the magnitude of the scaled world
            base, f = case["base"], self._dec_factor(case)
            d = self.compare(base, unscale_obs(base["kind"], impl_obs, f), unscale_obs(base["kind"], model_obs, f), cmp)
            return f"world scaled by 2^{case['k']} (shown in base units): {d}" if d and case["k"] else d
        if kind == "geom":
            mo = {k: v for k, v in model_obs.items() if not k.startswith("_")}
            io = dict(impl_obs)
            if case["points"]:
                flags = [in_band(case, p) for p in case["points"]]
                for key in ("pix_a", "centres", "indexes", "snap"):
                    io[key] = [None if f else v for f, v in zip(flags, io[key])]
                    mo[key] = [None if f else v for f, v in zip(flags, mo[key])]
            return self._diff(cmp, io, mo)
        if kind == "grid1d":
            io, mo = dict(impl_obs), dict(model_obs)
            n = len(case["bits"])
            s, o = F(case["scale"]), F(case["origin"])
            flags = [near_integer((F(p) - (o - n * s / 2)) / s) for p in case["points"]]
            io["pix"] = [None if f else v for f, v in zip(flags, io["pix"])]
            mo["pix"] = [None if f else v for f, v in zip(flags, mo["pix"])]
            return self._diff(cmp, io, mo)
        if kind == "shape":
            band = self._shape_band(case)
            mb = model_obs["mask"]["bits"]
            # "b" prefix: an all-digit bit string must be compared literally (Cmp would read it as one big integer
            # and apply the relative tolerance to it)
            hide = lambda bits: "b" + "".join("?" if f else c for f, c in zip(band, bits))
            io, mo = dict(impl_obs), {"origin": model_obs["origin"], "scales": model_obs["scales"]}
            for key in ("mask", "util_mask"):
                if key not in impl_obs:
                    continue
                ib = impl_obs[key]["bits"]
                if len(ib) != len(mb):
                    return f"$.{key}.bits: length impl={len(ib)} model={len(mb)}"
                io[key] = {**impl_obs[key], "bits": hide(ib)}
                mo[key] = {**model_obs["mask"], "bits": hide(mb)}
            return cmp.diff(io, mo)
        return self._diff(cmp, impl_obs, model_obs)

    # ------------------------------------------------------------------ oracle (independent of the model)
    @staticmethod
    def _close(a, b, scale=1):
        a, b = fr(a), fr(b)
        if a == b:
            return True
        return abs(a - b) <= BAND * max(1, abs(a), abs(b), scale)

    def _shape_eval_exact(self, case):
        """per pixel (row-major): (expected_unmasked, in_band) from the documented inequalities, stated
        on the offset (dy, dx) of the pixel centre — measured from the mask origin — from `centre`."""
        H, W = case["shape"]
        sy, sx = (fr(v) for v in case["scales"])
        cy, cx = (fr(v) for v in case["centre"])
        ctor = case["ctor"]
        _gv = {}

        def g(k):
            if k not in _gv:
                _gv[k] = fr(case[k])
            return _gv[k]

        def cmp_sqrt(d2, r):
            """sign of sqrt(d2) - r, 0 inside the tie band"""
            f = math.sqrt(float(d2))
            if abs(f - float(r)) <= float(BAND) * max(1.0, abs(float(r))):
                return 0
            if r < 0:
                return 1
            return -1 if d2 <= r * r else 1

        _cs = {}

        def ell(dx, dy, cs, qq):
            if id(cs) not in _cs:
                _cs[id(cs)] = (fr(cs[0]), fr(cs[1]))
            c, s = _cs[id(cs)]
            xe = dx * c + dy * s
            ye = (-dx * s + dy * c) / qq
            return xe * xe + ye * ye

        out = []
        for i in range(H):
            for j in range(W):
                dy = (F(H - 1, 2) - i) * sy - cy
                dx = (j - F(W - 1, 2)) * sx - cx
                d2 = dx * dx + dy * dy
                if ctor == "circular":
                    a = cmp_sqrt(d2, g("radius"))
                    out.append((a <= 0, a == 0))
                elif ctor == "annular":
                    a, b = cmp_sqrt(d2, g("inner")), cmp_sqrt(d2, g("outer"))
                    out.append((a >= 0 and b <= 0, a == 0 or b == 0))
                elif ctor == "anti_annular":
                    a, b, c = cmp_sqrt(d2, g("inner")), cmp_sqrt(d2, g("outer")), cmp_sqrt(d2, g("outer2"))
                    out.append((a <= 0 or (b >= 0 and c <= 0), a == 0 or b == 0 or c == 0))
                elif ctor == "elliptical":
                    a = cmp_sqrt(ell(dx, dy, case["cs"], g("axis_ratio")), g("major"))
                    out.append((a <= 0, a == 0))
                else:
                    a = cmp_sqrt(ell(dx, dy, case["inner_cs"], g("inner_axis_ratio")), g("inner_major"))
                    b = cmp_sqrt(ell(dx, dy, case["outer_cs"], g("outer_axis_ratio")), g("outer_major"))
                    out.append((a >= 0 and b <= 0, a == 0 or b == 0))
        return out

    def _shape_band(self, case):
        return [b for _, b in self._shape_eval(case)]

    _ev_memo = (None, None)

    def _shape_eval(self, case):
        """memo of the last case (the runner evaluates oracle and compare of one case back to back)"""
        if self._ev_memo[0] is not case:
            self._ev_memo = (case, self._shape_eval_exact(case))
        return self._ev_memo[1]

    def oracle(self, case, obs):
        if isinstance(obs, dict) and "err" in obs:
            return False, f"implementation raised {obs}"
        kind = case["kind"]
        if kind == "history":
            n = len(case["steps"])
            for k, st in enumerate(case["steps"]):
                ok, d = self.oracle(st["case"], obs["steps"][k])
                if not ok:
                    return False, (f"history step {k + 1}/{n} (after {self._history_desc(case, k)}): {d} -- a freshly "
                                   f"built object in this step's state satisfies the property")
            return True, ""
        if kind == "decade":
            base, f = case["base"], self._dec_factor(case)
            ok, d = self.oracle(base, unscale_obs(base["kind"], obs, f))
            if ok or not case["k"]:
                return ok, d
            return ok, f"world scaled by 2^{case['k']} (values shown in base units, i.e. divided by 2^{case['k']}): {d}"
        if case.get("large") and kind != "shape":
            return self._oracle_large(case, obs)
        if kind == "geom":
            return self._oracle_geom(case, obs)
        if kind == "grid":
            mj = case["mask"]
            H, W = mj["h"], mj["w"]
            sy, sx = (F(v) for v in case["scales"])
            oy, ox = (F(v) for v in case["origin"])
            allp = [(i, j) for i in range(H) for j in range(W)]
            unm = [p for p in allp if mj["bits"][p[0] * W + p[1]] == "0"]
            for key, pix in (("from_mask", unm), ("unmasked", unm), ("util", unm), ("all_false", allp),
                             ("uniform", allp)):
                got = obs[key]
                if len(got) != len(pix):
                    return False, f"{key}: {len(got)} coordinates for {len(pix)} pixels"
                for k, (i, j) in enumerate(pix):
                    ey, ex = centre_of(H, W, sy, sx, oy, ox, i, j)
                    if not (self._close(got[k][0], ey) and self._close(got[k][1], ex)):
                        return False, (f"{key}[{k}] = ({fl(got[k][0])}, {fl(got[k][1])}) but pixel ({i},{j}) "
                                       f"has centre ({float(ey)}, {float(ex)})")
            return True, ""
        if kind == "grid1d":
            bits = case["bits"]
            n = len(bits)
            s, o = F(case["scale"]), F(case["origin"])
            cen = lambda x: o + (x - F(n - 1, 2)) * s
            unm = [x for x in range(n) if bits[x] == "0"]
            if len(obs["grid"]) != len(unm) or any(not self._close(v, cen(x)) for v, x in zip(obs["grid"], unm)):
                return False, "Grid1D.from_mask is not the list of unmasked pixel centres o + (x-(n-1)/2)s"
            if len(obs["uniform"]) != n or any(not self._close(v, cen(x)) for x, v in enumerate(obs["uniform"])):
                return False, "Grid1D.uniform is not the list of pixel centres"
            if not (self._close(obs["extent"][0], o - n * s / 2) and self._close(obs["extent"][1], o + n * s / 2)):
                return False, f"1-D extent {obs['extent']} is not the union of the pixel intervals"
            for p, got in zip(case["points"], obs["pix"]):
                t = (F(p) - (o - n * s / 2)) / s
                if near_integer(t) or not 0 < t < n:
                    continue  # tie band / outside the extent: the property does not speak
                if got != math.floor(t):
                    return False, f"1-D coordinate {fl(p)} lies in pixel {math.floor(t)} but converts to {got}"
            for p, got in zip(case["pixels"], obs["scaled"]):
                if not self._close(got, cen(F(p))):
                    return False, f"1-D pixel coordinate {fl(p)} has scaled value {float(cen(F(p)))}, got {fl(got)}"
            return True, ""
        # shape masks
        H, W = case["shape"]
        if obs["mask"]["h"] != H or obs["mask"]["w"] != W:
            return False, "mask has the wrong shape"
        if [F(v) for v in obs["origin"]] != [F(v) for v in case["origin"]]:
            return False, f"mask origin {obs['origin']} != requested {case['origin']}"
        if [F(v) for v in obs["scales"]] != [F(v) for v in case["scales"]]:
            return False, f"mask pixel_scales {obs['scales']} != requested {case['scales']}"
        big = H * W > 400
        ev = [] if big else self._shape_eval(case)
        if big:
            unm_np, band_np = self._shape_eval_np(case)
        for key in ("mask", "util_mask"):
            if key not in obs:
                continue
            if obs[key]["h"] != H or obs[key]["w"] != W:
                return False, f"{key} has the wrong shape"
            bits = obs[key]["bits"]
            if big:
                if len(bits) != H * W:
                    return False, f"{key} has the wrong number of pixels"
                got_unm = np.frombuffer(bits.encode(), dtype="S1") == b"0"
                bad = (~band_np) & (got_unm != unm_np)
                if bad.any():
                    k = int(np.argmax(bad))
                    return False, (f"{case['ctor']} ({key}): pixel ({k // W},{k % W}) is "
                                   f"{'unmasked' if bits[k] == '0' else 'masked'} but its centre "
                                   f"{'satisfies' if unm_np[k] else 'violates'} the radial inequality "
                                   f"({int(bad.sum())} of {H * W} pixels wrong)")
                continue
            for k, (unm, band) in enumerate(ev):
                if band:
                    continue
                if (bits[k] == "0") != unm:
                    return False, (f"{case['ctor']} ({key}): pixel ({k // W},{k % W}) is "
                                   f"{'unmasked' if bits[k] == '0' else 'masked'} but its centre "
                                   f"{'satisfies' if unm else 'violates'} the radial inequality")
        return True, ""

    @staticmethod
    def _history_desc(case, k):
        """what happened to the reused objects before step k (0-based) — for the oracle's message"""
        if k == 0:
            o = case["steps"][0].get("opts") or {}
            return "decoy reads" if o.get("decoy") else "nothing"
        parts = []
        for st in case["steps"][1:k + 1]:
            o = st.get("opts") or {}
            bit = st.get("what", "step")
            if o.get("faults"):
                bit += f" + failed call {list(o['faults'])}"
            if o.get("reuse"):
                bit += f" reusing {list(o['reuse'])}"
            parts.append(bit)
        return "; then ".join(parts)

    def _shape_eval_np(self, case):
        """vectorised twin of `_shape_eval` for big frames: (expected_unmasked, in_band), flattened row-major.  Offsets
        are exact doubles (dyadic inputs); outside the 1e-9 band the double comparison decides as the exact one."""
        H, W = case["shape"]
        sy, sx = (fl(v) for v in case["scales"])
        cy, cx = (fl(v) for v in case["centre"])
        ii = np.arange(H, dtype=float)[:, None]
        jj = np.arange(W, dtype=float)[None, :]
        dy = (((H - 1) / 2 - ii) * sy - cy) + 0.0 * jj
        dx = ((jj - (W - 1) / 2) * sx - cx) + 0.0 * ii
        ctor = case["ctor"]
        g = lambda k: fl(case[k])

        def sgn(d2, r):
            """sign of sqrt(d2) - r, 0 inside the tie band"""
            f = np.sqrt(d2)
            band = np.abs(f - r) <= FBAND * max(1.0, abs(r))
            s = np.where(f <= r, -1, 1) if r >= 0 else np.ones(f.shape, dtype=int)
            return np.where(band, 0, s)

        def ell(cs, qq):
            c, s = fl(cs[0]), fl(cs[1])
            xe = dx * c + dy * s
            ye = (-dx * s + dy * c) / qq
            return xe * xe + ye * ye

        d2 = dx * dx + dy * dy
        if ctor == "circular":
            a = sgn(d2, g("radius"))
            unm, band = a <= 0, a == 0
        elif ctor == "annular":
            a, b = sgn(d2, g("inner")), sgn(d2, g("outer"))
            unm, band = (a >= 0) & (b <= 0), (a == 0) | (b == 0)
        elif ctor == "anti_annular":
            a, b, c = sgn(d2, g("inner")), sgn(d2, g("outer")), sgn(d2, g("outer2"))
            unm, band = (a <= 0) | ((b >= 0) & (c <= 0)), (a == 0) | (b == 0) | (c == 0)
        elif ctor == "elliptical":
            a = sgn(ell(case["cs"], g("axis_ratio")), g("major"))
            unm, band = a <= 0, a == 0
        else:
            a = sgn(ell(case["inner_cs"], g("inner_axis_ratio")), g("inner_major"))
            b = sgn(ell(case["outer_cs"], g("outer_axis_ratio")), g("outer_major"))
            unm, band = (a >= 0) & (b <= 0), (a == 0) | (b == 0)
        return unm.ravel(), band.ravel()

    def _oracle_large(self, case, obs):
        """the property stated with numpy directly on the implementation's (large) outputs"""
        kind = case["kind"]
        cl = self._close
        ff = lambda v: tuple(float(x) for x in np.ravel(v))

        def first_bad(ok):
            ok = np.asarray(ok)
            if ok.ndim > 1:
                ok = ok.all(axis=tuple(range(1, ok.ndim)))
            return None if ok.all() else int(np.argmin(ok))

        if kind == "grid1d":
            g = case["bits_gen"]
            n = g["n"]
            m = large_mask({**g, "h": 1, "w": n})[0]
            s, o = fl(case["scale"]), fl(case["origin"])
            cen = o + (np.arange(n) - (n - 1) / 2) * s
            for key, exp in (("grid", cen[~m]), ("uniform", cen)):
                got = obs[key].a
                if got.shape != exp.shape:
                    return False, f"{key}: {got.shape[0]} coordinates for {exp.shape[0]} pixels"
                k = first_bad(fclose(got, exp))
                if k is not None:
                    return False, f"1-D {key}[{k}] = {float(got[k])!r} but that pixel's centre is {float(exp[k])!r} (n={n})"
            pts, pix = large_points_1d(case)
            S, O = F(case["scale"]), F(case["origin"])
            if not (cl(obs["extent"][0], O - n * S / 2) and cl(obs["extent"][1], O + n * S / 2)):
                return False, f"1-D extent {obs['extent']} is not the union of the pixel intervals"
            for p, got in zip(pts, obs["pix"]):
                t = (F(p) - (O - n * S / 2)) / S
                if near_integer(t) or not 0 < t < n:
                    continue
                if got != math.floor(t):
                    return False, f"1-D coordinate {fl(p)} lies in pixel {math.floor(t)} but converts to {got}"
            for p, got in zip(pix, obs["scaled"]):
                e = O + (F(p) - F(n - 1, 2)) * S
                if not cl(got, e):
                    return False, f"1-D pixel coordinate {fl(p)} has scaled value {float(e)}, got {fl(got)}"
            return True, ""

        sy, sx = (fl(v) for v in case["scales"])
        oy, ox = (fl(v) for v in case["origin"])
        if kind == "grid":
            m = large_mask(case["mask_gen"])
            H, W = m.shape
            ii, jj = np.divmod(np.arange(H * W), W)
            allc = np.stack([oy + ((H - 1) / 2 - ii) * sy, ox + (jj - (W - 1) / 2) * sx], axis=1)
            unm = allc[~m.ravel()]
            for key, exp in (("from_mask", unm), ("unmasked", unm), ("util", unm), ("all_false", allc),
                             ("uniform", allc)):
                got = obs[key].a
                if got.shape != exp.shape:
                    return False, f"{key}: {got.shape[0]} coordinates for {exp.shape[0]} pixels ({H}x{W} frame)"
                k = first_bad(fclose(got, exp))
                if k is not None:
                    return False, (f"{key}[{k}] = {ff(got[k])} but that pixel has centre {ff(exp[k])} "
                                   f"({H}x{W} frame, {exp.shape[0]} coordinates)")
            return True, ""

        # geometry
        H, W, SY, SX, OY, OX = geom_of(case)
        exact = (OX - W * SX / 2, OX + W * SX / 2, OY - H * SY / 2, OY + H * SY / 2)
        ext = obs["extent"]
        if not all(cl(a, b) for a, b in zip(ext, exact)):
            return False, f"extent {[fl(v) for v in ext]} != {[float(v) for v in exact]}"
        if not (cl(obs["minima"][0], exact[2]) and cl(obs["minima"][1], exact[0])
                and cl(obs["maxima"][0], exact[3]) and cl(obs["maxima"][1], exact[1])):
            return False, "scaled_minima / scaled_maxima are not the corners of the extent"
        if not (cl(obs["shape_scaled"][0], H * SY) and cl(obs["shape_scaled"][1], W * SX)):
            return False, f"shape_native_scaled {obs['shape_scaled']} != (H s_y, W s_x)"
        if not (cl(obs["central_pixel"][0], F(H - 1, 2)) and cl(obs["central_pixel"][1], F(W - 1, 2))):
            return False, f"central pixel coordinates {obs['central_pixel']} != ((H-1)/2, (W-1)/2)"
        ymax, xmin = oy + H * sy / 2, ox - W * sx / 2
        if "grid" in obs:
            got = obs["grid"].a
            ii, jj = np.divmod(np.arange(H * W), W)
            exp = np.stack([oy + ((H - 1) / 2 - ii) * sy, ox + (jj - (W - 1) / 2) * sx], axis=1)
            if got.shape != exp.shape:
                return False, "pixel-centre grid has the wrong length"
            k = first_bad(fclose(got, exp))
            if k is not None:
                return False, (f"pixel ({k // W},{k % W}) has centre {ff(got[k])}, expected {ff(exp[k])} "
                               f"({H}x{W} frame)")
            union = (got[:, 1].min() - sx / 2, got[:, 1].max() + sx / 2, got[:, 0].min() - sy / 2,
                     got[:, 0].max() + sy / 2)
            if not all(cl(a, b) for a, b in zip(ext, union)):
                return False, f"extent {[fl(v) for v in ext]} != union of pixel squares {ff(union)}"
            ks = self._large_rt_pixels(case)
            rt = obs["centre_roundtrip"].a
            exp_rt = np.stack([ks // W, ks % W], axis=1)
            if rt.shape != exp_rt.shape:
                return False, "centre round trip has the wrong length"
            k = first_bad(rt == exp_rt)
            if k is not None:
                return False, f"centre of pixel {exp_rt[k].tolist()} converts to index {rt[k].tolist()} ({H}x{W} frame)"
        pts, _mode = large_points(case)
        n = len(pts)
        if n:
            ty, tx = (ymax - pts[:, 0]) / sy, (pts[:, 1] - xmin) / sx
            for key in ("centres", "pixels", "roundtrip"):
                if obs[key].a.shape != (n, 2):
                    return False, f"{key}: shape {obs[key].a.shape} for {n} coordinates"
            if obs["indexes"].a.shape != (n,):
                return False, f"indexes: shape {obs['indexes'].a.shape} for {n} coordinates"
            k = first_bad(fclose(obs["pixels"].a, np.stack([ty, tx], axis=1)))
            if k is not None:
                return False, (f"continuous pixel coordinate of point #{k} {ff(pts[k])} is {ff(obs['pixels'].a[k])}, "
                               f"expected {ff([ty[k], tx[k]])} ({n} points, {H}x{W} frame)")
            k = first_bad(fclose(obs["roundtrip"].a, pts))
            if k is not None:
                return False, f"grid_scaled(grid_pixels(p)) != p at point #{k} {ff(pts[k])} ({n} points)"
            near = lambda t: np.abs(t - np.round(t)) <= FBAND * np.maximum(1.0, np.abs(t))
            ok = ~near(ty) & ~near(tx) & (ty > 0) & (ty < H) & (tx > 0) & (tx < W)
            i, j = np.floor(ty).astype(np.int64), np.floor(tx).astype(np.int64)
            cen = obs["centres"].a.astype(np.int64)
            k = first_bad(~ok | ((cen[:, 0] == i) & (cen[:, 1] == j)))
            if k is not None:
                return False, (f"centres: point #{k} {ff(pts[k])} lies in the square of pixel ({i[k]},{j[k]}) but "
                               f"converts to {cen[k].tolist()} ({n} points, {H}x{W} frame)")
            idx = obs["indexes"].a.astype(np.int64)
            k = first_bad(~ok | (idx == i * W + j))
            if k is not None:
                return False, (f"flattened index of point #{k} {ff(pts[k])} is {int(idx[k])}, expected "
                               f"{int(i[k] * W + j[k])} ({n} points, {H}x{W} frame)")
            for k in range(len(obs.get("pix_a", []))):
                if not ok[k]:
                    continue
                if obs["pix_a"][k] != [int(i[k]), int(j[k])]:
                    return False, f"pix_a: point {ff(pts[k])} lies in pixel ({i[k]},{j[k]}) but converts to {obs['pix_a'][k]}"
                ey, ex = oy + ((H - 1) / 2 - i[k]) * sy, ox + (j[k] - (W - 1) / 2) * sx
                if not fclose(obs["snap"][k], [ey, ex]).all():
                    return False, f"point {ff(pts[k])} snaps to {obs['snap'][k]}, its pixel's centre is {ff([ey, ex])}"
        pix = large_pixels(case)
        if len(pix):
            if obs["grid_scaled"].a.shape != pix.shape or obs["roundtrip_p"].a.shape != pix.shape:
                return False, "pixel -> scaled conversion returns the wrong number of coordinates"
            exp = np.stack([oy + ((H - 1) / 2 - (pix[:, 0] - 0.5)) * sy, ox + ((pix[:, 1] - 0.5) - (W - 1) / 2) * sx], axis=1)
            k = first_bad(fclose(obs["grid_scaled"].a, exp))
            if k is not None:
                return False, (f"grid_scaled_2d_from{ff(pix[k])} = {ff(obs['grid_scaled'].a[k])}, expected "
                               f"{ff(exp[k])} ({len(pix)} pixel coordinates)")
            k = first_bad(fclose(obs["roundtrip_p"].a, pix))
            if k is not None:
                return False, f"grid_pixels(grid_scaled(q)) != q at {ff(pix[k])} ({len(pix)} pixel coordinates)"
            for k in range(len(obs.get("scaled", []))):
                e = [oy + ((H - 1) / 2 - pix[k][0]) * sy, ox + (pix[k][1] - (W - 1) / 2) * sx]
                if not fclose(obs["scaled"][k], e).all():
                    return False, f"scaled_coordinates_2d_from{ff(pix[k])} = {obs['scaled'][k]}, expected {ff(e)}"
        return True, ""

    def _oracle_geom(self, case, obs):
        H, W, sy, sx, oy, ox = geom_of(case)
        cl = self._close
        # centre formula, on the code's own pixel-centre grid
        grid = obs["grid"]
        if len(grid) != H * W:
            return False, "pixel-centre grid has the wrong length"
        for k, (gy, gx) in enumerate(grid):
            ey, ex = centre_of(H, W, sy, sx, oy, ox, k // W, k % W)
            if not (cl(gy, ey) and cl(gx, ex)):
                return False, (f"pixel ({k // W},{k % W}) has centre ({fl(gy)},{fl(gx)}), expected "
                               f"({float(ey)},{float(ex)})")
        # extent = union of the pixel squares (of the code's own centres)
        xs = [F(g[1]) for g in grid]
        ys = [F(g[0]) for g in grid]
        union = (min(xs) - sx / 2, max(xs) + sx / 2, min(ys) - sy / 2, max(ys) + sy / 2)
        ext = obs["extent"]
        if not all(cl(a, b) for a, b in zip(ext, union)):
            return False, f"extent {[fl(v) for v in ext]} != union of pixel squares {[float(v) for v in union]}"
        exact = (ox - W * sx / 2, ox + W * sx / 2, oy - H * sy / 2, oy + H * sy / 2)
        if not all(cl(a, b) for a, b in zip(ext, exact)):
            return False, f"extent {[fl(v) for v in ext]} != {[float(v) for v in exact]}"
        if not (cl(obs["minima"][0], exact[2]) and cl(obs["minima"][1], exact[0])
                and cl(obs["maxima"][0], exact[3]) and cl(obs["maxima"][1], exact[1])):
            return False, "scaled_minima / scaled_maxima are not the corners of the extent"
        # pixel centre -> index -> back
        exp_rt = [[i, j] for i in range(H) for j in range(W)]
        if obs["centre_roundtrip"] != exp_rt:
            bad = next(k for k in range(H * W) if obs["centre_roundtrip"][k] != exp_rt[k])
            return False, f"centre of pixel {exp_rt[bad]} converts to index {obs['centre_roundtrip'][bad]}"
        if obs.get("empty", [0, 0, 0, 0]) != [0, 0, 0, 0]:
            return False, f"an empty coordinate list converts to non-empty outputs {obs['empty']}"
        # containment
        for k, p in enumerate(case["points"]):
            y, x = F(p[0]), F(p[1])
            ty, tx = pixel_position(case, p)
            py, px = obs["pixels"][k]
            if not (cl(py, ty) and cl(px, tx)):
                return False, f"continuous pixel coordinate of {fl(y), fl(x)} is {fl(py), fl(px)}, expected {float(ty), float(tx)}"
            ry, rx = obs["roundtrip"][k]
            if not (cl(ry, y) and cl(rx, x)):
                return False, f"grid_scaled(grid_pixels(p)) != p at {fl(y), fl(x)}"
            if near_integer(ty) or near_integer(tx):
                continue
            if not (0 < ty < H and 0 < tx < W):
                continue  # outside the extent: the property does not speak
            i, j = math.floor(ty), math.floor(tx)
            for key in ("pix_a", "centres"):
                if obs[key][k] != [i, j]:
                    return False, (f"{key}: coordinate ({fl(y)},{fl(x)}) lies in the square of pixel ({i},{j}) "
                                   f"but converts to {obs[key][k]}")
            if obs["indexes"][k] != i * W + j:
                return False, f"flattened index of ({fl(y)},{fl(x)}) is {obs['indexes'][k]}, expected {i * W + j}"
            if "snap" in obs:
                ey, ex = centre_of(H, W, sy, sx, oy, ox, i, j)
                gy, gx = obs["snap"][k]
                if not (cl(gy, ey) and cl(gx, ex)):
                    return False, (f"coordinate ({fl(y)},{fl(x)}) snaps to ({fl(gy)},{fl(gx)}), but the centre of "
                                   f"its pixel ({i},{j}) is ({float(ey)},{float(ex)})")
        # pixel -> scaled and continuous inverse
        for k, p in enumerate(case["pixels"]):
            pi, pj = F(p[0]), F(p[1])
            ey, ex = centre_of(H, W, sy, sx, oy, ox, pi, pj)
            gy, gx = obs["scaled"][k]
            if not (cl(gy, ey) and cl(gx, ex)):
                return False, f"scaled_coordinates_2d_from({fl(pi)},{fl(pj)}) = ({fl(gy)},{fl(gx)}), expected ({float(ey)},{float(ex)})"
            ey, ex = centre_of(H, W, sy, sx, oy, ox, pi - F(1, 2), pj - F(1, 2))
            gy, gx = obs["grid_scaled"][k]
            if not (cl(gy, ey) and cl(gx, ex)):
                return False, f"grid_scaled_2d_from({fl(pi)},{fl(pj)}) = ({fl(gy)},{fl(gx)}), expected ({float(ey)},{float(ex)})"
            ry, rx = obs["roundtrip_p"][k]
            if not (cl(ry, pi) and cl(rx, pj)):
                return False, f"grid_pixels(grid_scaled(q)) != q at ({fl(pi)},{fl(pj)})"
        return True, ""

    # ------------------------------------------------------------------ misc
    def nontrivial(self, case, obs):
        kind = case["kind"]
        if kind == "decade":
            return self.nontrivial(case["base"], obs)
        if kind == "history":
            return len(case["steps"]) >= 2 and any(
                self.nontrivial(st["case"], o) for st, o in zip(case["steps"], obs["steps"]) if "err" not in o)
        if kind == "shape":
            b = obs["mask"]["bits"]
            return "0" in b and "1" in b
        if case.get("large"):
            return True
        if kind == "grid1d":
            return len(case["bits"]) >= 2
        if kind == "grid":
            return case["mask"]["h"] * case["mask"]["w"] >= 2
        return case["shape"][0] * case["shape"][1] >= 2 and not case.get("single_band_point")

    def shrink(self, case):
        kind = case["kind"]
        if kind == "decade":
            k = case["k"]
            for k2 in (0, int(k / 2), k - (1 if k > 0 else -1)):
                if abs(k2) < abs(k):
                    yield {**case, "k": k2, "tag": case.get("tag", "dec").replace("decx_", "dec_") if abs(k2) <= 45
                           else case.get("tag", "dec")}
            for b in self.shrink(case["base"]):
                yield {**case, "base": b}
            return
        if kind == "history":
            steps = case["steps"]
            if len(steps) > 1:
                for k in range(len(steps)):  # drop one step (a step falls back to fresh objects when its
                    yield {**case, "steps": steps[:k] + steps[k + 1:]}  # predecessor's are gone)
            for k, st in enumerate(steps):
                o = st.get("opts") or {}
                for key in ("decoy", "scribble", "order", "faults", "edit_style"):
                    if o.get(key):
                        o2 = {a: b for a, b in o.items() if a != key}
                        yield {**case, "steps": steps[:k] + [{**st, "opts": o2}] + steps[k + 1:]}
            return
        if case.get("large"):
            # smaller frames / fewer points first (a size-gated failure refuses them), then plainer ingredients
            def halves(n):
                return [m for m in (n // 2, (3 * n) // 4) if 1 <= m < n]
            if kind in ("shape", "geom"):
                H, W = case["shape"]
                for h in halves(H):
                    yield {**case, "shape": [h, W]}
                for w in halves(W):
                    yield {**case, "shape": [H, w]}
            if kind == "geom":
                for key in ("points_gen", "pixels_gen"):
                    g = case[key]
                    for m in ([0] if g["n"] else []) + halves(g["n"]):
                        yield {**case, key: {**g, "n": m}}
            if kind == "grid":
                g = case["mask_gen"]
                for h in halves(g["h"]):
                    yield {**case, "mask_gen": {**g, "h": h}}
                for w in halves(g["w"]):
                    yield {**case, "mask_gen": {**g, "w": w}}
                if g.get("style") != "all_false":
                    yield {**case, "mask_gen": {**g, "style": "all_false"}}
            if kind == "grid1d":
                g = case["bits_gen"]
                for m in halves(g["n"]):
                    yield {**case, "bits_gen": {**g, "n": m}}
            okey = "origin"
            zero = "0" if kind == "grid1d" else ["0", "0"]
            if case[okey] != zero:
                yield {**case, okey: zero}
            if kind == "shape" and case["centre"] != ["0", "0"]:
                yield {**case, "centre": ["0", "0"]}
            return
        if kind == "geom":
            if len(case["points"]) + len(case["pixels"]) > 1:
                for p in case["points"]:
                    yield {**case, "points": [p], "pixels": []}
                for p in case["pixels"]:
                    yield {**case, "points": [], "pixels": [p]}
                yield {**case, "points": [], "pixels": []}
        elif kind == "shape":
            if case["origin"] != ["0", "0"]:
                yield {**case, "origin": ["0", "0"]}
            if case["centre"] != ["0", "0"]:
                yield {**case, "centre": ["0", "0"]}

    def sample_view(self, case):
        # lossless (replays are rebuilt from it) and small: large cases are recipes (seeds + sizes), never arrays
        c = {k: v for k, v in case.items() if not k.startswith("_")}
        return c

    def theorems_for(self, case):
        if case["kind"] == "decade":
            return self.theorems_for(case["base"])
        if case["kind"] == "history":
            return sorted({t for st in case["steps"] for t in self.theorems_for(st["case"])})
        if case["kind"] == "shape":
            return {
                "circular": ["C02.g_circular", "C02.g_circular_real"],
                "annular": ["C02.g_annular", "C02.g_annular_family_real"],
                "anti_annular": ["C02.g_anti_annular", "C02.g_annular_family_real"],
                "elliptical": ["C02.g_elliptical", "C02.g_elliptical_real"],
                "elliptical_annular": ["C02.g_elliptical_annular", "C02.g_annular_family_real"],
            }[case["ctor"]] + ["C02.g_code_form_eq_polynomial_form", "C02.g_code_form_eq_polynomial_form_of_contract",
                                  "C02.g_offset_measured_from_mask_origin"]
        return {
            "geom": ["C02.a_centre_formula", "C02.b_centre_roundtrip", "C02.c_containment",
                     "C02.c_variants_agree", "C02.c_inside_extent_maps_to_containing_pixel",
                     "C02.d_extent_formula", "C02.d_extent_is_union_of_pixel_squares",
                     "C02.e_continuous_inverse", "C02.f_grid_via_mask"],
            "grid": ["C02.f_grid_via_mask", "C02.a_centre_formula"],
            "grid1d": ["C02.h_grid1d", "C02.h_extent1", "C02.h_pixel1"],
        }[case["kind"]]


CHECK = C02()
