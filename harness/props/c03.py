"""C03 — masked PSF blurring equals true 2-D convolution restricted to the mask."""
from __future__ import annotations

from fractions import Fraction

import numpy as np

import gen
from common import PropertyCheck, Skip, load_autoarray, mask_json, mask_from_json, q, qlist, qmat

ODD = (1, 3, 5, 7)


def _bits(mask_2d) -> str:
    return "".join("1" if b else "0" for b in np.asarray(mask_2d, dtype=bool).ravel())


def _fr(x):
    return Fraction(x)


def _integral(vals):
    return all(Fraction(v).denominator == 1 for v in vals)


def _typed(vals, shape, form):
    """the same real numbers in the requested container / dtype"""
    fr = [Fraction(v) for v in vals]
    if form in ("int64", "pyint") and all(v.denominator == 1 for v in fr):
        a = np.array([int(v) for v in fr], dtype=np.int64)
        a = a.reshape(shape) if shape is not None else a
        return a.tolist() if form == "pyint" else a
    a = np.array([float(v) for v in fr], dtype=float)
    a = a.reshape(shape) if shape is not None else a
    if form == "float32":
        return a.astype(np.float32)
    if form == "pyfloat":
        return a.tolist()
    if form == "tuple":
        return tuple(map(tuple, a.tolist())) if a.ndim == 2 else tuple(a.tolist())
    return a


IMAGE_FORMS = ["native_float", "native_float", "native_int64", "native_pyint", "slim_int64", "slim_pyint",
               "native_float32", "slim_float", "structure", "native_pyfloat"]
KERNEL_FORMS = ["nd", "nd", "list", "pyint", "int64", "manual_mask"]


def _farr(vals, shape=None):
    a = np.array([float(Fraction(v)) for v in vals], dtype=float)
    return a.reshape(shape) if shape is not None else a


class C03(PropertyCheck):
    pid = "C03"
    title = "masked PSF convolution"
    nontrivial_rule = (
        "a case is non-trivial when the kernel has more than one non-zero entry or the mask has masked "
        "pixels inside the kernel footprint of an unmasked one; distinct = distinct (kind, mask, kernel, values)"
    )
    modelled_functions = [
        "autoarray/operators/convolver.py:Convolver.__init__",
        "autoarray/operators/convolver.py:Convolver.frame_at_coordinates_jit",
        "autoarray/operators/convolver.py:Convolver.convolve_image",
        "autoarray/operators/convolver.py:Convolver.convolve_jit",
        "autoarray/operators/convolver.py:Convolver.convolve_image_no_blurring",
        "autoarray/operators/convolver.py:Convolver.convolve_no_blurring_jit",
        "autoarray/operators/convolver.py:Convolver.convolve_mapping_matrix",
        "autoarray/operators/convolver.py:Convolver.convolve_matrix_jit",
        "autoarray/mask/mask_2d_util.py:blurring_mask_2d_from",
        "autoarray/mask/mask_2d_util.py:total_pixels_2d_from",
        "autoarray/mask/derive/mask_2d.py:DeriveMask2D.blurring_from",
        "autoarray/structures/arrays/array_2d_util.py:array_2d_slim_from",
        "autoarray/structures/arrays/kernel_2d.py:Kernel2D.__init__",
        "autoarray/structures/arrays/kernel_2d.py:Kernel2D.no_mask",
        "autoarray/structures/arrays/kernel_2d.py:Kernel2D.normalized",
        "autoarray/structures/arrays/kernel_2d.py:Kernel2D.convolved_array_from",
        "autoarray/structures/arrays/kernel_2d.py:Kernel2D.convolved_array_with_mask_from",
        "autoarray/dataset/imaging/simulator.py:SimulatorImaging.__init__",
        "autoarray/dataset/imaging/simulator.py:SimulatorImaging.via_image_from",
        "autoarray/dataset/imaging/dataset.py:Imaging.__init__",
        "autoarray/dataset/imaging/dataset.py:Imaging.apply_mask",
        "autoarray/dataset/imaging/dataset.py:Imaging.convolver",
        "autoarray/dataset/imaging/dataset.py:Imaging.apply_noise_scaling",
        "autoarray/dataset/imaging/dataset.py:Imaging.apply_over_sampling",
        "autoarray/dataset/abstract/dataset.py:AbstractDataset.__init__",
        "autoarray/structures/arrays/uniform_2d.py:Array2D.full",
        "autoarray/structures/arrays/uniform_2d.py:Array2D.no_mask",
        "autoarray/structures/arrays/array_2d_util.py:convert_array_2d",
        "autoarray/mask/mask_2d.py:Mask2D.all_false",
        "autoarray/dataset/preprocess.py:data_eps_with_poisson_noise_added",
    ]
    trusted_extra = [
        "scipy.signal.convolve2d(mode='same') is not modelled: it is a parameter of the pipeline model with the "
        "contract Conv2dSameContract (true convolution, zero outside the frame), checked against the implementation "
        "on every 'same'/'simulate' case",
        "numpy glue of Array2D/Kernel2D construction and `.slim`; the Poisson draw the simulator performs and discards "
        "with the noise switches off; noise covariance / over-sampling / grids of Imaging: correspondence only",
        "IEEE rounding: generated kernels/images are small integers or quarter-dyadics so every product and sum "
        "is an exact double and comparisons are exact",
    ]
    assumptions = [
        "tree carries repair D1 (fixes/D1-convolve-matrix-negative.patch): convolve_matrix_jit skips only exact zeros",
        "tree carries repair D153 (fixes/D153-simulator-psf-normalisation-flag.patch): the simulator and the Imaging "
        "rebuilds forward the PSF-normalisation flag",
    ]

    # ------------------------------------------------------------------ generation helpers
    @staticmethod
    def _mask_with_margins(rng, h, w, my, mx, kind=None):
        ih, iw = h - 2 * my, w - 2 * mx
        m = gen.full(h, w)
        if ih <= 0 or iw <= 0:
            m[h // 2][w // 2] = False
            return m, "single"
        inner, kind = gen.random_mask(rng, ih, iw, kind=kind)
        for y in range(ih):
            for x in range(iw):
                m[y + my][x + mx] = inner[y][x]
        return m, kind

    @staticmethod
    def _values(rng, n, style):
        if style == "int":
            return [Fraction(rng.randint(-9, 9)) for _ in range(n)]
        if style == "sparse":
            return [Fraction(rng.choice([0, 0, 0, 1, -1, 2, -3])) for _ in range(n)]
        if style == "dyadic":
            return [Fraction(rng.randint(-40, 40), 4) for _ in range(n)]
        if style == "neg":
            return [Fraction(-rng.randint(0, 9)) for _ in range(n)]
        if style == "tiny":   # entries far below any plausible sparsity threshold, still exact doubles
            return [Fraction(rng.randint(-8, 8), 2 ** rng.choice([10, 16, 20, 30])) for _ in range(n)]
        return [Fraction(rng.randint(0, 9)) for _ in range(n)]  # "pos"

    @staticmethod
    def _kernel(rng, kh, kw, style):
        if style == "asym_pos":
            vals = [[Fraction(rng.randint(0, 5)) for _ in range(kw)] for _ in range(kh)]
        elif style == "dyadic":
            vals = [[Fraction(rng.randint(-12, 12), 4) for _ in range(kw)] for _ in range(kh)]
        elif style == "ramp":   # all entries distinct: any index slip is visible
            vals = [[Fraction(1 + i * kw + j) for j in range(kw)] for i in range(kh)]
        else:
            vals = gen.kernel_values(rng, kh, kw, signed=True, zeros=True)
        if all(v == 0 for r in vals for v in r):
            vals[kh // 2][kw // 2] = Fraction(1)
        return {"h": kh, "w": kw, "vals": [q(v) for r in vals for v in r]}

    @staticmethod
    def _normalised(K):
        vals = [Fraction(v) for v in K["vals"]]
        S = sum(vals)
        return {**K, "vals": qlist([v / S for v in vals])}

    @classmethod
    def _effective_kernel(cls, case):
        """the PSF the whole simulate -> mask -> fit pipeline must use: normalised exactly once iff asked"""
        return cls._normalised(case["kernel"]) if case.get("normalize_psf", True) else case["kernel"]

    @classmethod
    def _background(cls, case):
        """sky level lifting the (signed) blurred image above zero for the Poisson draw the simulator always
        performs (and discards); an integer, so adding and subtracting it is exact"""
        if "background" in case:
            return int(Fraction(case["background"]))
        A = sum(abs(Fraction(v)) for v in case["image"])
        K = sum(abs(Fraction(v)) for v in cls._effective_kernel(case)["vals"])
        return int(A * K) + 1

    def _frame_for(self, rng, kh, kw, lo, hi):
        h = rng.randint(max(lo, kh + 1), max(hi, kh + 2))
        w = rng.randint(max(lo, kw + 1), max(hi, kw + 2))
        return h, w

    def generate(self, tier, rng):
        quick = tier == "quick"
        hi = 9 if quick else 13
        styles_v = ["int", "sparse", "dyadic", "neg", "pos", "tiny"]
        styles_k = ["signed", "signed", "asym_pos", "dyadic", "ramp"]
        # 0. every kernel shape in {1,3,5,7}^2 once, independent of the seed stream position
        shapes = [(a, b) for a in ODD for b in ODD]
        n_rand = 300 if quick else 2400
        plan = shapes + [(rng.choice(ODD), rng.choice(ODD)) for _ in range(n_rand)]
        for idx, (kh, kw) in enumerate(plan):
            h, w = self._frame_for(rng, kh, kw, 5, hi)
            m, mk = self._mask_with_margins(rng, h, w, kh // 2, kw // 2)
            K = self._kernel(rng, kh, kw, rng.choice(styles_k))
            iform = rng.choice(IMAGE_FORMS)
            if "int" in iform:
                # integer-dtype images against fractional kernels: any integer-typed accumulator truncates
                A = self._values(rng, h * w, rng.choice(["int", "sparse", "neg", "pos"]))
                if rng.random() < 0.6:
                    K = self._kernel(rng, kh, kw, "dyadic")
            else:
                A = self._values(rng, h * w, rng.choice(styles_v))
            B = A if rng.random() < 0.5 else self._values(
                rng, h * w, rng.choice(["int", "sparse", "neg", "pos"] if "int" in iform else styles_v))
            yield {"tag": f"convolve_{mk}", "kind": "convolve", "mask": mask_json(m), "kernel": K,
                   "image": qlist(A), "blur": qlist(B), "store_native": rng.random() < 0.5,
                   "image_form": iform, "kernel_form": rng.choice(KERNEL_FORMS),
                   "interpolation_wrapper": rng.random() < 0.3}
            # mapping matrix on the same convolver class: signed / sparse / fractional / negative-only
            n_un = sum(1 for r in m for b in r if not b)
            ncols = rng.randint(1, 4)
            vs = rng.choice(["int", "sparse", "dyadic", "neg", "sparse", "tiny"])
            M = [self._values(rng, ncols, vs) for _ in range(n_un)]
            yield {"tag": f"matrix_{vs}", "kind": "matrix", "mask": mask_json(m), "kernel": K,
                   "matrix": qmat(M), "ncols": ncols,
                   "matrix_form": rng.choice(["float", "float", "int64", "float32", "fortran"]),
                   "kernel_form": rng.choice(KERNEL_FORMS)}
            if idx % 4 == 0:
                A2 = self._values(rng, h * w, rng.choice(styles_v))
                yield {"tag": "same", "kind": "same", "h": h, "w": w, "kernel": K, "image": qlist(A2),
                       "image_form": rng.choice(["float", "int64", "pyint", "float32"]),
                       "kernel_form": rng.choice(KERNEL_FORMS)}
        # 0b. degenerate frames and masks: 1xN / Nx1 / 1x1 frames, no unmasked pixel, one, all
        for _ in range(30 if quick else 240):
            shape_kind = rng.choice(["row", "col", "one", "any"])
            if shape_kind == "row":
                kh, kw = 1, rng.choice((1, 3, 5))
                h, w = 1, rng.randint(kw, 9)
            elif shape_kind == "col":
                kh, kw = rng.choice((1, 3, 5)), 1
                h, w = rng.randint(kh, 9), 1
            elif shape_kind == "one":
                kh, kw, h, w = 1, 1, 1, 1
            else:
                kh, kw = rng.choice(ODD), rng.choice(ODD)
                h, w = rng.randint(kh, kh + 4), rng.randint(kw, kw + 4)
            which = rng.choice(["none", "one", "all_inner"])
            m = gen.full(h, w)
            ih, iw = h - 2 * (kh // 2), w - 2 * (kw // 2)
            if which == "one" and ih > 0 and iw > 0:
                m[kh // 2 + rng.randrange(ih)][kw // 2 + rng.randrange(iw)] = False
            elif which == "all_inner":
                for y in range(kh // 2, h - kh // 2):
                    for x in range(kw // 2, w - kw // 2):
                        m[y][x] = False
            K = self._kernel(rng, kh, kw, rng.choice(styles_k))
            A = self._values(rng, h * w, rng.choice(styles_v))
            n_un = sum(1 for r in m for b in r if not b)
            yield {"tag": f"degenerate_{shape_kind}_{which}", "kind": "convolve", "mask": mask_json(m),
                   "kernel": K, "image": qlist(A), "blur": qlist(A), "store_native": rng.random() < 0.5,
                   "image_form": rng.choice(IMAGE_FORMS), "kernel_form": rng.choice(KERNEL_FORMS),
                   "interpolation_wrapper": rng.random() < 0.3}
            ncols = rng.randint(1, 3)
            yield {"tag": f"degenerate_matrix_{which}", "kind": "matrix", "mask": mask_json(m), "kernel": K,
                   "matrix": qmat([self._values(rng, ncols, "int") for _ in range(n_un)]), "ncols": ncols,
                   "matrix_form": rng.choice(["float", "int64"]), "kernel_form": rng.choice(KERNEL_FORMS)}
        # 1. the whole operator on basis images (image and blurring pixels), small frames
        for _ in range(20 if quick else 120):
            kh, kw = rng.choice((1, 3, 5)), rng.choice((1, 3, 5))
            h, w = self._frame_for(rng, kh, kw, 4, 7)
            m, mk = self._mask_with_margins(rng, h, w, kh // 2, kw // 2)
            K = self._kernel(rng, kh, kw, rng.choice(["ramp", "signed"]))
            yield {"tag": f"operator_{mk}", "kind": "operator", "mask": mask_json(m), "kernel": K}
        # 2. simulator -> apply_mask -> convolver: zero residual (kernel entries sum to 1: normalisation exact)
        for _ in range(40 if quick else 300):
            kh, kw = rng.choice((1, 3, 5)), rng.choice((1, 3, 5))
            h, w = self._frame_for(rng, kh, kw, 5, 9)
            m, mk = self._mask_with_margins(rng, h, w, kh // 2, kw // 2)
            K = self._kernel(rng, kh, kw, "signed")
            vals = [Fraction(v) for v in K["vals"]]
            c = (kh // 2) * kw + kw // 2
            normalize = rng.random() < 0.5
            if normalize:
                # entries sum to +-2^k: the (repeated) normalisation of the pipeline is then exact in doubles
                S = rng.choice([1, 2, 4, 8, -2, Fraction(1, 2)])
                vals[c] += S - sum(vals)
            elif rng.random() < 0.25:
                vals[c] -= sum(vals)     # normalize_psf=False admits kernels summing to zero
            K = {**K, "vals": qlist(vals)}
            A = self._values(rng, h * w, rng.choice(["int", "pos", "sparse"]))
            case = {"tag": f"simulate_{'norm' if normalize else 'raw'}_{mk}", "kind": "simulate",
                    "mask": mask_json(m), "kernel": K, "image": qlist(A), "normalize_psf": normalize,
                    "exposure": q(rng.choice([1, 1, 2, 4, Fraction(1, 2)])),
                    "subtract_background": rng.random() < 0.85,
                    "image_form": rng.choice(["float", "int64", "pyint", "float32"]),
                    "kernel_form": rng.choice(KERNEL_FORMS)}
            if rng.random() < 0.2:
                # "set but falsy" sky level 0.0: needs a non-negative blurred image for the Poisson draw
                case["image"] = qlist(self._values(rng, h * w, "pos"))
                kv = [abs(int(Fraction(v))) for v in K["vals"]]
                if normalize:
                    kv[c] += max(rng.choice([1, 2, 4, 8]) - sum(kv), 0)
                    while sum(kv) & (sum(kv) - 1):     # round the sum up to a power of two
                        kv[c] += 1
                case["kernel"] = {**K, "vals": qlist(kv)}
                case["background"] = "0"
            yield case
        # 3. rejected inputs: even kernel sides; footprints leaving the frame
        for _ in range(12 if quick else 80):
            kh, kw = rng.choice([(2, 3), (3, 2), (4, 4), (2, 1), (1, 4), (6, 3)])
            h, w = rng.randint(7, 9), rng.randint(7, 9)
            m, mk = self._mask_with_margins(rng, h, w, 3, 3)
            K = self._kernel(rng, kh, kw, "signed")
            A = self._values(rng, h * w, "int")
            yield {"tag": "even_kernel", "kind": "convolve", "mask": mask_json(m), "kernel": K,
                   "image": qlist(A), "blur": qlist(A), "store_native": False}
            yield {"tag": "even_kernel_same", "kind": "same", "h": h, "w": w, "kernel": K, "image": qlist(A)}
        for _ in range(15 if quick else 100):
            kh, kw = rng.choice([(3, 1), (1, 3), (3, 3), (5, 3), (3, 5), (5, 5)])
            h, w = self._frame_for(rng, kh, kw, 5, 8)
            short_y = rng.random() < 0.5 and kh > 1
            my = kh // 2 - (1 if short_y else 0)
            mx = kw // 2 - (0 if short_y or kw == 1 else 1)
            m, mk = self._mask_with_margins(rng, h, w, my, mx, kind="all")
            K = self._kernel(rng, kh, kw, "signed")
            A = self._values(rng, h * w, "int")
            yield {"tag": "footprint_outside", "kind": "convolve", "mask": mask_json(m), "kernel": K,
                   "image": qlist(A), "blur": qlist(A), "store_native": False}

    # ------------------------------------------------------------------ implementation
    def _convolver(self, aa, case):
        from autoarray import exc

        m = mask_from_json(case["mask"])
        mask = aa.Mask2D(mask=m, pixel_scales=1.0)
        kernel = self._kernel_obj(aa, case)
        try:
            cv = aa.Convolver(mask=mask, kernel=kernel)
        except exc.KernelException:
            return mask, kernel, None, {"err": "even_kernel"}
        except exc.MaskException as e:
            return mask, kernel, None, {"err": "footprint_outside" if "extends beyond" in str(e) else "MaskException"}
        return mask, kernel, cv, None

    @staticmethod
    def _kernel_obj(aa, case):
        """the kernel through one of the equivalent constructors / container types"""
        Kj = case["kernel"]
        shape = (Kj["h"], Kj["w"])
        form = case.get("kernel_form", "nd")
        if form == "manual_mask":
            km = aa.Mask2D.all_false(shape_native=shape, pixel_scales=1.0)
            return aa.Kernel2D(values=_typed(Kj["vals"], None, "pyfloat"), mask=km)
        vals = _typed(Kj["vals"], shape, {"list": "pyfloat", "pyint": "pyint", "int64": "int64"}.get(form, "nd"))
        return aa.Kernel2D.no_mask(values=vals, pixel_scales=1.0)

    @staticmethod
    def _image_obj(aa, vals, shape, mask, form, store_native):
        """Array2D on `mask` holding the native values `vals`, built from the requested container / dtype"""
        mb = np.asarray(mask, dtype=bool)
        if form.startswith("slim"):
            sl = [v for v, mk in zip(vals, mb.ravel()) if not mk]
            typ = {"slim_int64": "int64", "slim_pyint": "pyint"}.get(form, "nd")
            data = _typed(sl, None, typ)
            if isinstance(data, np.ndarray) and data.size == 0:
                data = np.zeros(0, dtype=data.dtype)
            return aa.Array2D(values=data, mask=mask, store_native=store_native)
        typ = {"native_int64": "int64", "native_pyint": "pyint", "native_float32": "float32",
               "native_pyfloat": "pyfloat"}.get(form, "nd")
        data = _typed(vals, shape, typ)
        if form == "structure":   # an autoarray structure passed where an array is accepted
            data = aa.Array2D.no_mask(values=data, pixel_scales=1.0).native   # as `apply_mask` passes `.native`
        return aa.Array2D(values=data, mask=mask, store_native=store_native)

    def run_impl(self, case):
        aa = load_autoarray()
        from autoarray import exc

        kind = case["kind"]
        if kind == "same":
            h, w = case["h"], case["w"]
            kernel = self._kernel_obj(aa, case)
            arr = aa.Array2D.no_mask(values=_typed(case["image"], (h, w), case.get("image_form", "float")),
                                     pixel_scales=1.0)
            try:
                out = kernel.convolved_array_from(array=arr)
            except exc.KernelException:
                return {"err": "even_kernel"}
            # the masked twin on a checkerboard-ish mask: must be the same numbers gathered at the mask
            mm = np.array([[(y * 3 + x) % 4 == 1 for x in range(w)] for y in range(h)], dtype=bool)
            mask2 = aa.Mask2D(mask=mm, pixel_scales=1.0)
            out2 = kernel.convolved_array_with_mask_from(array=arr.native, mask=mask2)
            return {"same": qlist(np.asarray(out.native.array).ravel()),
                    "same_masked": qlist(np.asarray(out2.slim.array).ravel())}
        mask, kernel, cv, err = self._convolver(aa, case)
        if err:
            return err
        h, w = mask.shape_native
        bm = mask.derive_mask.blurring_from(kernel_shape_native=kernel.shape_native)
        if kind == "convolve":
            sn = bool(case.get("store_native"))
            iform = case.get("image_form", "native_float")
            img = self._image_obj(aa, case["image"], (h, w), mask, iform, sn)
            blur = self._image_obj(aa, case["blur"], (h, w), bm, iform, sn)
            out = cv.convolve_image(image=img, blurring_image=blur)
            if case.get("interpolation_wrapper"):   # thin wrapper of the same operator on a raw slim array
                nb = cv.convolve_image_no_blurring_interpolation(image=np.array(img.slim.array))
            else:
                nb = cv.convolve_image_no_blurring(image=img)
            return {"blurred": qlist(np.asarray(out.slim.array)), "no_blurring": qlist(np.asarray(nb.slim.array)),
                    "blurring_mask": _bits(cv.blurring_mask)}
        if kind == "matrix":
            M = np.array([[float(Fraction(v)) for v in row] for row in case["matrix"]], dtype=float)
            M = M.reshape(len(case["matrix"]), case["ncols"])
            mform = case.get("matrix_form", "float")
            if mform == "int64" and _integral([v for row in case["matrix"] for v in row]):
                M = M.astype(np.int64)
            elif mform == "float32":
                M = M.astype(np.float32)
            elif mform == "fortran":
                M = np.asfortranarray(M)
            out = cv.convolve_mapping_matrix(mapping_matrix=M)
            return {"matrix": qmat(np.asarray(out))}
        if kind == "operator":
            mb = np.asarray(mask, dtype=bool)
            bb = np.asarray(bm, dtype=bool)
            support = [(y, x) for y in range(h) for x in range(w) if (not mb[y, x]) or (not bb[y, x])]
            cols = []
            for (y, x) in support:
                e = np.zeros((h, w))
                e[y, x] = 1.0
                out = cv.convolve_image(image=aa.Array2D(values=e, mask=mask),
                                        blurring_image=aa.Array2D(values=e, mask=bm))
                cols.append(qlist(np.asarray(out.slim.array)))
            return {"support": [list(p) for p in support], "columns": cols}
        if kind == "simulate":
            img = aa.Array2D.no_mask(values=_typed(case["image"], (h, w), case.get("image_form", "float")),
                                     pixel_scales=1.0)
            A = np.asarray(img.native.array)
            bg = float(self._background(case))
            sim = aa.SimulatorImaging(exposure_time=float(Fraction(case.get("exposure", "1"))),
                                      background_sky_level=bg, psf=kernel,
                                      subtract_background_sky=bool(case.get("subtract_background", True)),
                                      normalize_psf=bool(case.get("normalize_psf", True)),
                                      add_poisson_noise_to_data=False,
                                      include_poisson_noise_in_noise_map=False, noise_seed=1)
            ds = sim.via_image_from(image=img)
            masked = ds.apply_mask(mask=mask)
            if tuple(masked.data.shape_native) != (h, w):
                return {"err": "padded", "shape": list(masked.data.shape_native)}
            cv2 = masked.convolver
            bm2 = masked.mask.derive_mask.blurring_from(kernel_shape_native=kernel.shape_native)
            model = cv2.convolve_image(image=aa.Array2D(values=A, mask=masked.mask),
                                       blurring_image=aa.Array2D(values=A, mask=bm2))
            resid = np.asarray(masked.data.slim.array) - np.asarray(model.slim.array)
            return {"simulated": qlist(np.asarray(ds.data.native.array).ravel()),
                    "data": qlist(np.asarray(masked.data.slim.array)),
                    "psf": qlist(np.asarray(masked.psf.native.array).ravel()),
                    "model": qlist(np.asarray(model.slim.array)),
                    "residual": qlist(resid)}
        raise ValueError(kind)

    # ------------------------------------------------------------------ model
    def model_requests(self, case, impl_obs):
        kind = case["kind"]
        if kind == "same":
            h, w = case["h"], case["w"]
            mm = [[(y * 3 + x) % 4 == 1 for x in range(w)] for y in range(h)]
            return [{"op": "c03.conv_same", "h": h, "w": w, "kernel": case["kernel"],
                     "image": case["image"], "gather_mask": mask_json(mm)}]
        if kind == "convolve":
            return [{"op": "c03.convolve", "mask": case["mask"], "kernel": case["kernel"],
                     "image": case["image"], "blur": case["blur"]}]
        if kind == "matrix":
            return [{"op": "c03.convolve_matrix", "mask": case["mask"], "kernel": case["kernel"],
                     "matrix": case["matrix"], "ncols": case["ncols"]}]
        if kind == "simulate":
            return [{"op": "c03.simulate_fit", "mask": case["mask"], "kernel": case["kernel"],
                     "image": case["image"], "normalize_psf": bool(case.get("normalize_psf", True)),
                     "background": str(self._background(case)), "exposure": case.get("exposure", "1"),
                     "subtract_background": bool(case.get("subtract_background", True))}]
        if kind == "operator":
            if "err" in impl_obs:
                return [{"op": "c03.convolve", "mask": case["mask"], "kernel": case["kernel"],
                         "image": [], "blur": []}]
            mj = case["mask"]
            h, w = mj["h"], mj["w"]
            reqs = []
            for (y, x) in impl_obs["support"]:
                e = ["0"] * (h * w)
                e[y * w + x] = "1"
                reqs.append({"op": "c03.convolve", "mask": mj, "kernel": case["kernel"], "image": e, "blur": e})
            return reqs
        raise ValueError(kind)

    def model_obs(self, case, responses):
        for r in responses:
            if "err" in r:
                return {"err": r["err"]}
        kind = case["kind"]
        if kind == "same":
            return responses[0]["ok"]
        if kind == "convolve":
            return responses[0]["ok"]
        if kind == "matrix":
            return {"matrix": responses[0]["ok"]}
        if kind == "simulate":
            return responses[0]["ok"]
        if kind == "operator":
            return {"columns": [r["ok"]["blurred"] for r in responses]}
        raise ValueError(kind)

    FAIL_CAP = 40       # see c10.py: bounds the runner's work when a large part of the cases fail
    _fails = 0
    _disagreements = 0

    def compare(self, case, impl_obs, model_obs, cmp):
        d = self._compare(case, impl_obs, model_obs, cmp)
        if d and "corpus_file" not in case:
            if self._disagreements >= self.FAIL_CAP:
                return None
            self._disagreements += 1
        return d

    def _compare(self, case, impl_obs, model_obs, cmp):
        if "err" in impl_obs or "err" in model_obs:
            a = {"err": impl_obs.get("err")} if "err" in impl_obs else impl_obs
            return cmp.diff(a, model_obs)
        kind = case["kind"]
        if kind == "operator":
            return cmp.diff({"columns": impl_obs["columns"]}, model_obs)
        return cmp.diff(impl_obs, model_obs)

    # ------------------------------------------------------------------ oracle (independent of the model)
    @staticmethod
    def _conv_at(full, K, kh, kw, h, w, p):
        """true convolution at p: sum_{i,j} full[p + half - (i,j)] * K[i][j], zero outside the frame"""
        hy, hx = kh // 2, kw // 2
        s = Fraction(0)
        for i in range(kh):
            yy = p[0] + hy - i
            if not (0 <= yy < h):
                continue
            for j in range(kw):
                xx = p[1] + hx - j
                if 0 <= xx < w:
                    s += full[yy][xx] * K[i][j]
        return s

    @staticmethod
    def _kernel_of(case):
        Kj = case["kernel"]
        kh, kw = Kj["h"], Kj["w"]
        v = [Fraction(x) for x in Kj["vals"]]
        return kh, kw, [v[i * kw:(i + 1) * kw] for i in range(kh)]

    @staticmethod
    def _native(vals, h, w):
        v = [Fraction(x) for x in vals]
        return [v[y * w:(y + 1) * w] for y in range(h)]

    def oracle(self, case, obs):
        ok, detail = self._oracle(case, obs)
        if not ok and "_s" not in case and "corpus_file" not in case:
            if self._fails >= self.FAIL_CAP:
                return True, ""
            self._fails += 1
        return ok, detail

    def _oracle(self, case, obs):
        kind = case["kind"]
        kh, kw, K = self._kernel_of(case)
        if kind == "simulate":   # the one PSF of the whole pipeline
            Ke = [Fraction(v) for v in self._effective_kernel(case)["vals"]]
            K = [Ke[i * kw:(i + 1) * kw] for i in range(kh)]
        even = kh % 2 == 0 or kw % 2 == 0
        if kind == "same":
            if even:
                return (obs.get("err") == "even_kernel"), f"even kernel not rejected: {str(obs)[:120]}"
            if "err" in obs:
                return False, f"odd kernel raised {obs}"
            h, w = case["h"], case["w"]
            A = self._native(case["image"], h, w)
            exp = [self._conv_at(A, K, kh, kw, h, w, (y, x)) for y in range(h) for x in range(w)]
            got = [Fraction(v) for v in obs["same"]]
            if got != exp:
                k = next(i for i, (a, b) in enumerate(zip(got, exp)) if a != b)
                return False, f"whole-frame convolution differs from the true convolution at pixel {divmod(k, w)}: {got[k]} vs {exp[k]}"
            mm = [[(y * 3 + x) % 4 == 1 for x in range(w)] for y in range(h)]
            exp2 = [exp[y * w + x] for y in range(h) for x in range(w) if not mm[y][x]]
            if [Fraction(v) for v in obs["same_masked"]] != exp2:
                return False, "convolved_array_with_mask_from is not the whole-frame convolution gathered at the mask"
            return True, ""
        mj = case["mask"]
        h, w = mj["h"], mj["w"]
        m = mask_from_json(mj)
        unm = [(y, x) for y in range(h) for x in range(w) if not m[y, x]]
        if even:
            return (obs.get("err") == "even_kernel"), f"even kernel not rejected: {str(obs)[:120]}"
        hy, hx = kh // 2, kw // 2
        inside = all(hy <= y and y + hy < h and hx <= x and x + hx < w for y, x in unm)
        if not inside:
            # outside the property's quantifier (footprint must stay inside): the documented outcome is the error
            return (obs.get("err") == "footprint_outside"), f"footprint leaves the frame but got {str(obs)[:120]}"
        if "err" in obs:
            return False, f"valid input raised {obs}"
        blurpix = set()
        for (y, x) in unm:
            for yy in range(y - hy, y + hy + 1):
                for xx in range(x - hx, x + hx + 1):
                    if m[yy, xx]:
                        blurpix.add((yy, xx))
        zero = Fraction(0)
        if kind == "convolve":
            A = self._native(case["image"], h, w)
            B = self._native(case["blur"], h, w)
            full = [[A[y][x] if not m[y, x] else (B[y][x] if (y, x) in blurpix else zero) for x in range(w)]
                    for y in range(h)]
            only = [[A[y][x] if not m[y, x] else zero for x in range(w)] for y in range(h)]
            exp = [self._conv_at(full, K, kh, kw, h, w, p) for p in unm]
            got = [Fraction(v) for v in obs["blurred"]]
            if got != exp:
                k = next((i for i, (a, b) in enumerate(zip(got, exp)) if a != b), None)
                return False, (f"convolve_image differs from the true convolution of the combined native image at "
                               f"unmasked pixel {unm[k] if k is not None else '?'}: {got[k] if k is not None else len(got)} "
                               f"vs {exp[k] if k is not None else len(exp)}")
            exp_nb = [self._conv_at(only, K, kh, kw, h, w, p) for p in unm]
            if [Fraction(v) for v in obs["no_blurring"]] != exp_nb:
                return False, "convolve_image_no_blurring differs from the true convolution of the masked image"
            return True, ""
        if kind == "matrix":
            M = [[Fraction(v) for v in row] for row in case["matrix"]]
            got = [[Fraction(v) for v in row] for row in obs["matrix"]]
            ncols = case["ncols"]
            if len(got) != len(unm) or any(len(r) != ncols for r in got):
                return False, "blurred mapping matrix has the wrong shape"
            for c in range(ncols):
                img = [[zero] * w for _ in range(h)]
                for k, (y, x) in enumerate(unm):
                    img[y][x] = M[k][c]
                for k, p in enumerate(unm):
                    e = self._conv_at(img, K, kh, kw, h, w, p)
                    if got[k][c] != e:
                        return False, (f"column {c} of the blurred mapping matrix is not the blurring operator applied "
                                       f"to column {c}: entry {k} is {got[k][c]}, expected {e}")
            return True, ""
        if kind == "operator":
            support = sorted(set(unm) | blurpix)
            if [tuple(p) for p in obs["support"]] != support:
                return False, "mask ∪ blurring mask is not the union of the kernel footprints"
            for sidx, s in enumerate(support):
                col = [Fraction(v) for v in obs["columns"][sidx]]
                for k, p in enumerate(unm):
                    i, j = p[0] - s[0] + hy, p[1] - s[1] + hx
                    e = K[i][j] if (0 <= i < kh and 0 <= j < kw) else zero
                    if col[k] != e:
                        return False, f"operator entry (target {p}, source {s}) is {col[k]}, expected kernel[{i},{j}] = {e}"
            return True, ""
        if kind == "simulate":
            A = self._native(case["image"], h, w)
            exp = [self._conv_at(A, K, kh, kw, h, w, (y, x)) for y in range(h) for x in range(w)]
            sky = Fraction(0) if case.get("subtract_background", True) else Fraction(self._background(case))
            exp = [e + sky for e in exp]
            if [Fraction(v) for v in obs["simulated"]] != exp:
                return False, "noise-free simulated data is not the true whole-frame convolution with the simulator's PSF"
            if [Fraction(v) for v in obs["psf"]] != [v for r in K for v in r]:
                return False, ("the masked dataset's PSF is not the kernel the data were simulated with "
                               "(normalised exactly once iff normalize_psf)")
            if [Fraction(v) for v in obs["data"]] != [exp[y * w + x] for (y, x) in unm]:
                return False, "masked data are not the simulated data gathered at the mask"
            if any(Fraction(v) != sky for v in obs["residual"]):
                return False, f"noise-free simulated image is not fitted with zero residual: {obs['residual'][:6]}"
            return True, ""
        return True, ""

    def nontrivial(self, case, obs):
        vals = [Fraction(v) for v in case["kernel"]["vals"]]
        return sum(1 for v in vals if v != 0) > 1

    def sample_view(self, case):
        return {k: v for k, v in case.items() if not k.startswith("_")}

    _shrink_rounds = 0
    SHRINK_ROUNDS_MAX = 150

    def shrink(self, case):
        self._shrink_rounds += 1
        if self._shrink_rounds > self.SHRINK_ROUNDS_MAX:
            return
        for c in self._shrink(case):
            c["_s"] = 1
            c.pop("corpus_file", None)
            yield c

    def _shrink(self, case):
        kind = case["kind"]
        # simplify values toward 0 / 1
        if kind in ("convolve", "simulate", "same"):
            for key in ("image", "blur"):
                if key in case:
                    vals = case[key]
                    nz = [i for i, v in enumerate(vals) if Fraction(v) != 0]
                    if len(nz) > 1:
                        half = set(nz[: len(nz) // 2])
                        yield {**case, key: ["0" if i in half else v for i, v in enumerate(vals)]}
                        yield {**case, key: [v if (i in half or Fraction(v) == 0) else "0" for i, v in enumerate(vals)]}
                    for i in nz[:12]:
                        if len(nz) > 1:
                            yield {**case, key: ["0" if k == i else v for k, v in enumerate(vals)]}
        if kind == "matrix":
            M = case["matrix"]
            if case["ncols"] > 1:
                for c in range(case["ncols"]):
                    yield {**case, "ncols": case["ncols"] - 1, "matrix": [r[:c] + r[c + 1:] for r in M]}
            nz = [(i, j) for i, r in enumerate(M) for j, v in enumerate(r) if Fraction(v) != 0]
            if len(nz) > 1:
                for (i, j) in nz[:16]:
                    yield {**case, "matrix": [[("0" if (a, b) == (i, j) else v) for b, v in enumerate(r)]
                                              for a, r in enumerate(M)]}
        K = case["kernel"]
        nzk = [i for i, v in enumerate(K["vals"]) if Fraction(v) != 0]
        if len(nzk) > 1:
            for i in nzk[:12]:
                yield {**case, "kernel": {**K, "vals": ["0" if k == i else v for k, v in enumerate(K["vals"])]}}

    def theorems_for(self, case):
        return {
            "convolve": ["C03.convolve_eq_true_convolution", "C03.convolve_no_blurring_eq_true_convolution",
                         "C03.non_interference", "C03.convolver_defined_iff", "C03.even_kernel_rejected"],
            "operator": ["C03.convolve_eq_true_convolution", "C03.convolve_is_linear"],
            "matrix": ["C03.convolve_matrix_columnwise", "C03.convolve_matrix_is_linear"],
            "same": ["C03.whole_frame_agrees"],
            "simulate": ["C03.whole_frame_agrees", "C03.simulated_zero_residual", "C03.pipeline_zero_residual",
                         "C03.pipeline_psf_normalised_once"],
        }.get(case["kind"], ["C03.*"])


CHECK = C03()
