"""C03 — masked PSF blurring equals true 2-D convolution restricted to the mask."""
from __future__ import annotations

import copy
import json
from fractions import Fraction

import numpy as np

import gen
from common import Cmp, PropertyCheck, Skip, load_autoarray, mask_json, mask_from_json, q, qlist, qmat

ODD = (1, 3, 5, 7)


def _bits(mask_2d) -> str:
    return "".join("1" if b else "0" for b in np.asarray(mask_2d, dtype=bool).ravel())


def _fr(x):
    return Fraction(x)


def _integral(vals):
    return all(Fraction(v).denominator == 1 for v in vals)


def _typed(vals, shape, form):
    """the same real numbers in the requested container / dtype"""
    fr = [Fraction(v) for v in vals]
    if form in ("int64", "pyint") and all(v.denominator == 1 and abs(v) < 2 ** 62 for v in fr):
        a = np.array([int(v) for v in fr], dtype=np.int64)
        a = a.reshape(shape) if shape is not None else a
        return a.tolist() if form == "pyint" else a
    a = np.array([float(v) for v in fr], dtype=float)
    a = a.reshape(shape) if shape is not None else a
    if form == "float32":
        with np.errstate(all="ignore"):
            b = a.astype(np.float32)
        # (far decades: float32 cannot hold the numbers — the float64 array is used instead, never a rounded one)
        return b if np.array_equal(b.astype(float), a) else a
    if form == "pyfloat":
        return a.tolist()
    if form == "tuple":
        return tuple(map(tuple, a.tolist())) if a.ndim == 2 else tuple(a.tolist())
    return a


IMAGE_FORMS = ["native_float", "native_float", "native_int64", "native_pyint", "slim_int64", "slim_pyint",
               "native_float32", "slim_float", "structure", "native_pyfloat"]
KERNEL_FORMS = ["nd", "nd", "list", "pyint", "int64", "manual_mask"]

# round 5/6 (R5-C): the same real numbers in other memory layouts / containers / through other constructors.
# The *_X lists are what the ordinary (non-history) streams draw from; histories keep the short lists above
# because they edit the live objects in place (a read-only or aliased buffer cannot be edited).
LAYOUTS = ["fortran", "tview", "strided", "readonly"]
IMAGE_FORMS_X = IMAGE_FORMS + ["native_fortran", "native_tview", "native_strided", "native_readonly",
                               "slim_strided", "slim_readonly", "from_structure", "from_structure_native",
                               "native_float32_fortran", "native_int64_strided"]
KERNEL_FORMS_X = KERNEL_FORMS + ["fortran", "tview", "strided", "readonly", "float32", "slim_shape", "slim_list_shape",
                                 "from_kernel", "from_native", "store_native", "copy", "norm_arg"]
MASK_FORMS_X = ["nd", "nd", "nd", "fortran", "tview", "strided", "readonly", "list", "int", "uint8", "from_mask",
                "from_mask_geom", "invert"]
MATRIX_FORMS_X = ["float", "float", "int64", "float32", "fortran", "tview", "strided", "readonly", "int32_fortran"]
SAME_FORMS_X = ["float", "int64", "pyint", "float32", "fortran", "tview", "strided", "readonly", "native_stored"]


def _layout(a, how):
    """an ndarray equal to `a` (same dtype, same values) in another memory layout"""
    a = np.asarray(a)
    if how == "fortran":
        return np.asfortranarray(a)
    if how == "tview":          # a transposed VIEW of a C-ordered buffer (neither flag set for 2-D non-square)
        return np.ascontiguousarray(a.T).T if a.ndim == 2 else a[::-1][::-1]
    if how == "strided":        # every second element of a larger buffer, junk in between
        big = np.full(tuple(2 * n + 1 for n in a.shape), 77, dtype=a.dtype)
        sl = tuple(slice(1, 2 * n + 1, 2) for n in a.shape)
        big[sl] = a
        return big[sl]
    if how == "readonly":
        b = np.array(a)
        b.flags.writeable = False
        return b
    return np.array(a)


CFG_NBO = ("general", "structures", "native_binned_only")


def _cfg_get():
    from autoconf import conf
    return bool(conf.instance[CFG_NBO[0]][CFG_NBO[1]][CFG_NBO[2]])


def _cfg_set(value):
    from autoconf import conf
    conf.instance[CFG_NBO[0]][CFG_NBO[1]][CFG_NBO[2]] = bool(value)


def _scribble(obj, how):
    """overwrite IN PLACE the buffer behind an array / autoarray structure the API returned or accepted"""
    a = getattr(obj, "_array", obj)
    if not isinstance(a, np.ndarray) or a.size == 0:
        return 0
    try:
        if a.dtype == bool:
            if how == "plus":
                np.logical_not(a, out=a)
            else:
                a[...] = (how == "nan")
        elif a.dtype.kind == "f":
            if how == "nan":
                a[...] = np.nan
            elif how == "plus":
                a += 1.0
            else:
                a *= -3.0
        elif a.dtype.kind in "iu":
            if how == "plus":
                a += 1
            else:
                a[...] = 7
        else:
            return 0
    except Exception:      # read-only buffers and the like: nothing to scribble on
        return 0
    return 1


def _farr(vals, shape=None):
    a = np.array([float(Fraction(v)) for v in vals], dtype=float)
    return a.reshape(shape) if shape is not None else a


def _holds(obj, vals) -> bool:
    """can the array under `obj` hold the real numbers `vals` exactly (in-place edits must not round)?"""
    dt = np.asarray(obj).dtype
    if dt == np.float64:
        return True
    v = np.asarray(vals, dtype=float)
    try:
        return bool(np.all(v.astype(dt).astype(float) == v))
    except Exception:
        return False


def _edit_to(obj, target_native, mask_bool=None):
    """bring a live autoarray structure to the content `target_native` IN PLACE, entry by entry, through the
    library's own `__setitem__` (slim index for slim-stored data, (y, x) for native-stored data)"""
    cur = np.asarray(obj)
    tgt = np.asarray(target_native, dtype=float)
    if cur.ndim == 1:
        t = tgt.ravel() if mask_bool is None else tgt[~mask_bool]
        for k in np.flatnonzero(cur != t):
            obj[int(k)] = t[int(k)]
    else:
        diff = cur != tgt
        if mask_bool is not None:
            diff &= ~mask_bool
        for y, x in np.argwhere(diff):
            obj[int(y), int(x)] = tgt[int(y), int(x)]


def _derived(old, how):
    """an object derived from a live one the way user code derives objects"""
    if how == "copy":
        return old.copy()
    if how == "deepcopy":
        return copy.deepcopy(old)
    if how == "with_new_array":
        return old.with_new_array(np.array(np.asarray(old)))
    if how == "arith":
        return old + 0.0
    if how == "slice":
        return old[:]
    return old


def _decoy_reads(obj, depth=1, skip=("w_tilde",)):
    """read every public property / cached property of `obj` (and, one level down, of the autoarray helper
    objects they return): reads that must not change anything observed afterwards"""
    n = 0
    for name in dir(type(obj)):
        if name.startswith("_") or name in skip:
            continue
        attr = getattr(type(obj), name, None)
        if attr is None or callable(attr) or not hasattr(attr, "__get__"):
            continue
        try:
            v = getattr(obj, name)
        except Exception:
            continue
        n += 1
        if depth and type(v).__module__.startswith("autoarray") and not isinstance(v, type(obj)):
            n += _decoy_reads(v, depth - 1, skip)
    return n


class _Poison:
    """a matrix / image entry that is "non-zero" and raises as soon as it is multiplied: an operation that fails
    part-way through its loop"""

    def __ne__(self, other):
        return True

    def __eq__(self, other):
        return False

    __hash__ = None

    def __mul__(self, other):
        raise RuntimeError("poisoned entry")

    __rmul__ = __mul__


class _Env:
    """Live objects of one history (an ordinary case uses a throw-away, empty one: everything is built new).
    Each getter hands out the object the current step must use: the LIVE one — edited in place through the
    library's own `__setitem__` (numpy for caller-owned matrices) until it holds the step's content —, an object
    derived from it (copy / deepcopy / with_new_array / arithmetic / slice, then edited), or a new one.  Objects
    computed from others (convolver, images on a mask, simulator, datasets) are reused only when the content
    they were built from equals the step's content, so the expectation is always "a fresh object in this state"."""

    def __init__(self, aa):
        self.aa = aa
        self.o = {}
        self.sig = {}
        self.st = {}
        self.seen = []       # every array / structure the API accepted or returned so far (ownership histories)
        self.tracking = False

    def begin(self, st):
        self.st = st
        if st.get("scribble"):
            # ownership history (R5-B): overwrite in place everything the API has accepted or returned so far …
            self.tracking = True
            for obj in self.seen:
                _scribble(obj, st["scribble"])
            self.seen = []
        if st.get("fresh"):
            # … and build this step's world from fresh, equal inputs: no live object is carried over
            self.tracking = True
            self.o, self.sig = {}, {}
        if "cfg" in st:
            _cfg_set(st["cfg"])

    def track(self, *objs):
        if self.tracking:
            self.seen.extend(o for o in objs if o is not None)

    def cfg(self):
        return bool(self.st.get("cfg"))

    def how(self, role):
        if self.st.get("fresh") or role in self.st.get("new", ()):
            return "new"
        return self.st.get("derive", {}).get(role, "reuse")

    def swap(self):
        return bool(self.st.get("swap"))

    # ---- inputs
    def mask(self, m, case=None):
        how, old = self.how("mask"), self.o.get("mask")
        case = case or {}
        gsig = (case.get("mask_form", "nd"), json.dumps(case.get("geom"), sort_keys=True))
        if old is None or how == "new" or tuple(old.shape_native) != tuple(m.shape) or self.sig.get("mask") != gsig:
            obj = C03._mask_obj(self.aa, m, case, self.track)
            self.sig["mask"] = gsig
        else:
            obj = _derived(old, how if how in ("copy", "deepcopy", "with_new_array") else "reuse")
            cur = np.asarray(obj, dtype=bool)
            for y, x in np.argwhere(cur != m):
                obj[int(y), int(x)] = bool(m[y, x])
        self.o["mask"] = obj
        return obj

    def kernel(self, case):
        Kj = case["kernel"]
        shape = (Kj["h"], Kj["w"])
        vals = [float(Fraction(v)) for v in Kj["vals"]]
        how, old = self.how("kernel"), self.o.get("kernel")
        gsig = json.dumps(case.get("geom"), sort_keys=True)
        if old is None or how == "new" or tuple(old.shape_native) != shape or not _holds(old, vals) \
                or self.sig.get("kernel") != gsig:
            obj = C03._kernel_obj(self.aa, case, self.track)
            self.sig["kernel"] = gsig
        else:
            if "scale" in self.st and how == "arith":
                obj = old * float(Fraction(self.st["scale"]))
            else:
                obj = _derived(old, how)
            _edit_to(obj, np.array(vals).reshape(shape))
        self.o["kernel"] = obj
        return obj

    def image(self, role, vals, shape, mask, form, store_native):
        mb = np.array(np.asarray(mask, dtype=bool))
        sig = (_bits(mb), form, bool(store_native))
        fv = [float(Fraction(v)) for v in vals]
        how, old = self.how(role), self.o.get(role)
        ok = old is not None and how != "new" and self.sig.get(role) == sig and _holds(old, fv) \
            and np.array_equal(np.asarray(old.mask, dtype=bool), mb) and (role != "image" or old.mask is mask)
        if not ok:
            obj = C03._image_obj(self.aa, vals, shape, mask, form, store_native, self.track)
        else:
            obj = _derived(old, how)
            _edit_to(obj, np.array(fv).reshape(shape), mb)
        self.o[role], self.sig[role] = obj, sig
        return obj

    def array_no_mask(self, vals, shape, form, role="array", case=None):
        fv = [float(Fraction(v)) for v in vals]
        how, old = self.how(role), self.o.get(role)
        ps, origin = C03._geom(case or {})
        sig = (shape, form, ps, origin)
        ok = old is not None and how != "new" and self.sig.get(role) == sig and _holds(old, fv)
        if not ok:
            if form in LAYOUTS:
                data = _layout(_typed(vals, shape, "nd"), form)
            else:
                data = _typed(vals, shape, "nd" if form == "native_stored" else form)
            self.track(data)
            if form == "native_stored":
                am = self.aa.Mask2D.all_false(shape_native=shape, pixel_scales=ps, origin=origin)
                obj = self.aa.Array2D(values=data, mask=am, store_native=True)
            else:
                obj = self.aa.Array2D.no_mask(values=data, pixel_scales=ps, origin=origin)
        else:
            obj = _derived(old, how)
            _edit_to(obj, np.array(fv).reshape(shape))
        self.o[role], self.sig[role] = obj, sig
        return obj

    def matrix(self, case):
        rows, ncols = len(case["matrix"]), case["ncols"]
        M = np.array([[float(Fraction(v)) for v in row] for row in case["matrix"]], dtype=float)
        M = M.reshape(rows, ncols)
        mform = case.get("matrix_form", "float")
        how, old = self.how("matrix"), self.o.get("matrix")
        if old is not None and how != "new" and old.shape == M.shape and self.sig.get("matrix") == mform \
                and _holds(old, M):
            obj = old.copy(order="K") if how == "copy" else old     # caller-owned: edited through numpy
            for i, j in np.argwhere(np.asarray(obj, dtype=float) != M):
                obj[int(i), int(j)] = M[int(i), int(j)]
        else:
            obj = M
            integral = _integral([v for row in case["matrix"] for v in row]) and (M.size == 0 or np.abs(M).max() < 2 ** 31)
            if mform == "int64" and integral:
                obj = M.astype(np.int64)
            elif mform == "float32":
                with np.errstate(all="ignore"):
                    obj = M.astype(np.float32)
                if not np.array_equal(obj.astype(float), M):
                    obj = M
            elif mform == "fortran":
                obj = np.asfortranarray(M)
            elif mform in LAYOUTS:
                obj = _layout(M, mform)
            elif mform == "int32_fortran" and integral:
                obj = np.asfortranarray(M.astype(np.int32))
            self.track(obj)
        self.o["matrix"], self.sig["matrix"] = obj, mform
        return obj

    # ---- objects computed from the inputs
    def convolver(self, mask, kernel, case):
        sig = (case["mask"]["h"], case["mask"]["w"], case["mask"]["bits"], tuple(case["kernel"]["vals"]),
               case["kernel"]["h"], case["kernel"]["w"])
        old = self.o.get("cv")
        if old is not None and self.how("cv") != "new" and self.sig.get("cv") == sig and old.mask is mask \
                and old.kernel is kernel:
            return old
        self.o.pop("cv", None)
        cv = self.aa.Convolver(mask=mask, kernel=kernel)
        self.o["cv"], self.sig["cv"] = cv, sig
        return cv

    def simulator(self, case, kernel, bg):
        so = case.get("sim_opts") or {}
        sig = (tuple(case["kernel"]["vals"]), case["kernel"]["h"], case["kernel"]["w"], bg,
               case.get("exposure", "1"), bool(case.get("subtract_background", True)),
               bool(case.get("normalize_psf", True)), json.dumps(so, sort_keys=True))
        old = self.o.get("sim")
        if old is not None and self.how("sim") != "new" and self.sig.get("sim") == sig \
                and self.o.get("sim_kernel") is kernel:
            return old
        kw = {"exposure_time": float(Fraction(case.get("exposure", "1"))), "psf": kernel,
              "add_poisson_noise_to_data": False,
              "include_poisson_noise_in_noise_map": bool(so.get("poisson_in_noise_map", False)),
              "noise_seed": int(so.get("noise_seed", 1))}
        # options left at their defaults are NOT passed when the case says so (default vs explicit value)
        if not (so.get("omit_background") and bg == 0):
            kw["background_sky_level"] = bg
        if not (so.get("omit_subtract") and case.get("subtract_background", True)):
            kw["subtract_background_sky"] = bool(case.get("subtract_background", True))
        if not (so.get("omit_normalize") and case.get("normalize_psf", True)):
            kw["normalize_psf"] = bool(case.get("normalize_psf", True))
        if "noise_if_add_noise_false" in so:
            kw["noise_if_add_noise_false"] = float(Fraction(so["noise_if_add_noise_false"]))
        sim = self.aa.SimulatorImaging(**kw)
        self.o["sim"], self.sig["sim"], self.o["sim_kernel"] = sim, sig, kernel
        self.o.pop("ds", None)
        return sim

    def dataset(self, sim, img):
        sig = tuple(np.asarray(img.native.array).ravel().tolist())
        old = self.o.get("ds")
        if old is not None and self.how("ds") != "new" and self.sig.get("ds") == sig and self.o.get("ds_sim") is sim:
            return old
        ds = sim.via_image_from(image=img)
        self.o["ds"], self.sig["ds"], self.o["ds_sim"] = ds, sig, sim
        return ds

    def masked(self, ds, mask):
        # always a new masked dataset: `apply_mask` is the operation under observation
        masked = ds.apply_mask(mask=mask)
        self.o["masked"] = masked
        return masked

    # ---- things done between building the objects and observing
    def before_observe(self, **objs):
        st = self.st
        fault = st.get("fault")
        if fault:
            self._fault(fault, objs)
        if st.get("decoy"):
            for name, obj in objs.items():
                if obj is None or isinstance(obj, np.ndarray):
                    continue
                _decoy_reads(obj, depth=1 if name in ("mask",) else 0)
            mask, kernel = objs.get("mask"), objs.get("kernel")
            if mask is not None:    # sibling derivations on the same mask for other kernel shapes
                for shp in ((1, 1), (1, 3), (3, 1), (3, 3)):
                    try:
                        mask.derive_mask.blurring_from(kernel_shape_native=shp)
                    except Exception:
                        pass

    def _fault(self, fault, objs):
        """make an operation on the live objects raise part-way, swallow the exception, carry on with them"""
        aa = self.aa
        cv, mask, kernel = objs.get("cv"), objs.get("mask"), objs.get("kernel")
        try:
            if fault == "matrix_rows" and cv is not None:
                n = cv.pixels_in_mask
                cv.convolve_mapping_matrix(mapping_matrix=np.full((n + 2, 2), 3.0))
            elif fault == "image_len" and cv is not None:
                n = cv.pixels_in_mask
                cv.convolve_image_no_blurring_interpolation(image=np.full(n + 3, 5.0))
            elif fault == "blurring_len" and cv is not None and objs.get("image") is not None:
                bad = aa.Array2D.no_mask(values=np.full(tuple(mask.shape_native), 7.0), pixel_scales=1.0)
                cv.convolve_image(image=objs["image"], blurring_image=bad)
            elif fault == "even_kernel" and mask is not None:
                aa.Convolver(mask=mask, kernel=aa.Kernel2D.no_mask(values=np.ones((2, 2)), pixel_scales=1.0))
            elif fault == "footprint" and mask is not None and kernel is not None:
                was = bool(np.asarray(mask, dtype=bool)[0, 0])
                mask[0, 0] = False
                try:
                    aa.Convolver(mask=mask, kernel=kernel)
                finally:
                    mask[0, 0] = was
            elif fault == "even_same" and objs.get("array") is not None:
                aa.Kernel2D.no_mask(values=np.ones((2, 2)), pixel_scales=1.0).convolved_array_from(array=objs["array"])
            elif fault == "poisoned_matrix" and cv is not None:
                # same shape as the matrix the step is about to blur; the entry half-way down raises when it is used
                shape = objs["matrix"].shape if objs.get("matrix") is not None else (cv.pixels_in_mask, 2)
                M = np.full(shape, 2.0, dtype=object)
                if M.size:
                    M[shape[0] // 2, 0] = _Poison()
                cv.convolve_mapping_matrix(mapping_matrix=M)
            elif fault == "poisoned_image" and cv is not None:
                v = np.full(cv.pixels_in_mask, 3.0, dtype=object)
                if v.size:
                    v[v.size // 2] = _Poison()
                cv.convolve_image_no_blurring_interpolation(image=v)
            elif fault == "readonly_matrix" and cv is not None:
                M = np.full((cv.pixels_in_mask, 1), 2.0)
                M.flags.writeable = False
                cv.convolve_mapping_matrix(mapping_matrix=M)
        except Exception:
            pass


class C03(PropertyCheck):
    pid = "C03"
    title = "masked PSF convolution"
    nontrivial_rule = (
        "a case is non-trivial when the kernel has more than one non-zero entry or the mask has masked "
        "pixels inside the kernel footprint of an unmasked one; distinct = distinct (kind, mask, kernel, values); "
        "a history counts when it has at least two steps and a non-trivial kernel in one of them"
    )
    # loop ties (DESIGN §12): regenerated from the source on every run, tie theorems proved for all sizes
    loop_tie_modules = ["LoopsConv"]
    modelled_functions = [
        "autoarray/operators/convolver.py:Convolver.__init__",
        "autoarray/operators/convolver.py:Convolver.frame_at_coordinates_jit",
        "autoarray/operators/convolver.py:Convolver.convolve_image",
        "autoarray/operators/convolver.py:Convolver.convolve_jit",
        "autoarray/operators/convolver.py:Convolver.convolve_image_no_blurring",
        "autoarray/operators/convolver.py:Convolver.convolve_no_blurring_jit",
        "autoarray/operators/convolver.py:Convolver.convolve_mapping_matrix",
        "autoarray/operators/convolver.py:Convolver.convolve_matrix_jit",
        "autoarray/mask/mask_2d_util.py:blurring_mask_2d_from",
        "autoarray/mask/mask_2d_util.py:total_pixels_2d_from",
        "autoarray/mask/derive/mask_2d.py:DeriveMask2D.blurring_from",
        "autoarray/structures/arrays/array_2d_util.py:array_2d_slim_from",
        "autoarray/structures/arrays/kernel_2d.py:Kernel2D.__init__",
        "autoarray/structures/arrays/kernel_2d.py:Kernel2D.no_mask",
        "autoarray/structures/arrays/kernel_2d.py:Kernel2D.normalized",
        "autoarray/structures/arrays/kernel_2d.py:Kernel2D.convolved_array_from",
        "autoarray/structures/arrays/kernel_2d.py:Kernel2D.convolved_array_with_mask_from",
        "autoarray/dataset/imaging/simulator.py:SimulatorImaging.__init__",
        "autoarray/dataset/imaging/simulator.py:SimulatorImaging.via_image_from",
        "autoarray/dataset/imaging/dataset.py:Imaging.__init__",
        "autoarray/dataset/imaging/dataset.py:Imaging.apply_mask",
        "autoarray/dataset/imaging/dataset.py:Imaging.convolver",
        "autoarray/dataset/imaging/dataset.py:Imaging.apply_noise_scaling",
        "autoarray/dataset/imaging/dataset.py:Imaging.apply_over_sampling",
        "autoarray/dataset/abstract/dataset.py:AbstractDataset.__init__",
        "autoarray/structures/arrays/uniform_2d.py:Array2D.full",
        "autoarray/structures/arrays/uniform_2d.py:Array2D.no_mask",
        "autoarray/structures/arrays/array_2d_util.py:convert_array_2d",
        "autoarray/mask/mask_2d.py:Mask2D.all_false",
        "autoarray/dataset/preprocess.py:data_eps_with_poisson_noise_added",
    ]
    trusted_extra = [
        "scipy.signal.convolve2d(mode='same') is not modelled: it is a parameter of the pipeline model with the "
        "contract Conv2dSameContract (true convolution, zero outside the frame), checked against the implementation "
        "on every 'same'/'simulate' case",
        "numpy glue of Array2D/Kernel2D construction and `.slim`; the Poisson draw the simulator performs and discards "
        "with the noise switches off; noise covariance / over-sampling / grids of Imaging: correspondence only",
        "IEEE rounding: generated kernels/images are small integers or quarter-dyadics so every product and sum "
        "is an exact double and comparisons are exact",
    ]
    assumptions = [
        "tree carries repair D1 (fixes/D1-convolve-matrix-negative.patch): convolve_matrix_jit skips only exact zeros",
        "tree carries repair D153 (fixes/D153-simulator-psf-normalisation-flag.patch): the simulator and the Imaging "
        "rebuilds forward the PSF-normalisation flag",
    ]

    # ------------------------------------------------------------------ generation helpers
    @staticmethod
    def _mask_with_margins(rng, h, w, my, mx, kind=None):
        ih, iw = h - 2 * my, w - 2 * mx
        m = gen.full(h, w)
        if ih <= 0 or iw <= 0:
            m[h // 2][w // 2] = False
            return m, "single"
        inner, kind = gen.random_mask(rng, ih, iw, kind=kind)
        for y in range(ih):
            for x in range(iw):
                m[y + my][x + mx] = inner[y][x]
        return m, kind

    @staticmethod
    def _values(rng, n, style):
        if style == "int":
            return [Fraction(rng.randint(-9, 9)) for _ in range(n)]
        if style == "sparse":
            return [Fraction(rng.choice([0, 0, 0, 1, -1, 2, -3])) for _ in range(n)]
        if style == "dyadic":
            return [Fraction(rng.randint(-40, 40), 4) for _ in range(n)]
        if style == "neg":
            return [Fraction(-rng.randint(0, 9)) for _ in range(n)]
        if style == "tiny":   # entries far below any plausible sparsity threshold, still exact doubles
            return [Fraction(rng.randint(-8, 8), 2 ** rng.choice([10, 16, 20, 30])) for _ in range(n)]
        return [Fraction(rng.randint(0, 9)) for _ in range(n)]  # "pos"

    @staticmethod
    def _kernel(rng, kh, kw, style):
        if style == "asym_pos":
            vals = [[Fraction(rng.randint(0, 5)) for _ in range(kw)] for _ in range(kh)]
        elif style == "dyadic":
            vals = [[Fraction(rng.randint(-12, 12), 4) for _ in range(kw)] for _ in range(kh)]
        elif style == "ramp":   # all entries distinct: any index slip is visible
            vals = [[Fraction(1 + i * kw + j) for j in range(kw)] for i in range(kh)]
        else:
            vals = gen.kernel_values(rng, kh, kw, signed=True, zeros=True)
        if all(v == 0 for r in vals for v in r):
            vals[kh // 2][kw // 2] = Fraction(1)
        return {"h": kh, "w": kw, "vals": [q(v) for r in vals for v in r]}

    @staticmethod
    def _normalised(K):
        vals = [Fraction(v) for v in K["vals"]]
        S = sum(vals)
        return {**K, "vals": qlist([v / S for v in vals])}

    @classmethod
    def _effective_kernel(cls, case):
        """the PSF the whole simulate -> mask -> fit pipeline must use: normalised exactly once iff asked"""
        return cls._normalised(case["kernel"]) if case.get("normalize_psf", True) else case["kernel"]

    @classmethod
    def _background(cls, case):
        """sky level lifting the (signed) blurred image above zero for the Poisson draw the simulator always
        performs (and discards); an integer, so adding and subtracting it is exact"""
        if "background" in case:
            return Fraction(case["background"])
        A = sum(abs(Fraction(v)) for v in case["image"])
        K = sum(abs(Fraction(v)) for v in cls._effective_kernel(case)["vals"])
        return Fraction(int(A * K) + 1)

    def _frame_for(self, rng, kh, kw, lo, hi):
        h = rng.randint(max(lo, kh + 1), max(hi, kh + 2))
        w = rng.randint(max(lo, kw + 1), max(hi, kw + 2))
        return h, w

    def generate(self, tier, rng):
        quick = tier == "quick"
        hi = 9 if quick else 13
        styles_v = ["int", "sparse", "dyadic", "neg", "pos", "tiny"]
        styles_k = ["signed", "signed", "asym_pos", "dyadic", "ramp"]
        # 0. every kernel shape in {1,3,5,7}^2 once, independent of the seed stream position
        shapes = [(a, b) for a in ODD for b in ODD]
        n_rand = 300 if quick else 2400
        plan = shapes + [(rng.choice(ODD), rng.choice(ODD)) for _ in range(n_rand)]
        for idx, (kh, kw) in enumerate(plan):
            h, w = self._frame_for(rng, kh, kw, 5, hi)
            m, mk = self._mask_with_margins(rng, h, w, kh // 2, kw // 2)
            K = self._kernel(rng, kh, kw, rng.choice(styles_k))
            iform = rng.choice(IMAGE_FORMS_X)
            if "int" in iform:
                # integer-dtype images against fractional kernels: any integer-typed accumulator truncates
                A = self._values(rng, h * w, rng.choice(["int", "sparse", "neg", "pos"]))
                if rng.random() < 0.6:
                    K = self._kernel(rng, kh, kw, "dyadic")
            else:
                A = self._values(rng, h * w, rng.choice(styles_v))
            B = A if rng.random() < 0.5 else self._values(
                rng, h * w, rng.choice(["int", "sparse", "neg", "pos"] if "int" in iform else styles_v))
            kform = rng.choice(KERNEL_FORMS_X)
            K = self._norm_arg({"kernel": K, "kernel_form": kform})["kernel"]
            extra = {"mask_form": rng.choice(MASK_FORMS_X)}
            if rng.random() < 0.25:
                extra["geom"] = rng.choice(self.GEOMS)      # anisotropic pixel scales, origins far from zero
            if rng.random() < 0.2:
                extra["blur_form"] = rng.choice(IMAGE_FORMS if "int" in iform else IMAGE_FORMS_X)
                extra["blur_store_native"] = rng.random() < 0.5
            yield {"tag": f"convolve_{mk}", "kind": "convolve", "mask": mask_json(m), "kernel": K,
                   "image": qlist(A), "blur": qlist(B), "store_native": rng.random() < 0.5,
                   "image_form": iform, "kernel_form": kform,
                   "interpolation_wrapper": rng.random() < 0.3, **extra}
            # mapping matrix on the same convolver class: signed / sparse / fractional / negative-only
            n_un = sum(1 for r in m for b in r if not b)
            ncols = rng.randint(1, 4)
            vs = rng.choice(["int", "sparse", "dyadic", "neg", "sparse", "tiny"])
            M = [self._values(rng, ncols, vs) for _ in range(n_un)]
            yield {"tag": f"matrix_{vs}", "kind": "matrix", "mask": mask_json(m), "kernel": K,
                   "matrix": qmat(M), "ncols": ncols,
                   "matrix_form": rng.choice(MATRIX_FORMS_X), "interp": rng.random() < 0.2,
                   "kernel_form": rng.choice([kform, "nd"]), **extra}
            if idx % 4 == 0:
                A2 = self._values(rng, h * w, rng.choice(styles_v))
                c2 = {"tag": "same", "kind": "same", "h": h, "w": w, "kernel": K, "image": qlist(A2),
                      "image_form": rng.choice(SAME_FORMS_X), "kernel_form": rng.choice([kform, "tview", "list"])}
                if rng.random() < 0.3:
                    c2["native_layout"] = rng.choice(LAYOUTS)
                if "geom" in extra:
                    c2["geom"] = extra["geom"]
                yield c2
        # 0b. degenerate frames and masks: 1xN / Nx1 / 1x1 frames, no unmasked pixel, one, all
        for _ in range(30 if quick else 240):
            shape_kind = rng.choice(["row", "col", "one", "any"])
            if shape_kind == "row":
                kh, kw = 1, rng.choice((1, 3, 5))
                h, w = 1, rng.randint(kw, 9)
            elif shape_kind == "col":
                kh, kw = rng.choice((1, 3, 5)), 1
                h, w = rng.randint(kh, 9), 1
            elif shape_kind == "one":
                kh, kw, h, w = 1, 1, 1, 1
            else:
                kh, kw = rng.choice(ODD), rng.choice(ODD)
                h, w = rng.randint(kh, kh + 4), rng.randint(kw, kw + 4)
            which = rng.choice(["none", "one", "all_inner"])
            m = gen.full(h, w)
            ih, iw = h - 2 * (kh // 2), w - 2 * (kw // 2)
            if which == "one" and ih > 0 and iw > 0:
                m[kh // 2 + rng.randrange(ih)][kw // 2 + rng.randrange(iw)] = False
            elif which == "all_inner":
                for y in range(kh // 2, h - kh // 2):
                    for x in range(kw // 2, w - kw // 2):
                        m[y][x] = False
            K = self._kernel(rng, kh, kw, rng.choice(styles_k))
            A = self._values(rng, h * w, rng.choice(styles_v))
            n_un = sum(1 for r in m for b in r if not b)
            yield {"tag": f"degenerate_{shape_kind}_{which}", "kind": "convolve", "mask": mask_json(m),
                   "kernel": K, "image": qlist(A), "blur": qlist(A), "store_native": rng.random() < 0.5,
                   "image_form": rng.choice(IMAGE_FORMS), "kernel_form": rng.choice(KERNEL_FORMS),
                   "interpolation_wrapper": rng.random() < 0.3}
            ncols = rng.randint(1, 3)
            yield {"tag": f"degenerate_matrix_{which}", "kind": "matrix", "mask": mask_json(m), "kernel": K,
                   "matrix": qmat([self._values(rng, ncols, "int") for _ in range(n_un)]), "ncols": ncols,
                   "matrix_form": rng.choice(["float", "int64"]), "kernel_form": rng.choice(KERNEL_FORMS)}
        # 1. the whole operator on basis images (image and blurring pixels), small frames
        for _ in range(20 if quick else 120):
            kh, kw = rng.choice((1, 3, 5)), rng.choice((1, 3, 5))
            h, w = self._frame_for(rng, kh, kw, 4, 7)
            m, mk = self._mask_with_margins(rng, h, w, kh // 2, kw // 2)
            K = self._kernel(rng, kh, kw, rng.choice(["ramp", "signed"]))
            yield {"tag": f"operator_{mk}", "kind": "operator", "mask": mask_json(m), "kernel": K}
        # 2. simulator -> apply_mask -> convolver: zero residual (kernel entries sum to 1: normalisation exact)
        for _ in range(40 if quick else 300):
            kh, kw = rng.choice((1, 3, 5)), rng.choice((1, 3, 5))
            h, w = self._frame_for(rng, kh, kw, 5, 9)
            m, mk = self._mask_with_margins(rng, h, w, kh // 2, kw // 2)
            K = self._kernel(rng, kh, kw, "signed")
            vals = [Fraction(v) for v in K["vals"]]
            c = (kh // 2) * kw + kw // 2
            normalize = rng.random() < 0.5
            if normalize:
                # entries sum to +-2^k: the (repeated) normalisation of the pipeline is then exact in doubles
                S = rng.choice([1, 2, 4, 8, -2, Fraction(1, 2)])
                vals[c] += S - sum(vals)
            elif rng.random() < 0.25:
                vals[c] -= sum(vals)     # normalize_psf=False admits kernels summing to zero
            K = {**K, "vals": qlist(vals)}
            A = self._values(rng, h * w, rng.choice(["int", "pos", "sparse"]))
            case = {"tag": f"simulate_{'norm' if normalize else 'raw'}_{mk}", "kind": "simulate",
                    "mask": mask_json(m), "kernel": K, "image": qlist(A), "normalize_psf": normalize,
                    "exposure": q(rng.choice([1, 1, 2, 4, Fraction(1, 2)])),
                    "subtract_background": rng.random() < 0.85,
                    "image_form": rng.choice(SAME_FORMS_X),
                    "kernel_form": rng.choice(KERNEL_FORMS_X), "mask_form": rng.choice(MASK_FORMS_X)}
            if rng.random() < 0.3:
                case["geom"] = rng.choice(self.GEOMS)
            if rng.random() < 0.2:
                # "set but falsy" sky level 0.0: needs a non-negative blurred image for the Poisson draw
                case["image"] = qlist(self._values(rng, h * w, "pos"))
                kv = [abs(int(Fraction(v))) for v in K["vals"]]
                if normalize:
                    kv[c] += max(rng.choice([1, 2, 4, 8]) - sum(kv), 0)
                    while sum(kv) & (sum(kv) - 1):     # round the sum up to a power of two
                        kv[c] += 1
                case["kernel"] = {**K, "vals": qlist(kv)}
                case["background"] = "0"
            yield case
        # 3. rejected inputs: even kernel sides; footprints leaving the frame
        for _ in range(12 if quick else 80):
            kh, kw = rng.choice([(2, 3), (3, 2), (4, 4), (2, 1), (1, 4), (6, 3)])
            h, w = rng.randint(7, 9), rng.randint(7, 9)
            m, mk = self._mask_with_margins(rng, h, w, 3, 3)
            K = self._kernel(rng, kh, kw, "signed")
            A = self._values(rng, h * w, "int")
            yield {"tag": "even_kernel", "kind": "convolve", "mask": mask_json(m), "kernel": K,
                   "image": qlist(A), "blur": qlist(A), "store_native": False}
            yield {"tag": "even_kernel_same", "kind": "same", "h": h, "w": w, "kernel": K, "image": qlist(A)}
        for _ in range(15 if quick else 100):
            kh, kw = rng.choice([(3, 1), (1, 3), (3, 3), (5, 3), (3, 5), (5, 5)])
            h, w = self._frame_for(rng, kh, kw, 5, 8)
            short_y = rng.random() < 0.5 and kh > 1
            my = kh // 2 - (1 if short_y else 0)
            mx = kw // 2 - (0 if short_y or kw == 1 else 1)
            m, mk = self._mask_with_margins(rng, h, w, my, mx, kind="all")
            K = self._kernel(rng, kh, kw, "signed")
            A = self._values(rng, h * w, "int")
            yield {"tag": "footprint_outside", "kind": "convolve", "mask": mask_json(m), "kernel": K,
                   "image": qlist(A), "blur": qlist(A), "store_native": False}
        # 4. histories on real reused objects (round 4): read -> in-place edit -> read, near-duplicate twins,
        #    fault then reuse, one object shared by two worlds, decoy reads / sibling calls first
        yield from self._histories(rng, 260 if quick else 2600, 8 if quick else 10)
        # 5. round 5/6 streams (DESIGN §14): decades, nearly-degenerate ingredients, ownership and configuration
        #    histories, option crossing, same-key neighbours, always-on large sizes
        yield from self._siblings(rng, 24 if quick else 200, 8)
        yield from self._decades(rng, 120 if quick else 1200, far=False)
        yield from self._decades(rng, 40 if quick else 400, far=True)
        yield from self._nearly(rng, 108 if quick else 1080)
        yield from self._owner_histories(rng, 60 if quick else 600, 8)
        yield from self._cfg_histories(rng, 45 if quick else 450, 8)
        yield from self._options(rng, quick)
        yield from self._big_cases(rng, tier)

    # ------------------------------------------------------------------ histories (round 4)
    TWIN = Fraction(1, 2 ** 18)      # relative perturbation ~3.8e-6: inside np.allclose's default rtol, >> 1e-9
    HIST_FAULTS = ["matrix_rows", "image_len", "blurring_len", "even_kernel", "footprint", "readonly_matrix",
                   "poisoned_matrix", "poisoned_matrix", "poisoned_image"]

    @classmethod
    def _hist_kernel(cls, rng, kh, kw, style):
        if style == "tiny40":   # entries ~1e-12..1e-11: any two such kernels are `allclose` (atol 1e-8)
            vals = [Fraction(rng.randint(-12, 12), 2 ** 40) for _ in range(kh * kw)]
            if all(v == 0 for v in vals):
                vals[(kh // 2) * kw + kw // 2] = Fraction(3, 2 ** 40)
            return {"h": kh, "w": kw, "vals": qlist(vals)}
        return cls._kernel(rng, kh, kw, style)

    @staticmethod
    def _perturbed(rng, vals, how):
        """near-duplicate of a list of exact values: every entry / one entry scaled by (1 ± 2^-18 … 2^-17)"""
        vals = [Fraction(v) for v in vals]
        eps = C03.TWIN * rng.choice([1, -1, 2, -2])
        if how == "all":
            return [v * (1 + eps) for v in vals], 1 + eps
        nz = [i for i, v in enumerate(vals) if v != 0] or [0]
        picks = set(rng.sample(nz, min(len(nz), rng.randint(1, 3))))
        return [v * (1 + eps) if i in picks else v for i, v in enumerate(vals)], None

    def _hist_cv(self, rng, hi):
        """histories around one Convolver world: (mask, kernel, image, blurring image, mapping matrix)"""
        kh, kw = rng.choice((1, 3, 5)), rng.choice((1, 3, 5))
        roomy = rng.random() < 0.5           # margins that admit a second kernel shape on the same mask
        my, mx = (max(kh // 2, 1), max(kw // 2, 1)) if roomy else (kh // 2, kw // 2)
        h = rng.randint(2 * my + 2, max(hi, 2 * my + 3))
        w = rng.randint(2 * mx + 2, max(hi, 2 * mx + 3))
        m, mk = self._mask_with_margins(rng, h, w, my, mx)
        kstyle = rng.choice(["signed", "dyadic", "ramp", "asym_pos", "tiny40", "tiny40"])
        vstyles = ["int", "sparse", "dyadic", "neg", "pos"]
        vtiny = rng.random() < 0.2     # values ~1e-11: any two such images / matrices are `allclose` (atol 1e-8)

        vunit = Fraction(1, 2 ** 40) if vtiny else Fraction(1, 4)    # in-place edits stay on the world's value grid

        def tiny(n):
            return [Fraction(rng.randint(-12, 12), 2 ** 40) for _ in range(n)]
        W = {"m": [list(r) for r in m], "K": self._hist_kernel(rng, kh, kw, kstyle), "h": h, "w": w,
             "A": tiny(h * w) if vtiny else self._values(rng, h * w, rng.choice(vstyles)),
             "B": tiny(h * w) if vtiny else self._values(rng, h * w, rng.choice(vstyles))}
        W["ncols"] = rng.randint(1, 3)

        def n_un(Wd):
            return sum(1 for r in Wd["m"] for b in r if not b)
        W["M"] = [tiny(W["ncols"]) if vtiny else self._values(rng, W["ncols"], rng.choice(["int", "sparse", "dyadic"]))
                  for _ in range(n_un(W))]
        def fresh_M(Wd):
            return [tiny(Wd["ncols"]) if vtiny else self._values(rng, Wd["ncols"], "int") for _ in range(n_un(Wd))]
        fixed = {"store_native": rng.random() < 0.5,
                 "image_form": rng.choice(["native_float", "slim_float", "native_pyfloat", "structure"]),
                 "kernel_form": rng.choice(KERNEL_FORMS), "matrix_form": rng.choice(["float", "float", "fortran"]),
                 "interpolation_wrapper": rng.random() < 0.2}
        W0 = dict(W)

        def sub(Wd, kind):
            if kind == "matrix":
                return {"kind": "matrix", "mask": mask_json(Wd["m"]), "kernel": Wd["K"], "matrix": qmat(Wd["M"]),
                        "ncols": Wd["ncols"], "matrix_form": fixed["matrix_form"], "kernel_form": fixed["kernel_form"]}
            return {"kind": "convolve", "mask": mask_json(Wd["m"]), "kernel": Wd["K"], "image": qlist(Wd["A"]),
                    "blur": qlist(Wd["B"]), "store_native": fixed["store_native"], "image_form": fixed["image_form"],
                    "kernel_form": fixed["kernel_form"], "interpolation_wrapper": fixed["interpolation_wrapper"]}

        def inner_flip(Wd):
            """flip one pixel whose kernel footprint (for the margins of this history) stays inside the frame"""
            mm = [list(r) for r in Wd["m"]]
            cells = [(y, x) for y in range(my, h - my) for x in range(mx, w - mx)]
            y, x = rng.choice(cells)
            mm[y][x] = not mm[y][x]
            return mm

        steps = [{"case": sub(W, rng.choice(["convolve", "convolve", "matrix"])), "move": "base"}]
        moves = ["edit_image", "edit_blur", "edit_matrix", "edit_mask", "edit_kernel", "twin_kernel", "twin_kernel",
                 "twin_kernel_obj", "twin_image", "twin_matrix", "new_kernel_same_shape", "new_mask_same_shape",
                 "other_kernel_shape", "other_mask", "again", "back", "derived"]
        for _ in range(rng.randint(1, 3)):
            mv = rng.choice(moves)
            if mv.startswith("twin"):   # one near-duplicate per history: every float operation stays exact
                moves = [x for x in moves if not x.startswith("twin")]
            W = dict(W)
            st = {"move": mv}
            kind = rng.choice(["convolve", "convolve", "matrix"])
            if mv in ("edit_image", "edit_blur"):
                key = "A" if mv == "edit_image" else "B"
                vals = list(W[key])
                for k in rng.sample(range(h * w), min(h * w, rng.randint(1, 4))):
                    vals[k] = rng.randint(-40, 40) * vunit
                un = [y * w + x for y in range(h) for x in range(w) if not W["m"][y][x]]
                if un and key == "A":
                    vals[rng.choice(un)] += 12 * vunit
                W[key] = vals
                kind = "convolve"
            elif mv == "edit_matrix":
                M = [list(r) for r in W["M"]]
                if M:
                    for _k in range(rng.randint(1, 3)):
                        M[rng.randrange(len(M))][rng.randrange(W["ncols"])] = rng.randint(-40, 40) * vunit
                W["M"] = M
                kind = "matrix"
            elif mv == "edit_mask":
                W["m"] = inner_flip(W)
                W["M"] = fresh_M(W)
            elif mv == "edit_kernel":
                vals = [Fraction(v) for v in W["K"]["vals"]]
                k = rng.randrange(len(vals))
                unit = Fraction(1, 2 ** 40) if kstyle == "tiny40" else Fraction(1, 4)
                vals[k] += unit * rng.choice([1, -1, 2, 5])
                W["K"] = {**W["K"], "vals": qlist(vals)}
            elif mv in ("twin_kernel", "twin_kernel_obj"):
                if kstyle == "tiny40":      # unrelated values, equal within np.allclose's absolute tolerance
                    W["K"] = self._hist_kernel(rng, W["K"]["h"], W["K"]["w"], "tiny40")
                    st["new"] = ["kernel"]
                else:
                    vals, factor = self._perturbed(rng, W["K"]["vals"], rng.choice(["all", "some"]))
                    W["K"] = {**W["K"], "vals": qlist(vals)}
                    if mv == "twin_kernel_obj" and factor is not None:
                        st["derive"] = {"kernel": "arith"}     # kernel * (1 + eps): a derived Kernel2D
                        st["scale"] = q(factor)
                    else:
                        st["new"] = ["kernel"]
            elif mv == "twin_image":
                if vtiny:
                    W["A"], W["B"] = tiny(h * w), tiny(h * w)
                else:
                    W["A"], _f = self._perturbed(rng, W["A"], "all")
                    W["B"], _f = self._perturbed(rng, W["B"], rng.choice(["all", "some"]))
                st["new"] = ["image", "blur"]
                kind = "convolve"
            elif mv == "twin_matrix":
                if vtiny:
                    flat = tiny(len(W["M"]) * W["ncols"])
                else:
                    flat, _f = self._perturbed(rng, [v for r in W["M"] for v in r], rng.choice(["all", "some"]))
                nc = W["ncols"]
                W["M"] = [flat[i * nc:(i + 1) * nc] for i in range(len(W["M"]))]
                st["new"] = ["matrix"]
                kind = "matrix"
            elif mv == "new_kernel_same_shape":
                W["K"] = self._hist_kernel(rng, W["K"]["h"], W["K"]["w"], kstyle)
                st["new"] = ["kernel"]
            elif mv == "new_mask_same_shape":
                m2, _mk = self._mask_with_margins(rng, h, w, my, mx)
                W["m"] = [list(r) for r in m2]
                W["M"] = fresh_M(W)
                st["new"] = ["mask"]
            elif mv == "other_kernel_shape":
                shapes = [(a, b) for a in (1, 3, 5) for b in (1, 3, 5)
                          if a // 2 <= my and b // 2 <= mx and (a, b) != (W["K"]["h"], W["K"]["w"])]
                if shapes:
                    a, b = rng.choice(shapes)
                    W["K"] = self._hist_kernel(rng, a, b, kstyle)
            elif mv == "other_mask":
                h2 = rng.randint(2 * my + 2, max(hi, 2 * my + 3))
                w2 = rng.randint(2 * mx + 2, max(hi, 2 * mx + 3))
                if (h2, w2) != (h, w):
                    # a different frame for one step (the kernel object is shared), then the history ends
                    m2, _mk = self._mask_with_margins(rng, h2, w2, my, mx)
                    W2 = {**W, "m": [list(r) for r in m2], "h": h2, "w": w2,
                          "A": self._values(rng, h2 * w2, "int"), "B": self._values(rng, h2 * w2, "dyadic")}
                    W2["M"] = [self._values(rng, W["ncols"], "int") for _ in range(n_un(W2))]
                    st["case"] = sub(W2, kind)
                    steps.append(st)
                    steps.append({"case": sub(W, kind), "move": "again"})
                    continue
            elif mv == "back":
                W = dict(W0)
            elif mv == "derived":
                role = rng.choice(["mask", "kernel", "image"])
                how = {"mask": ["copy", "deepcopy", "with_new_array"], "kernel": ["copy", "deepcopy", "arith", "slice"],
                       "image": ["copy", "arith", "slice", "deepcopy"]}[role]
                st["derive"] = {role: rng.choice(how)}
                if rng.random() < 0.5:      # and the derived object is edited as well
                    if role == "mask":
                        W["m"] = inner_flip(W)
                        W["M"] = fresh_M(W)
                    elif role == "image":
                        vals = list(W["A"])
                        vals[rng.randrange(h * w)] = rng.randint(-40, 40) * vunit
                        W["A"] = vals
                        kind = "convolve"
            if rng.random() < 0.3:
                st["decoy"] = True
            if rng.random() < 0.25:
                st["fault"] = rng.choice(self.HIST_FAULTS)
            if rng.random() < 0.3:
                st["swap"] = True
            st["case"] = sub(W, kind)
            steps.append(st)
        return {"tag": "history_cv_" + steps[1]["move"], "kind": "history",
                "family": "cv", "steps": steps}

    def _hist_same(self, rng, hi):
        """histories around Kernel2D.convolved_array_from / convolved_array_with_mask_from"""
        kh, kw = rng.choice((1, 3, 5)), rng.choice((1, 3, 5))
        h, w = self._frame_for(rng, kh, kw, 3, hi)
        kstyle = rng.choice(["signed", "dyadic", "tiny40"])
        vtiny = rng.random() < 0.2

        vunit = Fraction(1, 2 ** 40) if vtiny else Fraction(1, 4)    # in-place edits stay on the world's value grid

        def tiny(n):
            return [Fraction(rng.randint(-12, 12), 2 ** 40) for _ in range(n)]
        W = {"K": self._hist_kernel(rng, kh, kw, kstyle),
             "A": tiny(h * w) if vtiny else self._values(rng, h * w, rng.choice(["int", "dyadic"]))}
        W0 = dict(W)
        fixed = {"image_form": "float", "kernel_form": rng.choice(KERNEL_FORMS)}

        def sub(Wd):
            return {"kind": "same", "h": h, "w": w, "kernel": Wd["K"], "image": qlist(Wd["A"]), **fixed}
        steps = [{"case": sub(W), "move": "base"}]
        moves = ["edit_array", "edit_kernel", "twin_array", "twin_kernel", "new_kernel_same_shape",
                 "again", "back", "derived"]
        for _ in range(rng.randint(1, 3)):
            mv = rng.choice(moves)
            if mv.startswith("twin"):
                moves = [x for x in moves if not x.startswith("twin")]
            W = dict(W)
            st = {"move": mv}
            if mv == "edit_array":
                vals = list(W["A"])
                for k in rng.sample(range(h * w), min(h * w, rng.randint(1, 3))):
                    vals[k] = rng.randint(-40, 40) * vunit
                W["A"] = vals
            elif mv == "edit_kernel":
                vals = [Fraction(v) for v in W["K"]["vals"]]
                unit = Fraction(1, 2 ** 40) if kstyle == "tiny40" else Fraction(1, 4)
                vals[rng.randrange(len(vals))] += unit * rng.choice([1, -1, 3])
                W["K"] = {**W["K"], "vals": qlist(vals)}
            elif mv == "twin_array":
                if vtiny:
                    W["A"] = tiny(h * w)
                else:
                    W["A"], _f = self._perturbed(rng, W["A"], rng.choice(["all", "some"]))
                st["new"] = ["array"]
            elif mv == "twin_kernel":
                if kstyle == "tiny40":
                    W["K"] = self._hist_kernel(rng, kh, kw, "tiny40")
                else:
                    vals, _f = self._perturbed(rng, W["K"]["vals"], rng.choice(["all", "some"]))
                    W["K"] = {**W["K"], "vals": qlist(vals)}
                st["new"] = ["kernel"]
            elif mv == "new_kernel_same_shape":
                W["K"] = self._hist_kernel(rng, kh, kw, kstyle)
                st["new"] = ["kernel"]
            elif mv == "back":
                W = dict(W0)
            elif mv == "derived":
                role = rng.choice(["kernel", "array"])
                st["derive"] = {role: rng.choice(["copy", "deepcopy", "arith", "slice"])}
            if rng.random() < 0.3:
                st["decoy"] = True
            if rng.random() < 0.2:
                st["fault"] = "even_same"
            if rng.random() < 0.4:
                st["swap"] = True
            st["case"] = sub(W)
            steps.append(st)
        return {"tag": "history_same_" + steps[1]["move"], "kind": "history",
                "family": "same", "steps": steps}

    def _hist_sim(self, rng, hi):
        """histories around SimulatorImaging -> Imaging.apply_mask -> .convolver sharing simulator / dataset / mask /
        PSF objects between two worlds"""
        kh, kw = rng.choice((1, 3, 5)), rng.choice((1, 3, 5))
        h, w = self._frame_for(rng, kh, kw, 5, hi)
        my, mx = kh // 2, kw // 2
        m, mk = self._mask_with_margins(rng, h, w, my, mx)
        normalize = rng.random() < 0.5
        c = (kh // 2) * kw + kw // 2

        def kernel():
            K = self._kernel(rng, kh, kw, "signed")
            vals = [Fraction(v) for v in K["vals"]]
            if normalize:
                vals[c] += rng.choice([1, 2, 4, 8, -2, Fraction(1, 2)]) - sum(vals)
            return {**K, "vals": qlist(vals)}

        def twin(K):
            vals = [Fraction(v) for v in K["vals"]]
            nz = [i for i, v in enumerate(vals) if v != 0]
            if normalize:
                # the sum (a power of two) is preserved, so that the normalisation stays exact in doubles
                if len(vals) < 2:
                    return K
                i, j = rng.sample(range(len(vals)), 2)
                d = self.TWIN * rng.choice([1, -1, 2])
                vals[i] += d
                vals[j] -= d
            else:
                vals, _f = self._perturbed(rng, vals, rng.choice(["all", "some"]))
            return {**K, "vals": qlist(vals)}
        W = {"m": [list(r) for r in m], "K": kernel(), "A": self._values(rng, h * w, rng.choice(["int", "pos", "sparse"]))}
        W0 = dict(W)
        fixed = {"normalize_psf": normalize, "exposure": q(rng.choice([1, 1, 2, 4, Fraction(1, 2)])),
                 "subtract_background": rng.random() < 0.85, "image_form": "float",
                 "kernel_form": rng.choice(KERNEL_FORMS)}

        def sub(Wd):
            return {"kind": "simulate", "mask": mask_json(Wd["m"]), "kernel": Wd["K"], "image": qlist(Wd["A"]), **fixed}
        steps = [{"case": sub(W), "move": "base"}]
        moves = ["twin_psf", "twin_psf", "new_psf_same_shape", "edit_mask", "new_mask_same_shape",
                 "new_image", "edit_image", "again", "back", "edit_psf", "edit_psf"]
        for _ in range(rng.randint(1, 2)):
            mv = rng.choice(moves)
            if mv.startswith("twin"):
                moves = [x for x in moves if not x.startswith("twin")]
            W = dict(W)
            st = {"move": mv}
            if mv == "twin_psf":
                W["K"] = twin(W["K"])
                st["new"] = ["kernel"]
            elif mv == "new_psf_same_shape":
                W["K"] = kernel()
                st["new"] = ["kernel"]
            elif mv == "edit_psf":
                # the LIVE PSF object (already normalised once by the simulator / dataset built from it) is edited in
                # place through `__setitem__`: whatever was derived from it before must not survive.  Integer steps
                # moved between two entries: every container holds them, the (power-of-two) sum is preserved
                vals = [Fraction(v) for v in W["K"]["vals"]]
                if len(vals) > 1:
                    i, j = rng.sample(range(len(vals)), 2)
                    d = rng.choice([1, -1, 2, 3])
                    vals[i] += d
                    vals[j] -= d
                elif not normalize:
                    vals[0] += rng.choice([1, 2, -3])
                W["K"] = {**W["K"], "vals": qlist(vals)}
            elif mv == "edit_mask":
                mm = [list(r) for r in W["m"]]
                y, x = rng.randrange(my, h - my), rng.randrange(mx, w - mx)
                mm[y][x] = not mm[y][x]
                W["m"] = mm
            elif mv == "new_mask_same_shape":
                m2, _mk = self._mask_with_margins(rng, h, w, my, mx)
                W["m"] = [list(r) for r in m2]
                st["new"] = ["mask"]
            elif mv == "new_image":
                W["A"] = self._values(rng, h * w, rng.choice(["int", "pos"]))
                st["new"] = ["simimage"]
            elif mv == "edit_image":
                vals = list(W["A"])
                vals[rng.randrange(h * w)] = Fraction(rng.randint(0, 20))
                W["A"] = vals
            elif mv == "back":
                W = dict(W0)
            if rng.random() < 0.3:
                st["decoy"] = True
            st["case"] = sub(W)
            steps.append(st)
        # one sky level for the whole history, so that the simulator object can be shared between the steps
        bg = max(self._background(st["case"]) for st in steps)
        for st in steps:
            st["case"]["background"] = str(bg)
        return {"tag": "history_sim_" + steps[1]["move"], "kind": "history",
                "family": "simulate", "steps": steps}

    def _histories(self, rng, n, hi):
        for k in range(n):
            r = k % 10
            if r < 6:
                yield self._hist_cv(rng, hi)
            elif r < 8:
                yield self._hist_same(rng, hi)
            else:
                yield self._hist_sim(rng, hi)

    # ------------------------------------------------------------------ round 5/6 streams (DESIGN §14)
    GEOMS = [{"ps": ["2", "1/2"], "origin": ["100000", "-30000"]},
             {"ps": ["1/8", "1/8"], "origin": ["-4194304", "4194304"]},
             {"ps": ["3", "3"], "origin": ["0", "0"]},
             {"ps": ["1/1024", "5"], "origin": ["1/2", "-7"]}]

    def _plain(self, rng, kind, hi=8, sides=(1, 3, 5), vstyle=None, kstyle=None):
        """one ordinary, exactly representable world of the given kind (small integers / quarter dyadics), default
        containers; the round-5/6 streams transform it"""
        kh, kw = rng.choice(sides), rng.choice(sides)
        h, w = self._frame_for(rng, kh, kw, 4, hi)
        m, _mk = self._mask_with_margins(rng, h, w, kh // 2, kw // 2)
        K = self._kernel(rng, kh, kw, kstyle or rng.choice(["signed", "dyadic", "ramp", "asym_pos"]))
        vs = vstyle or rng.choice(["int", "sparse", "dyadic", "neg", "pos"])
        if kind == "convolve":
            A = self._values(rng, h * w, vs)
            B = A if rng.random() < 0.4 else self._values(rng, h * w, vs)
            return {"kind": "convolve", "mask": mask_json(m), "kernel": K, "image": qlist(A), "blur": qlist(B),
                    "store_native": rng.random() < 0.5, "image_form": "native_float", "kernel_form": "nd",
                    "interpolation_wrapper": rng.random() < 0.3}
        if kind == "matrix":
            n_un = sum(1 for r in m for b in r if not b)
            ncols = rng.randint(1, 3)
            return {"kind": "matrix", "mask": mask_json(m), "kernel": K, "ncols": ncols,
                    "matrix": qmat([self._values(rng, ncols, vs) for _ in range(n_un)]),
                    "matrix_form": "float", "kernel_form": "nd"}
        if kind == "same":
            return {"kind": "same", "h": h, "w": w, "kernel": K, "image": qlist(self._values(rng, h * w, vs)),
                    "image_form": "float", "kernel_form": "nd"}
        if kind == "simulate":
            K = self._kernel(rng, kh, kw, "signed")
            vals = [Fraction(v) for v in K["vals"]]
            c = (kh // 2) * kw + kw // 2
            normalize = rng.random() < 0.5
            if normalize:
                vals[c] += rng.choice([1, 2, 4, 8, -2, Fraction(1, 2)]) - sum(vals)
            A = self._values(rng, h * w, rng.choice(["int", "pos", "sparse"]))
            return {"kind": "simulate", "mask": mask_json(m), "kernel": {**K, "vals": qlist(vals)}, "image": qlist(A),
                    "normalize_psf": normalize, "exposure": q(rng.choice([1, 1, 2, 4, Fraction(1, 2)])),
                    "subtract_background": rng.random() < 0.85, "image_form": "float", "kernel_form": "nd"}
        raise ValueError(kind)

    @staticmethod
    def _norm_arg(case):
        """kernel_form "norm_arg" (the constructors' own `normalize=True`) needs entries summing to one: move the
        centre entry (plain worlds only — a scaled / nearly-degenerate kernel keeps its values and its default form)"""
        if case.get("kernel_form") != "norm_arg":
            return case
        K = case["kernel"]
        vals = [Fraction(v) for v in K["vals"]]
        if K["h"] % 2 == 0 or K["w"] % 2 == 0 or any(v.denominator > 8 or abs(v) > 64 for v in vals):
            return case
        if case.get("kind") == "simulate" and not C03._is_pow2(sum(vals)):
            return case
        if case.get("kind") == "simulate":
            return case     # (its kernel sum is part of the world: used as is when it happens to be one)
        vals[(K["h"] // 2) * K["w"] + K["w"] // 2] += 1 - sum(vals)
        return {**case, "kernel": {**K, "vals": qlist(vals)}}

    @staticmethod
    def _is_pow2(x):
        """x = ±2^j for an integer j (normalising by it is exact in doubles)"""
        x = abs(Fraction(x))
        if x == 0:
            return False
        n, d = x.numerator, x.denominator
        return (n == 1 and d & (d - 1) == 0) or (d == 1 and n & (n - 1) == 0)

    @staticmethod
    def _scale_case(case, ka, kb):
        """the same world with the kernel multiplied by 2^ka and every image / blurring image / matrix by 2^kb
        (powers of two: every double operation stays exact, results scale by 2^(ka+kb))"""
        fa, fb = Fraction(2) ** ka, Fraction(2) ** kb
        c = dict(case)
        c["kernel"] = {**case["kernel"], "vals": qlist([Fraction(v) * fa for v in case["kernel"]["vals"]])}
        for key in ("image", "blur"):
            if key in case:
                c[key] = qlist([Fraction(v) * fb for v in case[key]])
        if "matrix" in case:
            c["matrix"] = qmat([[Fraction(v) * fb for v in row] for row in case["matrix"]])
        return c

    def _vary_forms(self, rng, case, p=0.6):
        """equal-valued inputs through other containers / dtypes / layouts / constructors / geometry (R5-C)"""
        c = dict(case)
        if rng.random() > p:
            return c
        kind = c["kind"]
        c["kernel_form"] = rng.choice(KERNEL_FORMS_X)
        if rng.random() < 0.35:
            c["geom"] = rng.choice(self.GEOMS)
        if kind != "same":
            c["mask_form"] = rng.choice(MASK_FORMS_X)
        if kind == "convolve":
            c["image_form"] = rng.choice(IMAGE_FORMS_X)
            if rng.random() < 0.3:      # image and blurring image in different containers / storage
                c["blur_form"] = rng.choice(IMAGE_FORMS_X)
                c["blur_store_native"] = rng.random() < 0.5
        elif kind == "matrix":
            c["matrix_form"] = rng.choice(MATRIX_FORMS_X)
            c["interp"] = rng.random() < 0.3
        elif kind == "same":
            c["image_form"] = rng.choice(SAME_FORMS_X)
            if rng.random() < 0.4:
                c["native_layout"] = rng.choice(LAYOUTS)
        elif kind == "simulate":
            c["image_form"] = rng.choice(SAME_FORMS_X)
        return c

    def _decades(self, rng, n, far):
        """R5-A / R5-E: ordinary worlds with the whole world or ONE ingredient scaled by 2^k.  near: |k| <= 45
        (1e±13: every absolute tolerance of `allclose`/`isclose` swallows or ignores the world); far: out to
        2^±480 per ingredient with the products kept inside the normal double range"""
        for i in range(n):
            kind = ("convolve", "matrix", "same", "simulate")[i % 4]
            base = self._plain(rng, kind, hi=7 if far else 8)
            mode = rng.choice(["world", "kernel", "values"])
            if far:
                k = rng.choice([-1, 1]) * rng.randint(100, 480)
                k2 = rng.choice([-1, 1]) * rng.randint(100, 400)
                ka, kb = {"world": (k, k if abs(2 * k) <= 900 else -k // 2), "kernel": (k, 0),
                          "values": (0, k)}[mode]
                if mode == "world" and rng.random() < 0.5 and abs(k + k2) <= 900:
                    ka, kb = k, k2
            else:
                k = rng.choice([-1, 1]) * rng.choice([rng.randint(1, 45), rng.randint(30, 45)])
                ka, kb = {"world": (k, k), "kernel": (k, 0), "values": (0, k)}[mode]
            if kind == "simulate":
                # Poisson draw of the (discarded) noise realisation: counts must stay below ~2^62
                # (upwards only; a normalised PSF may carry any factor, it is divided out: up to 2^±990)
                norm = base["normalize_psf"]
                if far and norm:
                    ka = rng.choice([-1, 1]) * rng.randint(100, 990)
                    kb = max(-400, min(kb, 19))
                elif far:
                    ka, kb = max(-480, min(ka, 19)), max(-400, min(kb, 19))
                else:
                    ka = max(-60, min(ka, 60 if norm else 19))
                    kb = max(-60, min(kb, 19))
                bg0 = self._background(base)
                c = self._scale_case(base, ka, kb)
                c["background"] = q(bg0 * Fraction(2) ** (kb if norm else ka + kb))
            else:
                c = self._scale_case(base, ka, kb)
            c = self._vary_forms(rng, c, p=0.4)
            c["tag"] = ("far_" if far else "decade_") + kind + "_" + mode
            c["decade"] = [ka, kb]
            yield c

    @staticmethod
    def _near(rng, n, r, c=None, same_sign=True):
        """n values c·(1 + e·2^-r), e in -8..8 not all equal: nearly uniform (relative spread 2^-r·16), exact doubles"""
        c = c if c is not None else rng.choice([1, 2, 3, 5, 7, 9, -3, -6])
        es = [rng.randint(-8, 8) for _ in range(n)]
        if n > 1 and len(set(es)) == 1:
            es[0] += 1
        return [Fraction(c) * (1 + Fraction(e, 2 ** r)) for e in es]

    def _nearly(self, rng, n):
        """R5-A: nearly-uniform / nearly-equal / nearly-zero / nearly-delta / nearly-symmetric / nearly-normalised
        ingredients (relative difference 2^-20 … 2^-32: far outside the property's 1e-9, inside `allclose`'s default
        rtol), the other ingredients plain integers so that every double operation stays exact; the near ingredient
        at several decades"""
        recipes = ["uniform_image", "uniform_image", "uniform_kernel", "delta_kernel", "zero_blur", "equal_blur",
                   "zero_matrix", "equal_columns", "symmetric_kernel", "same_uniform_image", "same_uniform_kernel",
                   "same_delta_kernel", "same_symmetric_kernel", "sim_uniform_image", "sim_normalised", "sim_normalised", "zero_image",
                   "identity_matrix"]
        for i in range(n):
            rec = recipes[i % len(recipes)]
            r = rng.choice([20, 22, 24, 27, 30, 32])
            dec = rng.choice([-45, -30, -15, 0, 0, 15, 30, 45])
            f = Fraction(2) ** dec
            ikernel = rng.choice(["signed", "ramp", "asym_pos"])
            if rec.startswith("sim_"):
                base = self._plain(rng, "simulate", hi=8)
                h, w = base["mask"]["h"], base["mask"]["w"]
                if rec == "sim_uniform_image":
                    # (the sky level, an integer up to ~2^18, is added to and subtracted from the blurred image:
                    #  2^-24 keeps that exact)
                    base["image"] = qlist(self._near(rng, h * w, rng.choice([20, 22, 24]), c=rng.choice([1, 3, 5, 9])))
                    c = dict(base)
                else:
                    # PSF entries summing to 1 ± 2^-r ("already normalised" within isclose) with normalize_psf=True:
                    # the normalisation is inexact in doubles -> the only stream compared with the 1e-9 tolerance
                    vals = [Fraction(v) for v in base["kernel"]["vals"]]
                    kh, kw = base["kernel"]["h"], base["kernel"]["w"]
                    vals = [Fraction(int(v), 8) for v in vals]
                    vals[(kh // 2) * kw + kw // 2] += 1 + rng.choice([1, -1, 3]) * Fraction(1, 2 ** r) - sum(vals)
                    base["kernel"] = {**base["kernel"], "vals": qlist(vals)}
                    base["normalize_psf"] = True
                    base["image"] = qlist(self._values(rng, h * w, "pos"))
                    base["tol"] = True
                    base["exposure"] = "1"
                    c = dict(base)
                c.pop("background", None)
                c["tag"] = "near_" + rec
                yield self._vary_forms(rng, c, p=0.3)
                continue
            kind = "same" if rec.startswith("same_") else ("matrix" if "matrix" in rec or "columns" in rec else "convolve")
            base = self._plain(rng, kind, hi=8, vstyle=rng.choice(["int", "pos", "neg"]), kstyle=ikernel)
            kh, kw = base["kernel"]["h"], base["kernel"]["w"]
            cen = (kh // 2) * kw + kw // 2
            nA = len(base["image"]) if "image" in base else 0
            what = rec[5:] if rec.startswith("same_") else rec
            if what == "uniform_image":
                base["image"] = qlist([v * f for v in self._near(rng, nA, r)])
                if "blur" in base:
                    base["blur"] = base["image"] if rng.random() < 0.5 else qlist([v * f for v in self._near(rng, nA, r)])
            elif what == "zero_image":
                base["image"] = qlist([Fraction(rng.randint(-8, 8), 2 ** r) * f for _ in range(nA)])
                if "blur" in base:      # (same magnitude: a sum mixing 2^-77 with integers would round)
                    base["blur"] = base["image"] if rng.random() < 0.5 else \
                        qlist([Fraction(rng.randint(-8, 8), 2 ** r) * f for _ in range(nA)])
            elif what == "uniform_kernel":
                base["kernel"] = {**base["kernel"], "vals": qlist([v * f for v in self._near(rng, kh * kw, r)])}
            elif what == "delta_kernel":
                vals = [Fraction(rng.randint(-8, 8), 2 ** r) for _ in range(kh * kw)]
                vals[cen] = Fraction(rng.choice([1, 1, 2, -1]))
                if rng.random() < 0.3:
                    vals[cen] += Fraction(rng.choice([1, -1]), 2 ** r)
                base["kernel"] = {**base["kernel"], "vals": qlist([v * f for v in vals])}
            elif what == "symmetric_kernel":
                # symmetric under the flip up to one entry off by 2^-r: "correlation = convolution" shortcuts
                vals = [Fraction(rng.randint(-6, 6)) for _ in range(kh * kw)]
                for k in range(kh * kw):
                    vals[kh * kw - 1 - k] = vals[k]
                if kh * kw > 1:
                    k = rng.randrange(kh * kw // 2)
                    vals[k] = (vals[k] or Fraction(1)) * (1 + Fraction(rng.choice([1, -1, 5]), 2 ** r))
                    if vals[kh * kw - 1 - k] == 0:
                        vals[kh * kw - 1 - k] = Fraction(1)
                base["kernel"] = {**base["kernel"], "vals": qlist([v * f for v in vals])}
            elif what == "zero_blur":
                base["blur"] = qlist([Fraction(rng.randint(-8, 8), 2 ** r) * f for _ in range(nA)])
                base["image"] = qlist([Fraction(v) * f for v in base["image"]])
            elif what == "equal_blur":
                base["blur"] = qlist([Fraction(v) * (1 + Fraction(rng.randint(-8, 8), 2 ** r)) for v in base["image"]])
            elif what in ("zero_matrix", "equal_columns", "identity_matrix"):
                rows = len(base["matrix"])
                if what == "zero_matrix":
                    # entries that are exactly zero, tiny (below any plausible sparsity threshold) and ordinary
                    ncols = base["ncols"]
                    M = [[rng.choice([Fraction(0), Fraction(rng.randint(-8, 8), 2 ** rng.choice([r, 34])),
                                      Fraction(rng.randint(-9, 9))]) * f for _ in range(ncols)] for _ in range(rows)]
                elif what == "equal_columns":
                    col = [Fraction(rng.randint(-9, 9)) for _ in range(rows)]
                    ncols = rng.randint(2, 3)
                    M = [[v * (1 + Fraction(rng.randint(-8, 8) if cc else 0, 2 ** r)) * f for cc in range(ncols)]
                         for v in col]
                else:
                    # nearly the identity (one pixel per column): the blurred matrix is nearly the operator itself
                    ncols = max(1, rows)
                    M = [[(Fraction(1 if a == b else 0) + Fraction(rng.randint(-8, 8), 2 ** r)
                           * (1 if rng.random() < 0.3 else 0)) * f for b in range(ncols)] for a in range(rows)]
                base["matrix"], base["ncols"] = qmat(M), ncols
            c = self._vary_forms(rng, base, p=0.3)
            c["tag"] = "near_" + rec
            c["decade"] = [dec, r]
            yield c

    def _owner_histories(self, rng, n, hi):
        """R5-B ownership histories: observe -> overwrite IN PLACE every array / structure the API accepted or
        returned (inputs, masks, kernels, images, frame tables, blurring masks, outputs, datasets) -> rebuild the
        same world from fresh, equal inputs -> observe; three rounds (some: a sibling world in the middle).  Every
        round is compared with the model / oracle value of a fresh world."""
        for i in range(n):
            kind = ("convolve", "matrix", "same", "simulate", "convolve", "matrix")[i % 6]
            base = self._vary_forms(rng, self._plain(rng, kind, hi=hi), p=0.5)
            variant = rng.choice(["same3", "same3", "same3", "sibling_mid", "kinds"])
            cases = [base, base, base]
            if variant == "sibling_mid":
                # the same key (mask, shapes) with other kernel values in the middle
                sib = dict(base)
                kv = [Fraction(v) for v in base["kernel"]["vals"]]
                if kind == "simulate" and base["normalize_psf"] and len(kv) > 1:
                    a, b = rng.sample(range(len(kv)), 2)
                    kv[a] += 1
                    kv[b] -= 1
                else:
                    kv[rng.randrange(len(kv))] += rng.choice([1, -2, Fraction(1, 2)])
                if kind == "simulate" and not sum(kv) and base["normalize_psf"]:
                    kv = [Fraction(v) for v in base["kernel"]["vals"]]
                sib["kernel"] = {**base["kernel"], "vals": qlist(kv)}
                if kind == "simulate":
                    bgm = max(self._background(base), self._background(sib))
                    base = {**base, "background": q(bgm)}
                    sib["background"] = q(bgm)
                cases = [base, sib, base]
            elif variant == "kinds" and kind in ("convolve", "matrix"):
                h, w = base["mask"]["h"], base["mask"]["w"]
                m = mask_from_json(base["mask"])
                n_un = int((~m).sum())
                if kind == "convolve":
                    nc = rng.randint(1, 2)
                    o2 = {"kind": "matrix", "mask": base["mask"], "kernel": base["kernel"], "ncols": nc,
                          "matrix": qmat([self._values(rng, nc, "int") for _ in range(n_un)]),
                          "matrix_form": rng.choice(MATRIX_FORMS_X), "kernel_form": base["kernel_form"]}
                else:
                    A = self._values(rng, h * w, "int")
                    o2 = {"kind": "convolve", "mask": base["mask"], "kernel": base["kernel"], "image": qlist(A),
                          "blur": qlist(A), "store_native": rng.random() < 0.5, "image_form": "native_float",
                          "kernel_form": base["kernel_form"]}
                for key in ("geom", "mask_form"):
                    if key in base:
                        o2[key] = base[key]
                cases = [base, o2, base]
            steps = []
            for k, c in enumerate(cases):
                st = {"case": c, "move": f"round{k + 1}", "fresh": True}
                if k:
                    st["scribble"] = rng.choice(["nan", "plus", "times"])
                    st["move"] += "_after_" + st["scribble"]
                steps.append(st)
            yield {"tag": f"owner_{kind}_{variant}", "kind": "history", "family": "owner", "steps": steps}

    def _cfg_histories(self, rng, n, hi):
        """R5-D configuration histories: `general.structures.native_binned_only` — the one configuration value the
        anchored code reads (Array2D.__init__, hence every image / kernel / dataset array) — flipped BETWEEN calls,
        on reused and on fresh objects.  While it is set there is no slim storage, so the steps run under it are the
        entry points that do not need one (whole-frame convolution, mapping-matrix blurring, the raw-array wrapper),
        read back through `.native`; the steps after it is cleared use objects built while it was set."""
        for i in range(n):
            kind = ("same", "matrix", "convolve")[i % 3]
            base = self._plain(rng, "matrix" if kind == "convolve" else kind, hi=hi)
            base["kernel_form"] = rng.choice(KERNEL_FORMS)
            if base["kind"] == "matrix":
                base["interp"] = True
            steps = []
            pattern = rng.choice([[False, True, False], [True, False], [True, True, False], [False, True, True, False],
                                  [True, False, True]])
            m = mask_from_json(base["mask"]) if "mask" in base else None
            for k, flag in enumerate(pattern):
                c = dict(base)
                if kind == "convolve" and not flag:
                    # with the flag cleared: the Array2D entry points on the SAME mask / kernel / convolver objects
                    h, w = base["mask"]["h"], base["mask"]["w"]
                    A = self._values(rng, h * w, rng.choice(["int", "dyadic"]))
                    c = {"kind": "convolve", "mask": base["mask"], "kernel": base["kernel"], "image": qlist(A),
                         "blur": qlist(self._values(rng, h * w, "int")), "store_native": rng.random() < 0.5,
                         "image_form": rng.choice(["native_float", "slim_float", "structure"]),
                         "kernel_form": base["kernel_form"], "interpolation_wrapper": rng.random() < 0.3}
                elif k and rng.random() < 0.5:
                    # new values on the live objects (in-place edits) / new objects
                    if c["kind"] == "same":
                        c["image"] = qlist(self._values(rng, len(base["image"]), "int"))
                    else:
                        c["matrix"] = qmat([self._values(rng, base["ncols"], "int") for _ in base["matrix"]])
                st = {"case": c, "move": f"cfg_{'on' if flag else 'off'}", "cfg": bool(flag)}
                r = rng.random()
                if r < 0.25:
                    st["fresh"] = True
                elif r < 0.45:
                    st["new"] = [rng.choice(["kernel", "mask", "array", "matrix"])]
                if not flag and rng.random() < 0.3:
                    st["decoy"] = True
                steps.append(st)
            yield {"tag": f"cfg_{kind}_" + "".join("T" if f else "F" for f in pattern), "kind": "history",
                   "family": "cfg", "steps": steps}

    # option menus: parameter name -> non-default values (set-but-falsy values included).  The names are checked
    # against the live signatures (`inspect.signature`), so an option that disappears is dropped and a NEW option
    # shows up in the evidence histogram as `opts_unknown_<name>` (nothing can be asserted about it).
    SIM_MENU = {"exposure_time": ["1/2", "4"], "background_sky_level": ["0"], "subtract_background_sky": [False],
                "normalize_psf": [False], "include_poisson_noise_in_noise_map": [True],
                "noise_if_add_noise_false": ["1/1048576", "8"], "noise_seed": [-1, 0, 2147483647]}
    IMAGING_MENU = {"use_normalized_psf": ["omit"], "check_noise_map": [False, True],
                    "noise_covariance_matrix": ["eye"], "over_sampling": ["explicit"], "pad_for_convolver": [False]}
    CHAIN_MENU = {"chain": [["over", "mask"], ["mask", "over"], ["over_explicit", "mask"], ["noise_scaling", "mask"],
                            ["remask", "mask"], ["mask", "remask", "mask"], ["rewrap", "mask"],
                            ["rewrap", "over", "mask"], ["rewrap", "noise_scaling", "remask", "mask", "over"]]}

    def _option_space(self):
        import inspect
        aa = load_autoarray()
        out, unknown = [], []
        handled = {"self", "psf", "add_poisson_noise_to_data", "data", "noise_map"}
        for cls, menu, grp in ((aa.SimulatorImaging, self.SIM_MENU, "sim"), (aa.Imaging, self.IMAGING_MENU, "imaging")):
            names = [n for n in inspect.signature(cls.__init__).parameters if n not in handled]
            for name in names:
                if name in menu:
                    out += [(grp, name, v) for v in menu[name]]
                else:
                    unknown.append(name)
        out += [("chain", "chain", v) for v in self.CHAIN_MENU["chain"]]
        return out, unknown

    def _apply_option(self, rng, case, grp, name, val):
        """set one option on a simulate case (keeping the world exactly representable)"""
        so = dict(case.get("sim_opts") or {})
        ro = dict(case.get("rewrap_opts") or {})
        if grp == "sim":
            if name == "exposure_time":
                case["exposure"] = val
            elif name == "background_sky_level":
                # sky level 0.0 ("set but falsy"): the blurred image itself must be non-negative for the Poisson draw
                h, w = case["mask"]["h"], case["mask"]["w"]
                case["image"] = qlist(self._values(rng, h * w, "pos"))
                kv = [abs(int(Fraction(v))) for v in case["kernel"]["vals"]]
                kh, kw = case["kernel"]["h"], case["kernel"]["w"]
                cen = (kh // 2) * kw + kw // 2
                if sum(kv) == 0:
                    kv[cen] = 1
                while sum(kv) & (sum(kv) - 1):     # power-of-two sum: normalisation exact either way
                    kv[cen] += 1
                case["kernel"] = {**case["kernel"], "vals": qlist(kv)}
                case["background"] = "0"
            elif name == "subtract_background_sky":
                case["subtract_background"] = bool(val)
            elif name == "normalize_psf":
                case["normalize_psf"] = bool(val)
            elif name == "include_poisson_noise_in_noise_map":
                so["poisson_in_noise_map"] = bool(val)
            elif name == "noise_if_add_noise_false":
                so["noise_if_add_noise_false"] = val
            elif name == "noise_seed":
                so["noise_seed"] = int(val)
        elif grp == "imaging":
            chain = list(case.get("chain") or ["mask"])
            if "rewrap" not in chain:
                chain = ["rewrap"] + chain
            case["chain"] = chain
            if name == "use_normalized_psf":
                ro["omit_flag"] = True      # left to the constructor default (only when the default is what is meant)
            elif name == "check_noise_map":
                ro["check_noise_map"] = bool(val)
            elif name == "noise_covariance_matrix":
                ro["covariance"] = True
            elif name == "over_sampling":
                ro["over_sampling"] = True
            elif name == "pad_for_convolver":
                ro["pad_for_convolver"] = bool(val)
        else:
            cur = case.get("chain")
            case["chain"] = list(val) if not cur or cur == ["rewrap", "mask"] or "rewrap" not in cur else \
                (["rewrap"] + [o for o in val if o != "rewrap"])
        if so:
            case["sim_opts"] = so
        if ro:
            case["rewrap_opts"] = ro

    def _finish_opts(self, case):
        """constraints between options: a Poisson noise map must be positive where the dataset is re-checked"""
        so = case.get("sim_opts") or {}
        if so.get("poisson_in_noise_map"):
            # noise map = sqrt(Poisson draw): keep the counts far from zero (P(0 | lambda >= 50) < 2e-22)
            bg = self._background({k: v for k, v in case.items() if k != "background"})
            if "background" in case and Fraction(case["background"]) == 0:
                case["sim_opts"] = {k: v for k, v in so.items() if k != "poisson_in_noise_map"}
            else:
                case["background"] = q(bg + 128)
        if so.get("omit_background") and Fraction(case.get("background", "1")) != 0:
            so.pop("omit_background")
        return case

    def _options(self, rng, quick):
        """R5-F: every pair of options of SimulatorImaging / Imaging (introspected) / dataset-operation chains,
        each non-default value of one with each non-default value of the other, plus every single option; omitted
        (default) vs explicitly passed values"""
        space, unknown = self._option_space()
        for name in unknown:
            yield {"tag": f"opts_unknown_{name}", **self._plain(rng, "simulate", hi=7)}
        singles = list(space)
        pairs = [(a, b) for i, a in enumerate(space) for b in space[i + 1:] if (a[0], a[1]) != (b[0], b[1])]
        rng.shuffle(pairs)
        if quick:
            # every value pair is visited over seeds; every run sees every single value, every pair of option NAMES
            # and every chain x {normalize_psf=False}
            seen, keep = set(), []
            for a, b in pairs:
                key = (a[1], b[1])
                force = {a[1], b[1]} == {"chain", "normalize_psf"}
                if key in seen and not force:
                    continue
                seen.add(key)
                keep.append((a, b))
            pairs = keep
        for combo in [(a,) for a in singles] + pairs:
            case = self._plain(rng, "simulate", hi=7)
            case["normalize_psf"] = True
            if not self._is_pow2(sum(Fraction(v) for v in case["kernel"]["vals"])):
                # power-of-two sum so that either normalisation setting is exact
                kv = [Fraction(v) for v in case["kernel"]["vals"]]
                cen = (case["kernel"]["h"] // 2) * case["kernel"]["w"] + case["kernel"]["w"] // 2
                kv[cen] += rng.choice([1, 2, 4, -2]) - sum(kv)
                case["kernel"] = {**case["kernel"], "vals": qlist(kv)}
            for grp, name, val in combo:
                self._apply_option(rng, case, grp, name, val)
            so = dict(case.get("sim_opts") or {})
            for om in ("omit_background", "omit_subtract", "omit_normalize"):
                if rng.random() < 0.3:
                    so[om] = True
            if so:
                case["sim_opts"] = so
            if rng.random() < 0.3:
                case["geom"] = rng.choice(self.GEOMS)
            case["kernel_form"] = rng.choice(KERNEL_FORMS_X)
            case = self._finish_opts(case)
            case["tag"] = ("opts_single_" + combo[0][1]) if len(combo) == 1 else \
                "opts_pair_" + "x".join(sorted(g for g, _n, _v in combo))
            case["options"] = [[g, n_, str(v)] for g, n_, v in combo]
            yield case

    def _siblings(self, rng, n, hi):
        """same-key-different-world neighbours, consecutive in the stream: same mask + kernel SHAPE with other kernel
        values, same kernel with another mask of the same shape, same everything with other images / flags — a
        process-wide memo keyed too loosely serves the second one the first one's tables"""
        for i in range(n):
            kind = ("convolve", "matrix", "same", "simulate")[i % 4]
            base = self._plain(rng, kind, hi=hi)
            yield {**base, "tag": f"sibling_{kind}_0"}
            for j in range(1, 3):
                c = dict(base)
                what = rng.choice(["kernel", "kernel", "mask", "values", "flag"])
                kv = [Fraction(v) for v in base["kernel"]["vals"]]
                if what == "kernel":
                    if kind == "simulate" and base["normalize_psf"]:
                        if len(kv) > 1:
                            a, b = rng.sample(range(len(kv)), 2)
                            kv[a] += 1
                            kv[b] -= 1
                    else:
                        kv[rng.randrange(len(kv))] += rng.choice([1, -2, Fraction(1, 2), 3])
                        if kind == "simulate" and base["normalize_psf"] and sum(kv) == 0:
                            kv = [Fraction(v) for v in base["kernel"]["vals"]]
                    c["kernel"] = {**base["kernel"], "vals": qlist(kv)}
                elif what == "mask" and "mask" in base:
                    m = mask_from_json(base["mask"])
                    kh, kw = base["kernel"]["h"], base["kernel"]["w"]
                    h, w = m.shape
                    cells = [(y, x) for y in range(kh // 2, h - kh // 2) for x in range(kw // 2, w - kw // 2)]
                    if cells:
                        y, x = rng.choice(cells)
                        m = m.copy()
                        m[y, x] = not m[y, x]
                        c["mask"] = mask_json(m.tolist())
                        if kind == "matrix":
                            c["matrix"] = qmat([self._values(rng, base["ncols"], "int") for _ in range(int((~m).sum()))])
                elif what == "values":
                    if kind == "matrix":
                        c["matrix"] = qmat([self._values(rng, base["ncols"], "dyadic") for _ in base["matrix"]])
                    else:
                        c["image"] = qlist(self._values(rng, len(base["image"]), "pos" if kind == "simulate" else "dyadic"))
                elif what == "flag":
                    if kind == "simulate":
                        if self._is_pow2(sum(kv)):
                            c["normalize_psf"] = not base["normalize_psf"]
                    elif kind == "convolve":
                        c["store_native"] = not base["store_native"]
                        c["interpolation_wrapper"] = not base["interpolation_wrapper"]
                c["tag"] = f"sibling_{kind}_{what}"
                yield c

    # always-on mid / large sizes (R5-E): beyond 2^16 frame pixels for the whole-frame paths and the Convolver set-up,
    # beyond 2^15 unmasked pixels (int16 index tables) for the masked convolution; recipes of the constant-directed
    # machinery below with `hint` = the implicit limit straddled; judged by the vectorised oracle alone
    def _big_cases(self, rng, tier):
        plan = [("frame_same", 65536 + rng.randint(1, 6000), 65536), ("frame", 65536 + rng.randint(1, 3000), 65536),
                ("unmasked", 32768 + rng.randint(1, 1500), 32768)]
        if tier != "quick":
            plan += [("frame_sim", 65536 + rng.randint(1, 6000), 65536), ("blurring", 32768 + rng.randint(2, 999), 32768),
                     ("columns", 65536 + rng.randint(1, 999), 65536), ("frame_same", 262144 + rng.randint(1, 9999), 262144)]
        for dim, n, lim in plan:
            # (frames: a kernel with extent on BOTH axes, so that row- and column-banded fast paths both show)
            c = self._large_case(dim, n, lim, rng, kshape=(1, 3) if dim == "unmasked" else
                                 (rng.choice([(3, 3), (3, 5), (5, 3)]) if dim.startswith("frame") else None))
            if c is None:
                continue
            c.pop("_cost", None)
            c["tag"] = "big_" + dim
            c["always_on"] = True
            if dim == "unmasked":
                c["ncols"] = 1
            yield c

    # ------------------------------------------------------------------ large cases (round 4, constant-directed)
    # A large case is a small RECIPE (frame, mask recipe, kernel recipe, seed); the arrays are rebuilt from it by
    # `_large_world`, so evidence / replays stay small.  No model request is made: the vectorised oracle states the
    # property on the implementation's output, exactly (integers + multiples of 2^-30: every double operation exact).
    LARGE_TOTAL_S = 40.0      # estimated pure-Python cost of everything `generate_large` yields
    LARGE_CASE_S = 16.0

    @staticmethod
    def _large_mask(rec):
        h, w = rec["h"], rec["w"]
        m = np.ones((h, w), dtype=bool)
        t = rec["type"]
        if t == "fill":      # the first n non-hole cells, row-major, of the inner rectangle at (top, left), width iw
            top, left, iw, n, holes = rec["top"], rec["left"], rec["iw"], rec["n"], rec.get("holes", 0)
            rows = h - top - rec["bottom"]
            p = np.arange(rows * iw)
            ok = (p % holes != holes // 2) if holes else np.ones(len(p), dtype=bool)
            p = p[ok][:n]
            m[top + p // iw, left + p % iw] = False
        elif t == "cells":   # isolated unmasked pixels "M U M" (2 blurring pixels each for a 1x3 kernel) + "M U M U M"
            top, left, per_row, k, odd = rec["top"], rec["left"], rec["per_row"], rec["k"], rec["odd"]
            c = np.arange(k)
            m[top + c // per_row, left + 3 * (c % per_row) + 1] = False
            if odd:
                y = top + (k + per_row - 1) // per_row
                m[y, left + 1] = False
                m[y, left + 3] = False
        elif t == "boxes":
            for y0, x0, y1, x1 in rec["boxes"]:
                m[y0:y1, x0:x1] = False
        if rec.get("transpose"):
            m = np.ascontiguousarray(m.T)
        return m

    @staticmethod
    def _large_kernel(rec):
        kh, kw = rec["h"], rec["w"]
        i, j = np.meshgrid(np.arange(kh), np.arange(kw), indexing="ij")
        K = ((3 * i + 5 * j + i * j + rec.get("seed", 0)) % 13 - 6).astype(float)   # signed, asymmetric
        if rec.get("pow2"):      # entries >= 0 summing to a power of two: PSF normalisation exact
            K = np.abs(K)
            tot = int(K.sum())
            K[kh // 2, kw // 2] += (1 << max(tot, 1).bit_length()) - tot
        elif K[kh // 2, kw // 2] == 0:
            K[kh // 2, kw // 2] = 4.0
        if rec.get("transpose"):
            K = np.ascontiguousarray(K.T)
        return K

    @classmethod
    def _large_world(cls, case):
        m = cls._large_mask(case["mask_recipe"]) if "mask_recipe" in case else None
        K = cls._large_kernel(case["kernel_recipe"])
        h, w = (m.shape if m is not None else (case["h"], case["w"]))
        rs = np.random.RandomState(case["seed"] % (2 ** 31))
        fine = 2.0 ** -30 if case.get("fine") else 0.0
        lo = 0 if case.get("nonneg") else -9
        A = rs.randint(lo, 10, (h, w)).astype(float) + fine * rs.randint(-8, 9, (h, w))
        B = rs.randint(lo, 10, (h, w)).astype(float) + fine * rs.randint(-8, 9, (h, w))
        return m, K, A, B

    @staticmethod
    def _large_matrix(case, n_un, A_slim):
        nc = case.get("ncols", 2)
        M = np.zeros((n_un, nc))
        if n_un == 0:
            return M
        if nc <= 4:
            M[:, 0] = A_slim
            if nc > 1:
                M[-min(50, n_un):, 1] = -1.5
                M[0, 1] = 2.25
            for c in range(2, nc):
                M[c::7, c] = 1 + c
        else:                    # many columns, sparse: ~2 signed entries per column
            c = np.arange(nc)
            M[(c * 7) % n_un, c] = (c % 5) - 2.5
            M[(c * 3 + 1) % n_un, c] += (c % 3) + 0.25
        return M

    @staticmethod
    def _ref_conv(native, K):
        """true 2-D convolution (zero outside the frame) of an array (h, w[, …]): out[p] = Σ a[p+half-(i,j)]·K[i,j]"""
        kh, kw = K.shape
        hy, hx = kh // 2, kw // 2
        h, w = native.shape[:2]
        pad = np.zeros((h + 2 * hy, w + 2 * hx) + native.shape[2:])
        pad[hy:hy + h, hx:hx + w] = native
        out = np.zeros(native.shape)
        for i in range(kh):
            for j in range(kw):
                if K[i, j] != 0:
                    out += K[i, j] * pad[2 * hy - i:2 * hy - i + h, 2 * hx - j:2 * hx - j + w]
        return out

    @staticmethod
    def _ref_blurring(m, kh, kw):
        """masked pixels inside the kernel window of an unmasked one"""
        hy, hx = kh // 2, kw // 2
        h, w = m.shape
        un = np.zeros((h + 2 * hy, w + 2 * hx), dtype=bool)
        un[hy:hy + h, hx:hx + w] = ~m
        near = np.zeros((h, w), dtype=bool)
        for i in range(kh):
            for j in range(kw):
                near |= un[i:i + h, j:j + w]
        return near & m      # True = blurring PIXEL (the library's blurring mask is its negation)

    def _large_case(self, dim, n, hint, rng, kshape=None):
        """one recipe whose size in dimension `dim` is exactly n (frame: as close as a non-square frame allows),
        with a cost estimate in seconds of pure-Python work"""
        if n < 1:
            return None
        seed = rng.randrange(2 ** 30)
        base = {"tag": f"large_{dim}", "kind": "large", "dim": dim, "hint": hint, "n": n, "seed": seed,
                "fine": rng.random() < 0.7, "store_native": rng.random() < 0.5}
        if dim == "unmasked":
            kh, kw = rng.choice([(3, 3), (1, 3), (3, 1), (3, 5), (5, 3)]) if n < 20000 else rng.choice([(3, 3), (1, 3), (3, 1)])
            if kshape:
                kh, kw = kshape
            hy, hx = kh // 2, kw // 2
            iw = max(1, int((n * rng.choice([0.35, 0.6, 1.7, 2.6])) ** 0.5))      # never square
            holes = rng.choice([0, 0, 37, 11])
            top, left = hy + rng.randint(0, 2), hx + rng.randint(0, 3)
            need = n + (n // (holes - 1) + 2 if holes else 0)
            rows = -(-need // iw) + 1
            rec = {"type": "fill", "h": top + rows + hy, "w": left + iw + hx + rng.randint(0, 2), "top": top,
                   "left": left, "iw": iw, "n": n, "holes": holes, "bottom": hy}
            cost = (1.5e-4 if kh * kw >= 9 else 1.1e-4) * n * 1.1 + 4e-6 * rec["h"] * rec["w"]
            return {**base, "sub": "convolver", "mask_recipe": rec, "kernel_recipe": {"h": kh, "w": kw, "seed": seed % 13},
                    "ncols": 2, "_cost": cost}
        if dim == "blurring":
            if n < 2:
                return None
            odd = n % 2
            k = (n - 3 * odd) // 2
            if k < 1:
                return None
            per_row = max(1, int((k * rng.choice([0.3, 1.0, 2.5])) ** 0.5))
            rows = -(-k // per_row) + (1 if odd else 0)
            top, left = rng.randint(0, 2), rng.randint(0, 2)
            rec = {"type": "cells", "h": top + rows + rng.randint(0, 1), "w": left + max(3 * per_row, 5) + rng.randint(0, 2),
                   "top": top, "left": left, "per_row": per_row, "k": k, "odd": odd, "transpose": rng.random() < 0.5}
            cost = 1.1e-4 * (n + k + 2) + 4e-6 * rec["h"] * rec["w"]
            return {**base, "sub": "convolver", "mask_recipe": rec,
                    "kernel_recipe": {"h": 1, "w": 3, "seed": seed % 13, "transpose": rec["transpose"]},
                    "ncols": 2, "_cost": cost}
        if dim in ("frame", "frame_same", "frame_sim"):
            # h·w = n exactly when n has a divisor pair that is not square and not too thin, else the nearest frame
            divs = [d for d in range(3, int(n ** 0.5) + 1) if n % d == 0 and d * d != n]
            if divs and rng.random() < 0.8:
                hh = rng.choice(divs[-3:])
                ww = n // hh
            else:
                hh = max(3, int((n * rng.choice([0.4, 0.7])) ** 0.5))
                ww = -(-n // hh)
            if hh == ww:
                ww += 1
            if rng.random() < 0.5:
                hh, ww = ww, hh
            fits = [(a, b) for a, b in [(3, 3), (1, 3), (3, 1), (3, 5), (5, 3)] if hh >= a + 2 and ww >= b + 2]
            if not fits:
                return None
            kh, kw = rng.choice(fits)
            if kshape and tuple(kshape) in fits:
                kh, kw = kshape
            hy, hx = kh // 2, kw // 2
            if dim == "frame_same":
                return {**base, "sub": "same", "h": hh, "w": ww, "kernel_recipe": {"h": kh, "w": kw, "seed": seed % 13},
                        "_cost": 1e-5 * hh * ww + 0.05}
            # unmasked clusters hugging the first and the LAST admissible rows / columns (largest native indexes)
            bh, bw = min(3, hh - 2 * hy), min(4, ww - 2 * hx)
            boxes = [[hy, hx, hy + bh, hx + bw], [hh - hy - bh, ww - hx - bw, hh - hy, ww - hx],
                     [hh - hy - 1, hx, hh - hy, hx + bw], [hy, ww - hx - 1, hy + bh, ww - hx]]
            rec = {"type": "boxes", "h": hh, "w": ww, "boxes": boxes}
            # (Convolver.__init__ reads `mask[x][y]`, which copies the whole mask per pixel: quadratic in H·W)
            cost = 8e-6 * hh * ww + 1.5e-10 * (hh * ww) ** 2 + 0.05
            if dim == "frame_sim":
                return {**base, "sub": "simulate", "mask_recipe": rec, "fine": False, "nonneg": False,
                        "kernel_recipe": {"h": kh, "w": kw, "seed": seed % 13, "pow2": True},
                        "normalize_psf": rng.random() < 0.5, "subtract_background": rng.random() < 0.8,
                        "_cost": cost + 2e-5 * hh * ww}
            return {**base, "sub": "convolver", "mask_recipe": rec, "kernel_recipe": {"h": kh, "w": kw, "seed": seed % 13},
                    "ncols": 3, "_cost": cost}
        if dim in ("kernel", "kernel_dense"):
            # odd kh x kw with kh·kw as close to n as an odd product allows (n itself when it is odd and composite)
            if n > 1500:
                return None
            # on the same side of the constant as n; among the products within a small window the most balanced shape
            win = max(4, n // 20)
            best = None
            for a in range(3, 80, 2):
                for bb in range(3, 400, 2):
                    prod = a * bb
                    if (n > hint and not (n <= prod <= n + win)) or (n < hint and not (n - win <= prod <= n)) \
                            or (n == hint and abs(prod - n) > win):
                        continue
                    cand = (abs(prod - n) if n == hint else 0, abs(a - bb), abs(prod - n), a, bb)
                    if best is None or cand < best:
                        best = cand
            if best is None:
                return None
            kh, kw = best[3], best[4]
            if rng.random() < 0.5:
                kh, kw = kw, kh
            hy, hx = kh // 2, kw // 2
            if dim == "kernel_dense":
                # an unmasked block larger than the kernel: the frames of its inner pixels have all kh·kw entries
                if kh * kw > 800:
                    return None
                bh, bw = kh + rng.randint(1, 2), kw + rng.randint(1, 3)
                top, left = hy + rng.randint(0, 1), hx + rng.randint(0, 1)
                rec = {"type": "boxes", "h": top + bh + hy, "w": left + bw + hx + rng.randint(0, 1),
                       "boxes": [[top, left, top + bh, left + bw]]}
                cost = 1.2e-6 * kh * kw * (bh + 2 * hy) * (bw + 2 * hx) + 0.05
                return {**base, "tag": "large_kernel_dense", "sub": "convolver", "n": kh * kw, "mask_recipe": rec,
                        "kernel_recipe": {"h": kh, "w": kw, "seed": seed % 13}, "ncols": 2, "_cost": cost}
            bh, bw = rng.randint(2, 3), rng.randint(2, 4)
            top, left = hy + rng.randint(0, 1), hx + rng.randint(0, 2)
            rec = {"type": "boxes", "h": top + bh + 1 + hy, "w": left + bw + 2 + hx,
                   "boxes": [[top, left, top + bh, left + bw], [top + bh, left + bw + 1, top + bh + 1, left + bw + 2]]}
            npx = bh * bw + 1
            cost = 2e-6 * kh * kw * (npx + (bh + 2 * hy) * (bw + 2 * hx)) * 3 + 4e-6 * rec["h"] * rec["w"] + 0.02
            return {**base, "tag": "large_kernel", "sub": "convolver", "n": kh * kw, "mask_recipe": rec,
                    "kernel_recipe": {"h": kh, "w": kw, "seed": seed % 13}, "ncols": 2, "_cost": cost}
        if dim == "columns":
            kh, kw = rng.choice([(3, 3), (1, 3), (3, 1)])
            hy, hx = kh // 2, kw // 2
            bh, bw = rng.randint(2, 3), rng.randint(3, 5)
            rec = {"type": "boxes", "h": 2 * hy + bh + 1, "w": 2 * hx + bw + 2,
                   "boxes": [[hy + 1, hx, hy + 1 + bh, hx + bw], [hy, hx + bw + 1, hy + 1, hx + bw + 2]]}
            cost = 2.2e-6 * n * (bh * bw + 1) + 0.02
            return {**base, "sub": "convolver", "mask_recipe": rec, "kernel_recipe": {"h": kh, "w": kw, "seed": seed % 13},
                    "ncols": n, "_cost": cost}
        return None

    LARGE_DIMS = ("unmasked", "blurring", "frame", "frame_same", "frame_sim", "kernel", "kernel_dense", "columns")

    def generate_large(self, hints, rng):
        """for every new integer constant c of the anchored source: cases whose size — unmasked pixels, blurring
        pixels, frame pixels H·W (masked convolution, whole-frame convolution, simulator pipeline), kernel pixels,
        mapping-matrix columns — is c + c//3 + 1 (a non-multiple above), 2c + 1, c + 1, c, c − 1; the sizes above c
        first, cheap before expensive, within an estimated budget of pure-Python time"""
        plans = []
        for c in sorted(set(int(x) for x in hints)):
            for pr, n in ((0, c + c // 3 + 1), (1, 2 * c + 1), (2, c + 1), (3, c), (3, c - 1)):
                for dim in self.LARGE_DIMS:
                    case = self._large_case(dim, n, c, rng)
                    if case is not None and case["_cost"] <= self.LARGE_CASE_S:
                        plans.append((pr, case["_cost"], len(plans), case))
        plans.sort(key=lambda t: t[:3])
        total = 0.0
        for pr, cost, _k, case in plans:
            if total + cost > self.LARGE_TOTAL_S:
                continue
            total += cost
            case = {k: v for k, v in case.items() if k != "_cost"}
            yield case

    def _run_large(self, aa, case):
        m, K, A, B = self._large_world(case)
        kernel = aa.Kernel2D.no_mask(values=K, pixel_scales=1.0)
        sub = case["sub"]
        if sub == "same":
            arr = aa.Array2D.no_mask(values=A, pixel_scales=1.0)
            out = kernel.convolved_array_from(array=arr)
            h, w = A.shape
            yy, xx = np.meshgrid(np.arange(h), np.arange(w), indexing="ij")
            mask2 = aa.Mask2D(mask=((yy * 3 + xx) % 4 == 1), pixel_scales=1.0)
            out2 = kernel.convolved_array_with_mask_from(array=arr.native, mask=mask2)
            return {"same": np.array(np.asarray(out.native.array)), "same_masked": np.array(np.asarray(out2.slim.array))}
        mask = aa.Mask2D(mask=m.copy(), pixel_scales=1.0)
        if sub == "simulate":
            Ke = K / K.sum() if case.get("normalize_psf", True) else K
            bg = float(int(np.abs(A).max() * np.abs(Ke).sum()) + 1)
            img = aa.Array2D.no_mask(values=A, pixel_scales=1.0)
            sim = aa.SimulatorImaging(exposure_time=1.0, background_sky_level=bg, psf=kernel,
                                      subtract_background_sky=bool(case.get("subtract_background", True)),
                                      normalize_psf=bool(case.get("normalize_psf", True)),
                                      add_poisson_noise_to_data=False, include_poisson_noise_in_noise_map=False,
                                      noise_seed=1)
            ds = sim.via_image_from(image=img)
            masked = ds.apply_mask(mask=mask)
            if tuple(masked.data.shape_native) != tuple(m.shape):
                return {"err": "padded", "shape": list(masked.data.shape_native)}
            bm2 = masked.mask.derive_mask.blurring_from(kernel_shape_native=kernel.shape_native)
            model = masked.convolver.convolve_image(image=aa.Array2D(values=A, mask=masked.mask),
                                                    blurring_image=aa.Array2D(values=A, mask=bm2))
            return {"simulated": np.array(np.asarray(ds.data.native.array)),
                    "data": np.array(np.asarray(masked.data.slim.array)),
                    "psf": np.array(np.asarray(masked.psf.native.array)),
                    "model": np.array(np.asarray(model.slim.array)), "sky": bg}
        from autoarray import exc
        try:
            cv = aa.Convolver(mask=mask, kernel=kernel)
        except exc.MaskException as e:
            return {"err": "footprint_outside" if "extends beyond" in str(e) else "MaskException"}
        bm = mask.derive_mask.blurring_from(kernel_shape_native=kernel.shape_native)
        sn = bool(case.get("store_native"))
        img = aa.Array2D(values=A, mask=mask, store_native=sn)
        blur = aa.Array2D(values=B, mask=bm, store_native=sn)
        out = cv.convolve_image(image=img, blurring_image=blur)
        nb = cv.convolve_image_no_blurring(image=img)
        M = self._large_matrix(case, int((~m).sum()), A[~m])
        bmm = cv.convolve_mapping_matrix(mapping_matrix=M)
        return {"n_unmasked": int(cv.pixels_in_mask), "n_blurring": int(cv.pixels_in_blurring_mask),
                "blurred": np.array(np.asarray(out.slim.array)), "no_blurring": np.array(np.asarray(nb.slim.array)),
                "matrix": np.array(np.asarray(bmm)), "blurring_mask": np.array(np.asarray(cv.blurring_mask, dtype=bool)),
                "derived_blurring_mask": np.array(np.asarray(bm, dtype=bool))}

    @staticmethod
    def _first_diff(got, exp):
        got, exp = np.asarray(got), np.asarray(exp)
        if got.shape != exp.shape:
            return f"shape {got.shape} vs {exp.shape}"
        bad = np.argwhere(got != exp)
        k = tuple(int(v) for v in bad[0])
        return f"{len(bad)} of {got.size} entries differ, first at {k}: {float(got[k])!r} vs {float(exp[k])!r}"

    def _oracle_large(self, case, obs):
        m, K, A, B = self._large_world(case)
        kh, kw = K.shape
        what = (f"[{case['dim']} = {case['n']}, beyond the implicit limit {case['hint']}] " if case.get("always_on")
                else f"[{case['dim']} = {case['n']} for the new constant {case['hint']}] ")
        if "err" in obs:
            return False, what + f"valid input raised {str(obs)[:200]}"
        if case["sub"] == "same":
            exp = self._ref_conv(A, K)
            if not np.array_equal(obs["same"], exp):
                return False, what + ("whole-frame convolution differs from the true convolution: "
                                      + self._first_diff(obs["same"], exp))
            h, w = A.shape
            yy, xx = np.meshgrid(np.arange(h), np.arange(w), indexing="ij")
            mm = (yy * 3 + xx) % 4 == 1
            if not np.array_equal(obs["same_masked"], exp[~mm]):
                return False, what + ("convolved_array_with_mask_from is not the whole-frame convolution gathered at "
                                      "the mask: " + self._first_diff(obs["same_masked"], exp[~mm]))
            return True, ""
        un = ~m
        hy, hx = kh // 2, kw // 2
        ys, xs = np.nonzero(un)
        if len(ys) and not (ys.min() >= hy and ys.max() + hy < m.shape[0] and xs.min() >= hx and xs.max() + hx < m.shape[1]):
            return (obs.get("err") == "footprint_outside"), what + "footprint leaves the frame"
        if case["sub"] == "simulate":
            Ke = K / K.sum() if case.get("normalize_psf", True) else K
            sky = 0.0 if case.get("subtract_background", True) else obs["sky"]
            exp = self._ref_conv(A, Ke) + sky
            if not np.array_equal(obs["simulated"], exp):
                return False, what + ("noise-free simulated data is not the true whole-frame convolution with the "
                                      "simulator's PSF: " + self._first_diff(obs["simulated"], exp))
            if not np.array_equal(obs["psf"], Ke):
                return False, what + "the masked dataset's PSF is not the kernel the data were simulated with"
            if not np.array_equal(obs["data"], exp[un]):
                return False, what + "masked data are not the simulated data gathered at the mask: " + \
                    self._first_diff(obs["data"], exp[un])
            resid = np.asarray(obs["data"]) - np.asarray(obs["model"])
            if resid.shape != exp[un].shape or np.any(resid != sky):
                return False, what + ("noise-free simulated image is not fitted with zero residual: "
                                      + self._first_diff(resid, np.full(exp[un].shape, sky)))
            return True, ""
        blurpix = self._ref_blurring(m, kh, kw)
        if obs["n_unmasked"] != int(un.sum()) or obs["n_blurring"] != int(blurpix.sum()):
            return False, what + (f"pixel counts {obs['n_unmasked']}/{obs['n_blurring']} differ from "
                                  f"{int(un.sum())}/{int(blurpix.sum())}")
        for key in ("blurring_mask", "derived_blurring_mask"):
            if not np.array_equal(obs[key], ~blurpix):
                return False, what + f"{key} is not the union of the kernel footprints minus the mask"
        full = np.where(un, A, np.where(blurpix, B, 0.0))
        exp = self._ref_conv(full, K)[un]
        if not np.array_equal(obs["blurred"], exp):
            return False, what + ("convolve_image differs from the true convolution of the combined native image "
                                  "(slim index): " + self._first_diff(obs["blurred"], exp))
        exp_nb = self._ref_conv(np.where(un, A, 0.0), K)[un]
        if not np.array_equal(obs["no_blurring"], exp_nb):
            return False, what + ("convolve_image_no_blurring differs from the true convolution of the masked image "
                                  "(slim index): " + self._first_diff(obs["no_blurring"], exp_nb))
        M = self._large_matrix(case, int(un.sum()), A[un])
        nat = np.zeros(m.shape + (M.shape[1],))
        nat[un] = M
        exp_m = self._ref_conv(nat, K)[un]
        if not np.array_equal(obs["matrix"], exp_m):
            return False, what + ("the blurred mapping matrix is not the blurring operator applied to each column "
                                  "(row, column): " + self._first_diff(obs["matrix"], exp_m))
        return True, ""

    _large_shrinks = 0
    LARGE_SHRINKS_MAX = 6

    def _shrink_large(self, case):
        """few and cheap: the smallest size above the constant, then integer-only values"""
        import random as _random
        if self._large_shrinks >= self.LARGE_SHRINKS_MAX:
            return
        dim, c = case["dim"], case["hint"]
        if not dim.startswith("kernel") and case["n"] > c + 1:
            self._large_shrinks += 1
            c2 = self._large_case(dim, c + 1, c, _random.Random(case["seed"]))
            if c2 is not None:
                c2.pop("_cost", None)
                yield c2
        if case.get("fine") and self._large_shrinks < self.LARGE_SHRINKS_MAX:
            self._large_shrinks += 1
            yield {**case, "fine": False}

    # ------------------------------------------------------------------ implementation
    def _convolver(self, aa, case, env=None):
        from autoarray import exc

        env = env or _Env(aa)
        m = mask_from_json(case["mask"])
        mask = env.mask(m, case)
        kernel = env.kernel(case)
        try:
            cv = env.convolver(mask, kernel, case)
        except exc.KernelException:
            return mask, kernel, None, {"err": "even_kernel"}
        except exc.MaskException as e:
            return mask, kernel, None, {"err": "footprint_outside" if "extends beyond" in str(e) else "MaskException"}
        env.track(mask, kernel, cv.image_frame_1d_indexes, cv.image_frame_1d_kernels, cv.image_frame_1d_lengths,
                  cv.blurring_frame_1d_indexes, cv.blurring_frame_1d_kernels, cv.blurring_frame_1d_lengths,
                  cv.mask_index_array, cv.blurring_mask)
        return mask, kernel, cv, None

    @staticmethod
    def _geom(case):
        """(pixel_scales, origin) of the case's world — (1.0, (0.0, 0.0)) unless the case carries a geometry"""
        g = case.get("geom")
        if not g:
            return 1.0, (0.0, 0.0)
        return tuple(float(Fraction(v)) for v in g["ps"]), tuple(float(Fraction(v)) for v in g["origin"])

    @staticmethod
    def _kernel_obj(aa, case, track=None):
        """the kernel through one of the equivalent constructors / container types / memory layouts"""
        Kj = case["kernel"]
        shape = (Kj["h"], Kj["w"])
        form = case.get("kernel_form", "nd")
        ps, _origin = C03._geom(case)
        keep = track if track is not None else (lambda *a: None)
        if form == "manual_mask":
            km = aa.Mask2D.all_false(shape_native=shape, pixel_scales=ps)
            return aa.Kernel2D(values=_typed(Kj["vals"], None, "pyfloat"), mask=km)
        if form in LAYOUTS:
            vals = _layout(_typed(Kj["vals"], shape, "nd"), form)
            keep(vals)
            return aa.Kernel2D.no_mask(values=vals, pixel_scales=ps)
        if form == "float32" and _holds(np.zeros(1, dtype=np.float32), [float(Fraction(v)) for v in Kj["vals"]]):
            return aa.Kernel2D.no_mask(values=_typed(Kj["vals"], shape, "float32"), pixel_scales=ps)
        if form in ("slim_shape", "slim_list_shape"):
            vals = _typed(Kj["vals"], None, "pyfloat" if form == "slim_list_shape" else "nd")
            return aa.Kernel2D.no_mask(values=vals, shape_native=shape, pixel_scales=ps)
        if form in ("from_kernel", "from_native", "copy", "store_native"):
            vals = _typed(Kj["vals"], shape, "nd")
            keep(vals)
            if form == "store_native":
                km = aa.Mask2D.all_false(shape_native=shape, pixel_scales=ps)
                return aa.Kernel2D(values=vals, mask=km, store_native=True)
            k0 = aa.Kernel2D.no_mask(values=vals, pixel_scales=ps)
            keep(k0)
            if form == "from_kernel":      # a structure built from another structure
                return aa.Kernel2D(values=k0, mask=k0.mask)
            if form == "from_native":
                return aa.Kernel2D.no_mask(values=k0.native, pixel_scales=ps)
            return k0.copy()
        if form == "norm_arg":
            # `normalize=True` of the constructor on 2^j-multiples of a kernel whose entries sum to one: the result
            # is that kernel again, exactly
            fr = [Fraction(v) for v in Kj["vals"]]
            if sum(fr) == 1 and max(abs(v) for v in fr) < 2 ** 60:
                j = (len(fr) * 7 + shape[0]) % 9 - 4
                vals = _typed([v * Fraction(2) ** j for v in fr], shape, "nd")
                if j % 2:
                    return aa.Kernel2D.no_mask(values=vals, pixel_scales=ps, normalize=True)
                km = aa.Mask2D.all_false(shape_native=shape, pixel_scales=ps)
                return aa.Kernel2D(values=vals, mask=km, normalize=True)
        vals = _typed(Kj["vals"], shape, {"list": "pyfloat", "pyint": "pyint", "int64": "int64"}.get(form, "nd"))
        keep(vals)
        return aa.Kernel2D.no_mask(values=vals, pixel_scales=ps)

    @staticmethod
    def _mask_obj(aa, m, case, track=None):
        """Mask2D from the boolean array `m` through one of the equivalent containers / layouts / constructors"""
        form = case.get("mask_form", "nd")
        ps, origin = C03._geom(case)
        keep = track if track is not None else (lambda *a: None)
        m = np.array(m, dtype=bool)
        if form in LAYOUTS:
            data = _layout(m, form)
        elif form == "list":
            data = m.tolist()
        elif form == "int":
            data = m.astype(np.int64)
        elif form == "uint8":
            data = m.astype(np.uint8)
        elif form == "invert":
            data = ~m
            keep(data)
            return aa.Mask2D(mask=data, pixel_scales=ps, origin=origin, invert=True)
        elif form in ("from_mask", "from_mask_geom"):
            # a Mask2D built from a Mask2D; the explicit origin / pixel scales are the ones in force
            m0 = aa.Mask2D(mask=m, pixel_scales=(ps if form == "from_mask" else (3.0, 0.25)),
                           origin=(origin if form == "from_mask" else (7.0, -2.0)))
            keep(m0)
            return aa.Mask2D(mask=m0, pixel_scales=ps, origin=origin)
        else:
            data = m
        keep(data)
        return aa.Mask2D(mask=data, pixel_scales=ps, origin=origin)

    @staticmethod
    def _image_obj(aa, vals, shape, mask, form, store_native, track=None):
        """Array2D on `mask` holding the native values `vals`, built from the requested container / dtype / layout"""
        mb = np.asarray(mask, dtype=bool)
        keep = track if track is not None else (lambda *a: None)
        if form.startswith("slim"):
            sl = [v for v, mk in zip(vals, mb.ravel()) if not mk]
            typ = {"slim_int64": "int64", "slim_pyint": "pyint"}.get(form, "nd")
            data = _typed(sl, None, typ)
            if isinstance(data, np.ndarray) and data.size == 0:
                data = np.zeros(0, dtype=data.dtype)
            if form in ("slim_strided", "slim_readonly"):
                data = _layout(data, form[5:])
            keep(data)
            return aa.Array2D(values=data, mask=mask, store_native=store_native)
        typ = {"native_int64": "int64", "native_pyint": "pyint", "native_float32": "float32",
               "native_pyfloat": "pyfloat", "native_float32_fortran": "float32",
               "native_int64_strided": "int64"}.get(form, "nd")
        data = _typed(vals, shape, typ)
        if form in ("native_fortran", "native_tview", "native_strided", "native_readonly"):
            data = _layout(data, form[7:])
        elif form == "native_float32_fortran":
            data = _layout(data, "fortran")
        elif form == "native_int64_strided":
            data = _layout(data, "strided")
        keep(data)
        if form == "structure":   # an autoarray structure passed where an array is accepted
            data = aa.Array2D.no_mask(values=data, pixel_scales=1.0).native   # as `apply_mask` passes `.native`
        elif form in ("from_structure", "from_structure_native"):
            # an Array2D built from an Array2D that lives on the same mask (stored slim / natively)
            data = aa.Array2D(values=data, mask=mask, store_native=(form == "from_structure_native"))
            keep(data)
        return aa.Array2D(values=data, mask=mask, store_native=store_native)

    def run_impl(self, case):
        aa = load_autoarray()
        if case["kind"] == "history":
            return self._run_history(aa, case)
        if case["kind"] == "large":
            return self._run_large(aa, case)
        return self._run_one(aa, case, _Env(aa))

    def _run_history(self, aa, case):
        """the steps of a history on REAL reused objects (see `_Env`); every step's observation is the ordinary
        observation of that step's world, to be compared with the model / oracle value of a FRESH object"""
        env = _Env(aa)
        out = []
        cfg0 = _cfg_get()
        try:
            for st in case["steps"]:
                try:
                    env.begin(st)
                    out.append(self._run_one(aa, st["case"], env))
                except Exception as e:     # recorded per step so that the failing step is named
                    out.append({"err": type(e).__name__, "msg": str(e)[:300]})
        finally:
            _cfg_set(cfg0)      # configuration histories: the pinned value is restored whatever happened
        return {"steps": out}

    @staticmethod
    def _chain(aa, env, case, ds, mask, kernel):
        """the masked dataset reached from the simulated one through the case's chain of dataset operations
        (default: one `apply_mask`); every operation must carry data, PSF and the normalisation flag along"""
        chain = case.get("chain") or ["mask"]
        ro = case.get("rewrap_opts") or {}
        d = ds
        for op in chain:
            if op == "mask":
                d = d.apply_mask(mask=mask)
            elif op == "remask":
                # first another admissible mask of the same frame (one more pixel masked), then the case's mask
                mb = np.array(np.asarray(mask, dtype=bool))
                un = np.argwhere(~mb)
                if len(un):
                    mb[tuple(un[len(un) // 2])] = True
                ps, origin = C03._geom(case)
                d = d.apply_mask(mask=aa.Mask2D(mask=mb, pixel_scales=ps, origin=origin))
            elif op == "over":
                d = d.apply_over_sampling(over_sampling=aa.OverSamplingDataset())
            elif op == "over_explicit":
                d = d.apply_over_sampling(
                    over_sampling=aa.OverSamplingDataset(uniform=aa.OverSamplingUniform(sub_size=2)))
            elif op == "noise_scaling":
                d = d.apply_noise_scaling(mask=mask, noise_value=float(Fraction(ro.get("noise_value", "100000000"))),
                                          should_zero_data=False)
            elif op == "rewrap":
                # the simulated data wrapped by hand, as a user loading data does: raw kernel + the flag
                kw = {"data": d.data, "noise_map": d.noise_map, "psf": kernel,
                      "use_normalized_psf": bool(case.get("normalize_psf", True))}
                if ro.get("omit_flag") and case.get("normalize_psf", True):
                    kw.pop("use_normalized_psf")
                if "check_noise_map" in ro:
                    kw["check_noise_map"] = bool(ro["check_noise_map"])
                if ro.get("covariance"):
                    n = int(np.prod(d.data.shape_native))
                    kw["noise_covariance_matrix"] = np.eye(n)
                if ro.get("over_sampling"):
                    kw["over_sampling"] = aa.OverSamplingDataset()
                if "pad_for_convolver" in ro:
                    kw["pad_for_convolver"] = bool(ro["pad_for_convolver"])
                d = aa.Imaging(**kw)
            else:
                raise ValueError(op)
            env.track(d.data, d.noise_map, d.psf)
        env.o["masked"] = d
        return d

    def _run_one(self, aa, case, env):
        from autoarray import exc

        kind = case["kind"]
        if kind == "same":
            h, w = case["h"], case["w"]
            kernel = env.kernel(case)
            arr = env.array_no_mask(case["image"], (h, w), case.get("image_form", "float"), case=case)
            mm = np.array([[(y * 3 + x) % 4 == 1 for x in range(w)] for y in range(h)], dtype=bool)
            env.before_observe(kernel=kernel, array=arr)
            ps, origin = self._geom(case)

            def whole():
                return kernel.convolved_array_from(array=arr)

            def masked():
                # the masked twin on a checkerboard-ish mask: must be the same numbers gathered at the mask
                mask2 = aa.Mask2D(mask=mm, pixel_scales=ps, origin=origin)
                src = arr.native
                lay = case.get("native_layout")
                if lay:     # a bare ndarray (other memory layout) where the native array is accepted
                    src = _layout(np.array(np.asarray(arr.native.array)), lay)
                env.track(mask2, src)
                return kernel.convolved_array_with_mask_from(array=src, mask=mask2)
            try:
                if env.swap():
                    out2 = masked()
                    out = whole()
                else:
                    out = whole()
                    out2 = masked()
            except exc.KernelException:
                return {"err": "even_kernel"}
            env.track(kernel, arr, out, out2)
            nat = out.native
            env.track(nat)
            if env.cfg():       # `native_binned_only` in force: there is no slim storage, gather from the native one
                sm = np.asarray(out2.native.array)[~mm]
            else:
                sm = np.asarray(out2.slim.array).ravel()
            return {"same": qlist(np.asarray(nat.array).ravel()), "same_masked": qlist(sm)}
        mask, kernel, cv, err = self._convolver(aa, case, env)
        if err:
            return err
        h, w = mask.shape_native
        bm = mask.derive_mask.blurring_from(kernel_shape_native=kernel.shape_native)
        env.track(bm)
        if kind == "convolve":
            sn = bool(case.get("store_native"))
            iform = case.get("image_form", "native_float")
            img = env.image("image", case["image"], (h, w), mask, iform, sn)
            blur = env.image("blur", case["blur"], (h, w), bm, case.get("blur_form", iform),
                             bool(case.get("blur_store_native", sn)))
            env.before_observe(mask=mask, kernel=kernel, cv=cv, image=img, blur=blur)

            def both():
                return cv.convolve_image(image=img, blurring_image=blur)

            def no_blurring():
                if case.get("interpolation_wrapper"):   # thin wrapper of the same operator on a raw slim array
                    raw = np.array(img.slim.array)
                    env.track(raw)
                    return cv.convolve_image_no_blurring_interpolation(image=raw)
                return cv.convolve_image_no_blurring(image=img)
            if env.swap():
                nb = no_blurring()
                out = both()
            else:
                out = both()
                nb = no_blurring()
            o_s, nb_s = out.slim, nb.slim
            env.track(img, blur, out, nb, o_s, nb_s)
            return {"blurred": qlist(np.asarray(o_s.array)), "no_blurring": qlist(np.asarray(nb_s.array)),
                    "blurring_mask": _bits(cv.blurring_mask)}
        if kind == "matrix":
            M = env.matrix(case)
            env.before_observe(mask=mask, kernel=kernel, cv=cv, matrix=M)
            out = cv.convolve_mapping_matrix(mapping_matrix=M)
            env.track(M, out)
            obs = {"matrix": qmat(np.asarray(out))}
            if case.get("interp"):
                # the thin no-blurring wrapper on column 0 as a raw slim array, read back through the native form
                raw = np.array(np.asarray(M, dtype=float)[:, 0])
                nb = cv.convolve_image_no_blurring_interpolation(image=raw)
                mb = np.asarray(mask, dtype=bool)
                env.track(raw, nb)
                obs["interp_col0"] = qlist(np.asarray(nb.native.array)[~mb])
            return obs
        if kind == "operator":
            mb = np.asarray(mask, dtype=bool)
            bb = np.asarray(bm, dtype=bool)
            support = [(y, x) for y in range(h) for x in range(w) if (not mb[y, x]) or (not bb[y, x])]
            cols = []
            for (y, x) in support:
                e = np.zeros((h, w))
                e[y, x] = 1.0
                out = cv.convolve_image(image=aa.Array2D(values=e, mask=mask),
                                        blurring_image=aa.Array2D(values=e, mask=bm))
                cols.append(qlist(np.asarray(out.slim.array)))
            return {"support": [list(p) for p in support], "columns": cols}
        if kind == "simulate":
            img = env.array_no_mask(case["image"], (h, w), case.get("image_form", "float"), role="simimage", case=case)
            A = np.array(np.asarray(img.native.array))
            bg = float(self._background(case))
            sim = env.simulator(case, kernel, bg)
            ds = env.dataset(sim, img)
            env.track(img, sim.psf, ds.data, ds.noise_map, ds.psf)
            if "chain" in case:
                masked = self._chain(aa, env, case, ds, mask, kernel)
            else:
                masked = env.masked(ds, mask)
            if tuple(masked.data.shape_native) != (h, w):
                return {"err": "padded", "shape": list(masked.data.shape_native)}
            env.before_observe(mask=mask, kernel=kernel, dataset=ds, masked=masked)
            cv2 = masked.convolver
            bm2 = masked.mask.derive_mask.blurring_from(kernel_shape_native=kernel.shape_native)
            i2, b2 = aa.Array2D(values=A, mask=masked.mask), aa.Array2D(values=A, mask=bm2)
            model = cv2.convolve_image(image=i2, blurring_image=b2)
            resid = np.asarray(masked.data.slim.array) - np.asarray(model.slim.array)
            env.track(masked.data, masked.noise_map, masked.psf, masked.mask, bm2, i2, b2, model, A,
                      cv2.image_frame_1d_kernels, cv2.image_frame_1d_indexes, cv2.blurring_frame_1d_kernels,
                      cv2.blurring_frame_1d_indexes, cv2.image_frame_1d_lengths, cv2.blurring_frame_1d_lengths)
            return {"simulated": qlist(np.asarray(ds.data.native.array).ravel()),
                    "data": qlist(np.asarray(masked.data.slim.array)),
                    "psf": qlist(np.asarray(masked.psf.native.array).ravel()),
                    "model": qlist(np.asarray(model.slim.array)),
                    "residual": qlist(resid)}
        raise ValueError(kind)

    # ------------------------------------------------------------------ model
    def model_requests(self, case, impl_obs):
        kind = case["kind"]
        if kind == "large":
            return []      # judged by the vectorised oracle alone (DESIGN §13)
        if kind == "history":
            # every step is compared with the model of a FRESH object in that step's state: one request per step
            obs = impl_obs.get("steps") if isinstance(impl_obs, dict) else None
            reqs = []
            for i, st in enumerate(case["steps"]):
                r = self.model_requests(st["case"], obs[i] if obs and i < len(obs) else {})
                assert len(r) == 1
                reqs += r
            return reqs
        if kind == "same":
            h, w = case["h"], case["w"]
            mm = [[(y * 3 + x) % 4 == 1 for x in range(w)] for y in range(h)]
            return [{"op": "c03.conv_same", "h": h, "w": w, "kernel": case["kernel"],
                     "image": case["image"], "gather_mask": mask_json(mm)}]
        if kind == "convolve":
            return [{"op": "c03.convolve", "mask": case["mask"], "kernel": case["kernel"],
                     "image": case["image"], "blur": case["blur"]}]
        if kind == "matrix":
            return [{"op": "c03.convolve_matrix", "mask": case["mask"], "kernel": case["kernel"],
                     "matrix": case["matrix"], "ncols": case["ncols"]}]
        if kind == "simulate":
            return [{"op": "c03.simulate_fit", "mask": case["mask"], "kernel": case["kernel"],
                     "image": case["image"], "normalize_psf": bool(case.get("normalize_psf", True)),
                     "background": q(self._background(case)), "exposure": case.get("exposure", "1"),
                     "subtract_background": bool(case.get("subtract_background", True))}]
        if kind == "operator":
            if "err" in impl_obs:
                return [{"op": "c03.convolve", "mask": case["mask"], "kernel": case["kernel"],
                         "image": [], "blur": []}]
            mj = case["mask"]
            h, w = mj["h"], mj["w"]
            reqs = []
            for (y, x) in impl_obs["support"]:
                e = ["0"] * (h * w)
                e[y * w + x] = "1"
                reqs.append({"op": "c03.convolve", "mask": mj, "kernel": case["kernel"], "image": e, "blur": e})
            return reqs
        raise ValueError(kind)

    def model_obs(self, case, responses):
        if case["kind"] == "history":
            return {"steps": [self.model_obs(st["case"], [r]) for st, r in zip(case["steps"], responses)]}
        for r in responses:
            if "err" in r:
                return {"err": r["err"]}
        kind = case["kind"]
        if kind == "same":
            return responses[0]["ok"]
        if kind == "convolve":
            return responses[0]["ok"]
        if kind == "matrix":
            mo = {"matrix": responses[0]["ok"]}
            if case.get("interp"):      # clause c: column 0 of the blurred matrix IS the no-blurring operator on column 0
                mo["interp_col0"] = [row[0] for row in responses[0]["ok"]]
            return mo
        if kind == "simulate":
            return responses[0]["ok"]
        if kind == "operator":
            return {"columns": [r["ok"]["blurred"] for r in responses]}
        raise ValueError(kind)

    TOL = Fraction(1, 10 ** 9)
    FAIL_CAP = 40       # see c10.py: bounds the runner's work when a large part of the cases fail
    _fails = 0
    _disagreements = 0

    def compare(self, case, impl_obs, model_obs, cmp):
        d = self._compare(case, impl_obs, model_obs, cmp)
        if d and "corpus_file" not in case:
            if self._disagreements >= self.FAIL_CAP:
                return None
            self._disagreements += 1
        return d

    def _compare(self, case, impl_obs, model_obs, cmp):
        if case["kind"] == "history":
            if "steps" not in impl_obs or len(impl_obs["steps"]) != len(case["steps"]):
                return f"history did not run: {str(impl_obs)[:200]}"
            for i, st in enumerate(case["steps"]):
                d = self._compare(st["case"], impl_obs["steps"][i], model_obs["steps"][i], cmp)
                if d:
                    return f"step {i} ({st.get('move')}): {d}"
            return None
        if "err" in impl_obs or "err" in model_obs:
            a = {"err": impl_obs.get("err")} if "err" in impl_obs else impl_obs
            return cmp.diff(a, model_obs)
        kind = case["kind"]
        if kind == "operator":
            return cmp.diff({"columns": impl_obs["columns"]}, model_obs)
        if case.get("tol"):
            # the only inexact stream (a PSF whose entries sum to 1 + 2^-r is normalised by a non-power of two):
            # DESIGN §2.4 tolerance 1e-9·max(1,|value|) at ordinary magnitudes; counted as tolerant comparisons
            c2 = Cmp(self.TOL, self.TOL)
            d = c2.diff(impl_obs, model_obs)
            cmp.exact += c2.exact
            cmp.tolerant += c2.tolerant
            return d
        return cmp.diff(impl_obs, model_obs)

    # ------------------------------------------------------------------ oracle (independent of the model)
    @staticmethod
    def _conv_at(full, K, kh, kw, h, w, p):
        """true convolution at p: sum_{i,j} full[p + half - (i,j)] * K[i][j], zero outside the frame"""
        hy, hx = kh // 2, kw // 2
        s = Fraction(0)
        for i in range(kh):
            yy = p[0] + hy - i
            if not (0 <= yy < h):
                continue
            for j in range(kw):
                xx = p[1] + hx - j
                if 0 <= xx < w:
                    s += full[yy][xx] * K[i][j]
        return s

    @staticmethod
    def _kernel_of(case):
        Kj = case["kernel"]
        kh, kw = Kj["h"], Kj["w"]
        v = [Fraction(x) for x in Kj["vals"]]
        return kh, kw, [v[i * kw:(i + 1) * kw] for i in range(kh)]

    @staticmethod
    def _native(vals, h, w):
        v = [Fraction(x) for x in vals]
        return [v[y * w:(y + 1) * w] for y in range(h)]

    def oracle(self, case, obs):
        try:
            ok, detail = self._oracle(case, obs)
        except ValueError as e:
            if "Fraction" not in str(e):
                raise
            ok, detail = False, f"the output contains a non-finite value ({e}): {str(obs)[:160]}"
        if not ok and "_s" not in case and "corpus_file" not in case:
            if self._fails >= self.FAIL_CAP:
                return True, ""
            self._fails += 1
        return ok, detail

    def _oracle(self, case, obs):
        kind = case["kind"]
        if kind == "large":
            return self._oracle_large(case, obs)
        if kind == "history":
            if "steps" not in obs or len(obs["steps"]) != len(case["steps"]):
                return False, f"history did not run: {str(obs)[:200]}"
            for i, st in enumerate(case["steps"]):
                ok, detail = self._oracle(st["case"], obs["steps"][i])
                if not ok:
                    flags = [k for k in ("decoy", "fault", "swap", "new", "derive") if st.get(k)]
                    return False, (f"history step {i} (move {st.get('move')}, {flags}) on reused objects differs from "
                                   f"a fresh computation: {detail}")
            return True, ""
        kh, kw, K = self._kernel_of(case)
        if kind == "simulate":   # the one PSF of the whole pipeline
            Ke = [Fraction(v) for v in self._effective_kernel(case)["vals"]]
            K = [Ke[i * kw:(i + 1) * kw] for i in range(kh)]
        even = kh % 2 == 0 or kw % 2 == 0
        if kind == "same":
            if even:
                return (obs.get("err") == "even_kernel"), f"even kernel not rejected: {str(obs)[:120]}"
            if "err" in obs:
                return False, f"odd kernel raised {obs}"
            h, w = case["h"], case["w"]
            A = self._native(case["image"], h, w)
            exp = [self._conv_at(A, K, kh, kw, h, w, (y, x)) for y in range(h) for x in range(w)]
            got = [Fraction(v) for v in obs["same"]]
            if got != exp:
                k = next(i for i, (a, b) in enumerate(zip(got, exp)) if a != b)
                return False, f"whole-frame convolution differs from the true convolution at pixel {divmod(k, w)}: {got[k]} vs {exp[k]}"
            mm = [[(y * 3 + x) % 4 == 1 for x in range(w)] for y in range(h)]
            exp2 = [exp[y * w + x] for y in range(h) for x in range(w) if not mm[y][x]]
            if [Fraction(v) for v in obs["same_masked"]] != exp2:
                return False, "convolved_array_with_mask_from is not the whole-frame convolution gathered at the mask"
            return True, ""
        mj = case["mask"]
        h, w = mj["h"], mj["w"]
        m = mask_from_json(mj)
        unm = [(y, x) for y in range(h) for x in range(w) if not m[y, x]]
        if even:
            return (obs.get("err") == "even_kernel"), f"even kernel not rejected: {str(obs)[:120]}"
        hy, hx = kh // 2, kw // 2
        inside = all(hy <= y and y + hy < h and hx <= x and x + hx < w for y, x in unm)
        if not inside:
            # outside the property's quantifier (footprint must stay inside): the documented outcome is the error
            return (obs.get("err") == "footprint_outside"), f"footprint leaves the frame but got {str(obs)[:120]}"
        if "err" in obs:
            return False, f"valid input raised {obs}"
        blurpix = set()
        for (y, x) in unm:
            for yy in range(y - hy, y + hy + 1):
                for xx in range(x - hx, x + hx + 1):
                    if m[yy, xx]:
                        blurpix.add((yy, xx))
        zero = Fraction(0)
        if kind == "convolve":
            A = self._native(case["image"], h, w)
            B = self._native(case["blur"], h, w)
            full = [[A[y][x] if not m[y, x] else (B[y][x] if (y, x) in blurpix else zero) for x in range(w)]
                    for y in range(h)]
            only = [[A[y][x] if not m[y, x] else zero for x in range(w)] for y in range(h)]
            exp = [self._conv_at(full, K, kh, kw, h, w, p) for p in unm]
            got = [Fraction(v) for v in obs["blurred"]]
            if got != exp:
                k = next((i for i, (a, b) in enumerate(zip(got, exp)) if a != b), None)
                return False, (f"convolve_image differs from the true convolution of the combined native image at "
                               f"unmasked pixel {unm[k] if k is not None else '?'}: {got[k] if k is not None else len(got)} "
                               f"vs {exp[k] if k is not None else len(exp)}")
            exp_nb = [self._conv_at(only, K, kh, kw, h, w, p) for p in unm]
            if [Fraction(v) for v in obs["no_blurring"]] != exp_nb:
                return False, "convolve_image_no_blurring differs from the true convolution of the masked image"
            return True, ""
        if kind == "matrix":
            M = [[Fraction(v) for v in row] for row in case["matrix"]]
            got = [[Fraction(v) for v in row] for row in obs["matrix"]]
            ncols = case["ncols"]
            if len(got) != len(unm) or any(len(r) != ncols for r in got):
                return False, "blurred mapping matrix has the wrong shape"
            for c in range(ncols):
                img = [[zero] * w for _ in range(h)]
                for k, (y, x) in enumerate(unm):
                    img[y][x] = M[k][c]
                for k, p in enumerate(unm):
                    e = self._conv_at(img, K, kh, kw, h, w, p)
                    if got[k][c] != e:
                        return False, (f"column {c} of the blurred mapping matrix is not the blurring operator applied "
                                       f"to column {c}: entry {k} is {got[k][c]}, expected {e}")
                    if c == 0 and "interp_col0" in obs and (len(obs["interp_col0"]) != len(unm)
                                                            or Fraction(obs["interp_col0"][k]) != e):
                        return False, ("convolve_image_no_blurring_interpolation on column 0 is not the blurring "
                                       f"operator applied to it (entry {k})")
            return True, ""
        if kind == "operator":
            support = sorted(set(unm) | blurpix)
            if [tuple(p) for p in obs["support"]] != support:
                return False, "mask ∪ blurring mask is not the union of the kernel footprints"
            for sidx, s in enumerate(support):
                col = [Fraction(v) for v in obs["columns"][sidx]]
                for k, p in enumerate(unm):
                    i, j = p[0] - s[0] + hy, p[1] - s[1] + hx
                    e = K[i][j] if (0 <= i < kh and 0 <= j < kw) else zero
                    if col[k] != e:
                        return False, f"operator entry (target {p}, source {s}) is {col[k]}, expected kernel[{i},{j}] = {e}"
            return True, ""
        if kind == "simulate":
            A = self._native(case["image"], h, w)
            exp = [self._conv_at(A, K, kh, kw, h, w, (y, x)) for y in range(h) for x in range(w)]
            sky = Fraction(0) if case.get("subtract_background", True) else Fraction(self._background(case))
            exp = [e + sky for e in exp]
            tol = self.TOL if case.get("tol") else None

            def same(got, want):
                got = [Fraction(v) for v in got]
                if tol is None:
                    return got == want
                return len(got) == len(want) and all(abs(a - b) <= tol * max(1, abs(b)) for a, b in zip(got, want))
            if not same(obs["simulated"], exp):
                return False, "noise-free simulated data is not the true whole-frame convolution with the simulator's PSF"
            if not same(obs["psf"], [v for r in K for v in r]):
                return False, ("the masked dataset's PSF is not the kernel the data were simulated with "
                               "(normalised exactly once iff normalize_psf)")
            if not same(obs["data"], [exp[y * w + x] for (y, x) in unm]):
                return False, "masked data are not the simulated data gathered at the mask"
            if not same(obs["residual"], [sky] * len(unm)):
                return False, f"noise-free simulated image is not fitted with zero residual: {obs['residual'][:6]}"
            return True, ""
        return True, ""

    def nontrivial(self, case, obs):
        if case["kind"] == "history":
            return len(case["steps"]) > 1 and any(self.nontrivial(st["case"], None) for st in case["steps"])
        if case["kind"] == "large":
            return True
        vals = [Fraction(v) for v in case["kernel"]["vals"]]
        return sum(1 for v in vals if v != 0) > 1

    def sample_view(self, case):
        return {k: v for k, v in case.items() if not k.startswith("_")}

    _shrink_rounds = 0
    SHRINK_ROUNDS_MAX = 150

    def shrink(self, case):
        self._shrink_rounds += 1
        if self._shrink_rounds > self.SHRINK_ROUNDS_MAX:
            return
        for c in self._shrink(case):
            c["_s"] = 1
            c.pop("corpus_file", None)
            yield c

    def _shrink(self, case):
        kind = case["kind"]
        if kind == "large":
            yield from self._shrink_large(case)
            return
        if kind == "history":
            steps = case["steps"]
            if len(steps) > 1:
                yield {**case, "steps": steps[:-1]}
                for i in range(len(steps) - 1):
                    yield {**case, "steps": steps[:i] + steps[i + 1:]}
            for i, st in enumerate(steps):
                for flag in ("decoy", "fault", "swap", "derive"):
                    if st.get(flag):
                        st2 = {k: v for k, v in st.items() if k not in (flag, "scale" if flag == "derive" else flag)}
                        yield {**case, "steps": steps[:i] + [st2] + steps[i + 1:]}
            return
        # simplify values toward 0 / 1
        if kind in ("convolve", "simulate", "same"):
            for key in ("image", "blur"):
                if key in case:
                    vals = case[key]
                    nz = [i for i, v in enumerate(vals) if Fraction(v) != 0]
                    if len(nz) > 1:
                        half = set(nz[: len(nz) // 2])
                        yield {**case, key: ["0" if i in half else v for i, v in enumerate(vals)]}
                        yield {**case, key: [v if (i in half or Fraction(v) == 0) else "0" for i, v in enumerate(vals)]}
                    for i in nz[:12]:
                        if len(nz) > 1:
                            yield {**case, key: ["0" if k == i else v for k, v in enumerate(vals)]}
        if kind == "matrix":
            M = case["matrix"]
            if case["ncols"] > 1:
                for c in range(case["ncols"]):
                    yield {**case, "ncols": case["ncols"] - 1, "matrix": [r[:c] + r[c + 1:] for r in M]}
            nz = [(i, j) for i, r in enumerate(M) for j, v in enumerate(r) if Fraction(v) != 0]
            if len(nz) > 1:
                for (i, j) in nz[:16]:
                    yield {**case, "matrix": [[("0" if (a, b) == (i, j) else v) for b, v in enumerate(r)]
                                              for a, r in enumerate(M)]}
        K = case["kernel"]
        nzk = [i for i, v in enumerate(K["vals"]) if Fraction(v) != 0]
        if len(nzk) > 1:
            for i in nzk[:12]:
                vals = ["0" if k == i else v for k, v in enumerate(K["vals"])]
                if kind == "simulate" and case.get("normalize_psf", True) and not case.get("tol") \
                        and not self._is_pow2(sum(Fraction(v) for v in vals)):
                    continue    # (normalising by a non-power of two rounds: not a witness of anything)
                yield {**case, "kernel": {**K, "vals": vals}}

    def theorems_for(self, case):
        if case["kind"] == "history":
            return sorted({t for st in case["steps"] for t in self.theorems_for(st["case"])})
        if case["kind"] == "large":
            return ["C03.convolve_eq_true_convolution", "C03.convolve_matrix_columnwise", "C03.whole_frame_agrees",
                    "C03.pipeline_zero_residual"]
        return {
            "convolve": ["C03.convolve_eq_true_convolution", "C03.convolve_no_blurring_eq_true_convolution",
                         "C03.non_interference", "C03.convolver_defined_iff", "C03.even_kernel_rejected"],
            "operator": ["C03.convolve_eq_true_convolution", "C03.convolve_is_linear"],
            "matrix": ["C03.convolve_matrix_columnwise", "C03.convolve_matrix_is_linear"],
            "same": ["C03.whole_frame_agrees"],
            "simulate": ["C03.whole_frame_agrees", "C03.simulated_zero_residual", "C03.pipeline_zero_residual",
                         "C03.pipeline_psf_normalised_once"],
        }.get(case["kind"], ["C03.*"])


CHECK = C03()
