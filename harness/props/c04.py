"""C04 — data vector and curvature matrix equal the normal equations in both formalisms.

A case fixes an imaging dataset (mask, native data, native noise map, odd PSF), an ordered list of linear
objects (rectangular / Delaunay mappers on a distorted source-plane grid, function lists given by their
mapping matrix) and the diagonal value.  `run_impl` builds `aa.Inversion` twice (use_w_tilde off / on)
and observes, for each: the class chosen by the factory, operated_mapping_matrix, data_vector,
curvature_matrix, reconstruction, mapped_reconstructed_data.  The mapper tables
(pix_indexes/weights/sizes_for_sub_slim_index, slim_index_for_sub_slim_index, sub_fraction, sub_size) and the
regularization matrix are taken from the implementation (they belong to C06 / C07 / C09) and handed to the
Lean model, which computes everything else both ways in exact rational arithmetic.
"""
from __future__ import annotations

import itertools
from fractions import Fraction

import numpy as np

import gen
from common import PropertyCheck, Skip, load_autoarray, mask_json, mask_from_json, q, qlist, qmat

F = Fraction

KERNEL_SHAPES = [(1, 1), (1, 3), (3, 1), (3, 3), (3, 5), (5, 3), (5, 5), (1, 5), (5, 1)]


def _f(x):
    return float(Fraction(x))


def _arr(xs):
    return np.array([_f(v) for v in xs], dtype=float)


def _mat(rows):
    return np.array([[_f(v) for v in r] for r in rows], dtype=float)


# ----------------------------------------------------------------------------------------------
# building the implementation objects
# ----------------------------------------------------------------------------------------------
def _as_input(a, case, allow_tuple=False, which=None):
    """deliver an array-valued input in the dtype / container the case asks for (same real numbers).
    `Array2D` / `Kernel2D` document `Union[np.ndarray, List]` (tuples are rejected), so tuples are used only
    where the API takes them (`Grid2DIrregular`: a list of (y,x) tuples)."""
    dt, ct = case.get("dtype", "float"), case.get("container", "ndarray")
    if which is not None and "dtypes" in case:
        dt = case["dtypes"].get(which, "float")      # dtype chosen independently per input
    a = np.asarray(a, dtype=float)
    if dt in ("int", "pyint"):
        ai = np.rint(a).astype(np.int64)
        assert np.array_equal(ai, a), "integer-dtype case with non-integral values"
        a = ai
    elif dt == "float32":
        a32 = a.astype(np.float32)
        assert np.array_equal(a32.astype(float), a), "float32 case with values not representable"
        a = a32
    if dt == "pyint" or ct == "list":
        return a.tolist()
    if ct == "tuple" and not allow_tuple:
        return a.tolist()
    if ct == "tuple":
        return [tuple(row) for row in a.tolist()]      # the documented "list of (y,x) tuples"
    return a


def build_dataset(aa, case):
    m = mask_from_json(case["mask"])
    h, w = m.shape
    ps = tuple(_f(v) for v in case.get("pixel_scales", ["1", "1"]))
    org = tuple(_f(v) for v in case.get("origin", ["0", "0"]))
    mask = aa.Mask2D(mask=m, pixel_scales=ps, origin=org)
    k = case["kernel"]
    kern = _as_input(_arr(k["vals"]).reshape(k["kh"], k["kw"]), case, which="kernel")
    psf = aa.Kernel2D.no_mask(values=kern, pixel_scales=ps)
    dn = _as_input(_arr(case["data"]).reshape(h, w), case, which="data")
    nn = _as_input(_arr(case["noise"]).reshape(h, w), case, which="noise")
    if case.get("via", "apply_mask") == "direct":
        # masked structures handed to the constructor: the PSF is used exactly as given
        ds = aa.Imaging(data=aa.Array2D(values=dn, mask=mask), noise_map=aa.Array2D(values=nn, mask=mask),
                        psf=psf, use_normalized_psf=False)
    else:
        # the usual route (`apply_mask` re-creates the dataset)
        data = aa.Array2D.no_mask(values=dn, pixel_scales=ps, origin=org)
        noise = aa.Array2D.no_mask(values=nn, pixel_scales=ps, origin=org)
        ds = aa.Imaging(data=data, noise_map=noise, psf=psf, use_normalized_psf=False)
        ds = ds.apply_mask(mask=mask)
    return mask, ds


def source_grid(aa, mask, case):
    n = int(mask.pixels_in_mask)
    sub = case.get("sub", 1)
    if isinstance(sub, int):
        subs = np.full(n, sub, dtype=int)
    else:
        subs = np.array(sub, dtype=int)
    ovs = aa.OverSamplerUniform(mask=mask, sub_size=aa.Array2D(values=subs, mask=mask))
    g = np.array(ovs.over_sampled_grid)
    d = case.get("distort")
    if d:
        a00, a01, a10, a11, q0, q1 = (_f(v) for v in d)
        y, x = g[:, 0], g[:, 1]
        g = np.stack([a00 * y + a01 * x + q0 * x * x, a10 * y + a11 * x + q1 * x * y], axis=1)
    return ovs, aa.Grid2DIrregular(values=g)


def build_objects(aa, mask, ds, case):
    from autoarray.inversion.mock.mock_linear_obj_func_list import MockLinearObjFuncList

    objs = []
    for o in case["objs"]:
        reg = aa.reg.Constant(coefficient=_f(o.get("coeff", "1"))) if o["reg"] else None
        if o["kind"] == "func":
            mm = _mat(o["matrix"])
            # the mock hands the matrix to `convolve_matrix_jit` as is: ndarray, in the case's dtype
            fdt = case.get("dtypes", {}).get("func", case.get("dtype", "float"))
            mm_in = np.asarray(_as_input(mm, {"container": "ndarray", "dtype": "int" if fdt in ("int", "pyint") else fdt}))
            objs.append(MockLinearObjFuncList(parameters=mm.shape[1], grid=ds.grids.uniform,
                                              mapping_matrix=mm_in, regularization=reg))
            continue
        ovs, grid = source_grid(aa, mask, {**case, **({"sub": o["sub"]} if "sub" in o else {})})
        if o["kind"] == "rect":
            mesh = aa.mesh.Rectangular(shape=tuple(o["shape"]))
            mg = mesh.mapper_grids_from(mask=mask, border_relocator=None, source_plane_data_grid=grid)
        else:
            mesh = aa.mesh.Delaunay()
            pv = np.array([(_f(p[0]), _f(p[1])) for p in o["points"]])
            if np.array_equal(np.rint(pv), pv):
                pv = _as_input(pv, case, allow_tuple=True, which="points")   # integer-valued vertices
            elif case.get("container") in ("list", "tuple"):
                pv = _as_input(pv, {**case, "dtype": "float"}, allow_tuple=True)
            pts = aa.Grid2DIrregular(values=pv)
            try:
                mg = mesh.mapper_grids_from(mask=mask, border_relocator=None,
                                            source_plane_data_grid=grid, source_plane_mesh_grid=pts)
            except Exception as e:  # Qhull rejects degenerate point sets: outside the property
                if "Qhull" in type(e).__name__ or "qhull" in str(e).lower():
                    raise Skip("degenerate Delaunay point set")
                raise
        try:
            objs.append(aa.Mapper(mapper_grids=mg, over_sampler=ovs, regularization=reg))
        except Exception as e:
            if "Qhull" in type(e).__name__ or "qhull" in str(e).lower():
                raise Skip("degenerate Delaunay point set")
            raise
    return objs


def mapper_tables(obj):
    """the per-sub-pixel tables of a mapper, as the model's `MapperTables`."""
    try:
        idx = np.asarray(obj.pix_indexes_for_sub_slim_index)
        sizes = np.asarray(obj.pix_sizes_for_sub_slim_index).astype(int)
        wts = np.asarray(obj.pix_weights_for_sub_slim_index)
    except Exception as e:
        if "Qhull" in type(e).__name__ or "qhull" in str(e).lower():
            raise Skip("degenerate Delaunay point set")
        raise
    rows = [[[int(idx[s, c]), q(wts[s, c])] for c in range(int(sizes[s]))] for s in range(idx.shape[0])]
    return {
        "kind": "mapper",
        "pixels": int(obj.params),
        "sub_rows": rows,
        "slim_for_sub": [int(v) for v in np.asarray(obj.slim_index_for_sub_slim_index)],
        "sub_fraction": qlist(np.asarray(obj.over_sampler.sub_fraction)),
        "sub_size": [int(v) for v in np.asarray(obj.over_sampler.sub_size)],
    }


def _exc_kind(e):
    n = type(e).__name__
    if n == "InversionException":
        return "singular"
    if n == "KernelException":
        return "even_kernel"
    return n


class C04(PropertyCheck):
    pid = "C04"
    title = "normal equations in the mapping and w-tilde formalisms"
    rtol = Fraction(1, 10 ** 9)
    nontrivial_rule = (
        "a case = one dataset + ordered object list, run with use_w_tilde off and on; non-trivial when the mask "
        "has >=2 unmasked and >=1 masked pixel and the kernel has >1 non-zero entry or the list has >1 object; "
        "distinct = distinct case dict"
    )
    exhaustive_note = {
        "quick": "structural space enumerated completely (values inside each structural case are seeded-random): "
                 "every ordered list of 1..2 objects over {rectangular, Delaunay, function list} x every kernel shape "
                 "in {1,3,5}^2 except (1,5),(5,1) x {non-negative, signed} on a fixed two-component mask; every "
                 "ordered list of 3 objects on (3,5)/(5,3) signed kernels",
        "thorough": "structural space enumerated completely (values seeded-random): every ordered list of 1..3 objects "
                    "over {rectangular, Delaunay, function list} x every kernel shape in {1,3,5}^2 x {non-negative, "
                    "signed} on two fixed masks",
    }
    modelled_functions = [
        "autoarray/operators/convolver.py:Convolver.__init__",
        "autoarray/operators/convolver.py:Convolver.frame_at_coordinates_jit",
        "autoarray/operators/convolver.py:Convolver.convolve_mapping_matrix",
        "autoarray/operators/convolver.py:Convolver.convolve_matrix_jit",
        "autoarray/operators/convolver.py:Convolver.convolve_image_no_blurring",
        "autoarray/operators/convolver.py:Convolver.convolve_no_blurring_jit",
        "autoarray/inversion/pixelization/mappers/mapper_util.py:mapping_matrix_from",
        "autoarray/inversion/pixelization/mappers/mapper_util.py:data_slim_to_pixelization_unique_from",
        "autoarray/inversion/pixelization/mappers/abstract.py:AbstractMapper.unique_mappings",
        "autoarray/inversion/linear_obj/unique_mappings.py:UniqueMappings.__init__",
        "autoarray/dataset/imaging/w_tilde.py:WTildeImaging.__init__",
        "autoarray/inversion/inversion/abstract.py:AbstractInversion.has",
        "autoarray/inversion/inversion/abstract.py:AbstractInversion.total",
        "autoarray/inversion/inversion/abstract.py:AbstractInversion.cls_list_from",
        "autoarray/inversion/pixelization/mappers/abstract.py:AbstractMapper.mapping_matrix",
        "autoarray/inversion/inversion/imaging/inversion_imaging_util.py:w_tilde_data_imaging_from",
        "autoarray/inversion/inversion/imaging/inversion_imaging_util.py:w_tilde_curvature_imaging_from",
        "autoarray/inversion/inversion/imaging/inversion_imaging_util.py:w_tilde_curvature_preload_imaging_from",
        "autoarray/inversion/inversion/imaging/inversion_imaging_util.py:w_tilde_curvature_value_from",
        "autoarray/inversion/inversion/imaging/inversion_imaging_util.py:data_vector_via_w_tilde_data_imaging_from",
        "autoarray/inversion/inversion/imaging/inversion_imaging_util.py:data_vector_via_blurred_mapping_matrix_from",
        "autoarray/inversion/inversion/imaging/inversion_imaging_util.py:curvature_matrix_via_w_tilde_curvature_preload_imaging_from",
        "autoarray/inversion/inversion/imaging/inversion_imaging_util.py:curvature_matrix_off_diags_via_w_tilde_curvature_preload_imaging_from",
        "autoarray/inversion/inversion/imaging/inversion_imaging_util.py:curvature_matrix_off_diags_via_mapper_and_linear_func_curvature_vector_from",
        "autoarray/inversion/inversion/inversion_util.py:curvature_matrix_via_mapping_matrix_from",
        "autoarray/inversion/inversion/inversion_util.py:curvature_matrix_with_added_to_diag_from",
        "autoarray/inversion/inversion/inversion_util.py:curvature_matrix_mirrored_from",
        "autoarray/inversion/inversion/inversion_util.py:mapped_reconstructed_data_via_mapping_matrix_from",
        "autoarray/inversion/inversion/inversion_util.py:mapped_reconstructed_data_via_image_to_pix_unique_from",
        "autoarray/inversion/inversion/inversion_util.py:reconstruction_positive_negative_from",
        "autoarray/inversion/inversion/abstract.py:AbstractInversion.param_range_list_from",
        "autoarray/inversion/inversion/abstract.py:AbstractInversion.total_params",
        "autoarray/inversion/inversion/abstract.py:AbstractInversion.no_regularization_index_list",
        "autoarray/inversion/inversion/abstract.py:AbstractInversion.operated_mapping_matrix",
        "autoarray/inversion/inversion/abstract.py:AbstractInversion.regularization_matrix",
        "autoarray/inversion/inversion/abstract.py:AbstractInversion.curvature_reg_matrix",
        "autoarray/inversion/inversion/abstract.py:AbstractInversion.reconstruction",
        "autoarray/inversion/inversion/abstract.py:AbstractInversion.source_quantity_dict_from",
        "autoarray/inversion/inversion/abstract.py:AbstractInversion.mapped_reconstructed_data",
        "autoarray/inversion/inversion/imaging/abstract.py:AbstractInversionImaging.operated_mapping_matrix_list",
        "autoarray/inversion/inversion/imaging/abstract.py:AbstractInversionImaging.linear_func_operated_mapping_matrix_dict",
        "autoarray/inversion/inversion/imaging/mapping.py:InversionImagingMapping.data_vector",
        "autoarray/inversion/inversion/imaging/mapping.py:InversionImagingMapping.curvature_matrix",
        "autoarray/inversion/inversion/imaging/mapping.py:InversionImagingMapping.mapped_reconstructed_data_dict",
        "autoarray/inversion/inversion/imaging/w_tilde.py:InversionImagingWTilde.__init__",
        "autoarray/inversion/inversion/imaging/w_tilde.py:InversionImagingWTilde.w_tilde_data",
        "autoarray/inversion/inversion/imaging/w_tilde.py:InversionImagingWTilde._data_vector_mapper",
        "autoarray/inversion/inversion/imaging/w_tilde.py:InversionImagingWTilde.data_vector",
        "autoarray/inversion/inversion/imaging/w_tilde.py:InversionImagingWTilde._data_vector_x1_mapper",
        "autoarray/inversion/inversion/imaging/w_tilde.py:InversionImagingWTilde._data_vector_multi_mapper",
        "autoarray/inversion/inversion/imaging/w_tilde.py:InversionImagingWTilde._data_vector_func_list_and_mapper",
        "autoarray/inversion/inversion/imaging/w_tilde.py:InversionImagingWTilde.curvature_matrix",
        "autoarray/inversion/inversion/imaging/w_tilde.py:InversionImagingWTilde._curvature_matrix_mapper_diag",
        "autoarray/inversion/inversion/imaging/w_tilde.py:InversionImagingWTilde._curvature_matrix_off_diag_from",
        "autoarray/inversion/inversion/imaging/w_tilde.py:InversionImagingWTilde._curvature_matrix_x1_mapper",
        "autoarray/inversion/inversion/imaging/w_tilde.py:InversionImagingWTilde._curvature_matrix_multi_mapper",
        "autoarray/inversion/inversion/imaging/w_tilde.py:InversionImagingWTilde._curvature_matrix_func_list_and_mapper",
        "autoarray/inversion/inversion/imaging/w_tilde.py:InversionImagingWTilde.mapped_reconstructed_data_dict",
        "autoarray/inversion/inversion/factory.py:inversion_imaging_from",
        "autoarray/dataset/imaging/dataset.py:Imaging.w_tilde",
        "autoarray/dataset/imaging/dataset.py:Imaging.convolver",
        "autoarray/dataset/imaging/dataset.py:Imaging.apply_mask",
    ]
    trusted_extra = [
        "numpy.linalg.solve (contract: exact solution; checked per case against the model's exact rational solve "
        "when the system is well conditioned) and np.dot / hstack / slicing glue: modelled, not verified",
        "mapper tables (pix_indexes/weights/sizes_for_sub_slim_index, slim_index_for_sub_slim_index, sub_fraction) "
        "and the regularization matrix are taken from the implementation (properties C06/C07/C09), incl. Qhull",
        "IEEE rounding: model is exact (Rat); comparisons exact when the value is a double, else rtol 1e-9",
    ]
    assumptions = [
        "kernel footprint of every unmasked pixel inside the frame; noise map strictly positive; odd kernel",
        "reconstruction compared only when cond(F+H)*max(1,|s|) < 1e6 (otherwise both solves are checked by residual only)",
    ]

    # ------------------------------------------------------------------ generation
    def _values(self, rng, mask, kshape, signed, sub=None, easy=False):
        h, w = len(mask), len(mask[0])
        kh, kw = kshape
        # round-3 hardening: dtype and container of every array-valued input, constructor route
        def pick():
            return rng.choices(["float", "int", "pyint", "float32"], weights=[62, 20, 9, 9])[0]
        # dtype chosen INDEPENDENTLY per array-valued input (an integer image with a fractional kernel, an
        # integer mapping matrix with fractional noise, … are the combinations that expose dtype leaks)
        dtypes = {"kernel": pick(), "data": pick(), "noise": pick(), "func": pick(), "points": pick()}
        container = rng.choices(["ndarray", "list", "tuple"], weights=[70, 18, 12])[0]
        ctor = rng.choices(["Inversion", "factory", "class", "interface"], weights=[55, 15, 15, 15])[0]
        ints = dtypes["kernel"] in ("int", "pyint")
        kvals = []
        for _ in range(kh * kw):
            v = F(rng.randint(0, 4)) if ints else F(rng.randint(0, 8), 8)
            if signed and rng.random() < 0.4:
                v = -v
            kvals.append(v)
        if all(v == 0 for v in kvals):
            kvals[(kh // 2) * kw + kw // 2] = F(1)
        if signed and all(v >= 0 for v in kvals):
            kvals[0] = F(-1) if ints else F(-1, 2)
            if kh * kw > 1:
                kvals[-1] = F(-2) if ints else F(-1, 4)
        via = rng.choice(["direct", "apply_mask"])
        if dtypes["data"] in ("int", "pyint"):
            data = [F(rng.randint(-8, 8)) for _ in range(h * w)]
        else:
            data = [gen.dyadic(rng, -4, 4, 2) for _ in range(h * w)]
        if dtypes["noise"] in ("int", "pyint"):
            noise = [rng.choice([F(1), F(2), F(4), F(1), F(3)]) for _ in range(h * w)]
        else:
            noise = [rng.choice([F(1, 2), F(1), F(2), F(4), F(1, 4), F(3, 2)]) for _ in range(h * w)]
        n = sum(1 for r in mask for b in r if not b)
        if sub is None:
            sub = rng.choice([1, 2, [rng.choice([1, 2, 3]) for _ in range(n)], [rng.choice([1, 2]) for _ in range(n)]])
        return {
            "mask": mask_json(mask),
            "kernel": {"kh": kh, "kw": kw, "vals": qlist(kvals)},
            "data": qlist(data), "noise": qlist(noise), "sub": sub, "via": via,
            "dtypes": dtypes, "container": container, "ctor": ctor,
        }

    def _objs(self, rng, kinds, n, c):
        dt = c["dtypes"]
        return [self._obj(rng, k, n, ints=dt["func"] in ("int", "pyint"),
                          int_points=dt["points"] in ("int", "pyint")) for k in kinds]

    def _eps(self, rng):
        """the diagonal value: unset (config default), set-but-falsy 0.0, explicit default, others"""
        return rng.choice([None, "0", q(F(1e-3)), q(F(1, 1024)), q(F(1, 4)), q(F(1, 64))])

    def _obj(self, rng, kind, n, signed_funcs=True, ints=False, int_points=None):
        int_points = ints if int_points is None else int_points
        reg = rng.random() < 0.7
        if kind == "R":
            return {"kind": "rect", "shape": [rng.randint(3, 4), rng.randint(3, 5)], "reg": reg,
                    "coeff": q(rng.choice([F(1), F(1, 2), F(2)]))}
        if kind == "D":
            k = rng.randint(4, 7)
            pts = set()
            while len(pts) < k:
                if int_points:  # integer-valued vertices (delivered as int64 / Python ints)
                    pts.add((F(rng.randint(-4, 4)), F(rng.randint(-4, 4))))
                else:
                    pts.add((gen.dyadic(rng, -3, 3, 3), gen.dyadic(rng, -3, 3, 3)))
            return {"kind": "delaunay", "points": [[q(a), q(b)] for a, b in sorted(pts)], "reg": reg,
                    "coeff": q(rng.choice([F(1), F(1, 2)]))}
        p = rng.randint(1, 3)
        lo = -4 if signed_funcs else 0
        if ints:
            mm = [[F(rng.randint(lo, 6)) for _ in range(p)] for _ in range(n)]
        else:
            mm = [[F(rng.randint(lo, 6), 4) for _ in range(p)] for _ in range(n)]
        return {"kind": "func", "matrix": qmat(mm), "reg": rng.random() < 0.25, "coeff": "1"}

    def _geometry(self, rng):
        return {
            "pixel_scales": qlist(gen.scales_pair(rng)),
            "origin": qlist(gen.origin_pair(rng)),
            "distort": qlist([gen.dyadic(rng, -2, 2, 2) or F(1), gen.dyadic(rng, -1, 1, 2),
                              gen.dyadic(rng, -1, 1, 2), gen.dyadic(rng, -2, 2, 2) or F(1, 2),
                              gen.dyadic(rng, -1, 1, 3) or F(1, 8), gen.dyadic(rng, -1, 1, 3) or F(-1, 8)]),
        }

    @staticmethod
    def _fixed_mask(kshape, variant=0):
        """two components + a hole / diagonal contact, margin = half kernel, non-square frame."""
        my, mx = kshape[0] // 2, kshape[1] // 2
        if variant == 0:
            inner = ["0010",
                     "0110",
                     "1001"]
        else:
            inner = ["01011",
                     "10100",
                     "00010",
                     "11001"]
        ih, iw = len(inner), len(inner[0])
        h, w = ih + 2 * my, iw + 2 * mx
        m = [[True] * w for _ in range(h)]
        for y in range(ih):
            for x in range(iw):
                m[y + my][x + mx] = inner[y][x] == "1"
        return m

    def generate(self, tier, rng):
        kinds = "RDF"
        # 1. enumerated: object lists × kernel shapes × sign
        lists12 = [c for k in (1, 2) for c in itertools.product(kinds, repeat=k)]
        lists3 = list(itertools.product(kinds, repeat=3))
        variants = (0,) if tier == "quick" else (0, 1)
        for variant in variants:
            for kshape in (KERNEL_SHAPES[:7] if tier == "quick" else KERNEL_SHAPES):
                for signed in (False, True):
                    m = self._fixed_mask(kshape, variant)
                    n = sum(1 for r in m for b in r if not b)
                    ls = list(lists12)
                    if tier == "thorough" or (kshape in ((3, 5), (5, 3)) and signed):
                        ls = ls + lists3
                    for lst in ls:
                        c = self._values(rng, m, kshape, signed)
                        c.update(self._geometry(rng))
                        c["objs"] = self._objs(rng, lst, n, c)
                        c["eps"] = self._eps(rng)
                        c["tag"] = f"enum_{''.join(lst)}_{kshape[0]}x{kshape[1]}_{'signed' if signed else 'nonneg'}"
                        yield c
        # 2. structured random
        nrand = 90 if tier == "quick" else 1200
        for _ in range(nrand):
            kshape = rng.choice(KERNEL_SHAPES[1:])
            signed = rng.random() < 0.5
            my, mx = kshape[0] // 2, kshape[1] // 2
            ih, iw = rng.randint(2, 5), rng.randint(2, 6)
            kind = rng.choice(["block", "blocks", "annulus", "cross", "diagonal", "bernoulli", "all",
                               "ring_touching"])
            inner, kind = gen.random_mask(rng, ih, iw, margin=0, kind=kind)
            h, w = ih + 2 * my + rng.randint(0, 1), iw + 2 * mx + rng.randint(0, 1)
            oy, ox = rng.randint(my, h - ih - my), rng.randint(mx, w - iw - mx)
            m = [[True] * w for _ in range(h)]
            for y in range(ih):
                for x in range(iw):
                    m[y + oy][x + ox] = inner[y][x]
            n = sum(1 for r in m for b in r if not b)
            if n < 2:
                continue
            c = self._values(rng, m, kshape, signed)
            c.update(self._geometry(rng))
            k = rng.choice([1, 1, 2, 2, 3])
            c["objs"] = self._objs(rng, [rng.choice(kinds) for _ in range(k)], n, c)
            if rng.random() < 0.3:   # per-mapper over-sampling sizes
                for o in c["objs"]:
                    if o["kind"] != "func":
                        o["sub"] = rng.choice([1, 2, 3])
            c["eps"] = self._eps(rng)
            c["tag"] = f"rand_{kind}_{kshape[0]}x{kshape[1]}_{'signed' if signed else 'nonneg'}_{k}obj"
            yield c
            mappers = [o for o in c["objs"] if o["kind"] != "func"]
            if mappers and rng.random() < 0.5:
                # the util functions named by the property, on the same dataset and its first mapper
                yield {**c, "kind": "utils", "objs": [mappers[0]],
                       "tag": f"utils_{kshape[0]}x{kshape[1]}_{'signed' if signed else 'nonneg'}_{mappers[0]['kind']}"}
        # 2b. degenerate sizes (round-3 hardening): one unmasked pixel, 1xN / Nx1 / 1x1 frames, all-unmasked
        #     masks (1x1 kernel), always with the footprint inside the frame; mappers use sub-size 2 so that
        #     the source-plane grid is not a single point / a single line
        degen = []
        for kshape in ((1, 1), (1, 3), (3, 1), (3, 3), (3, 5)):
            my, mx = kshape[0] // 2, kshape[1] // 2
            wd, ht = 2 * mx + 1 + rng.randint(0, 2), 2 * my + 1 + rng.randint(0, 1)
            m1 = [[True] * wd for _ in range(ht)]
            m1[my][mx] = False                                   # exactly one unmasked pixel
            degen.append((m1, kshape))
        for wdt in (1, 2, 4):
            degen.append(([[False] * wdt], (1, 1)))                # 1xN frame, all unmasked, 1x1 kernel
            degen.append(([[False] for _ in range(wdt)], (1, 1)))  # Nx1 frame
        degen.append(([[True, False, False, True, False, True]], (1, 3)))   # 1xN frame, (1,3) kernel
        degen.append(([[True], [False], [False], [True]], (3, 1)))          # Nx1 frame, (3,1) kernel
        degen.append(([[False, False, False], [False, False, False]], (1, 1)))   # all unmasked
        for m, kshape in degen:
            n = sum(1 for r in m for b in r if not b)
            for lst in (("F",), ("R",), ("D", "F"), ("F", "R")) if tier == "quick" else \
                    (("F",), ("R",), ("D",), ("D", "F"), ("F", "R"), ("R", "R")):
                c = self._values(rng, m, kshape, rng.random() < 0.5, sub=2)
                c.update(self._geometry(rng))
                c["objs"] = self._objs(rng, lst, n, c)
                c["eps"] = self._eps(rng)
                c["tag"] = f"degen_{len(m)}x{len(m[0])}_n{n}_{kshape[0]}x{kshape[1]}_{''.join(lst)}"
                yield c
        # 3. the mirroring routine alone, on sparse asymmetric matrices
        for _ in range(30 if tier == "quick" else 300):
            n = rng.randint(1, 6)
            mm = [[(F(rng.randint(-4, 4), 2) if rng.random() < 0.5 else F(0)) for _ in range(n)] for _ in range(n)]
            yield {"tag": "mirrored", "kind": "mirrored", "matrix": qmat(mm)}

    # ------------------------------------------------------------------ implementation
    def run_impl(self, case):
        aa = load_autoarray()
        if case.get("kind") == "mirrored":
            from autoarray.inversion.inversion import inversion_util

            out = inversion_util.curvature_matrix_mirrored_from(curvature_matrix=_mat(case["matrix"]))
            return {"mirrored": qmat(out)}
        try:
            mask, ds = build_dataset(aa, case)
        except Exception as e:
            if type(e).__name__ in ("KernelException",):
                return {"err": _exc_kind(e)}
            raise
        objs = build_objects(aa, mask, ds, case)
        if case.get("kind") == "utils":
            return self._run_utils(aa, mask, ds, objs[0], case)
        tables = []
        for o, spec in zip(objs, case["objs"]):
            if spec["kind"] == "func":
                tables.append({"kind": "func", "params": len(spec["matrix"][0]), "matrix": spec["matrix"],
                               "has_reg": bool(spec["reg"])})
            else:
                t = mapper_tables(o)
                t["has_reg"] = bool(spec["reg"])
                tables.append(t)
        if case["eps"] is None:
            from autoconf import conf
            eps_setting = None       # "not set": the code falls back to the (pinned) config value
            eps = float(conf.instance["general"]["inversion"]["no_regularization_add_to_curvature_diag_value"])
        else:
            eps_setting = eps = _f(case["eps"])     # includes the set-but-falsy 0.0 and the explicit default
        kern = np.asarray(ds.psf.native)
        if not np.all(np.isfinite(kern)):
            raise Skip("PSF normalisation of a zero-sum kernel")
        obs = {"_tables": tables, "_eps": q(eps),
               "_kernel": {"kh": int(kern.shape[0]), "kw": int(kern.shape[1]), "vals": qlist(kern.ravel())}}
        def matrices(inv):
            return {"operated_mapping_matrix": qmat(np.asarray(inv.operated_mapping_matrix)),
                    "data_vector": qlist(np.asarray(inv.data_vector)),
                    "curvature_matrix": qmat(np.array(inv.curvature_matrix, copy=True))}

        def solve(inv):
            try:
                rec = np.array(inv.reconstruction, copy=True)
                return {"reconstruction": qlist(rec),
                        "mapped_reconstructed_data": qlist(np.asarray(inv.mapped_reconstructed_data))}
            except Exception as e:
                return {"reconstruction": _exc_kind(e)}

        ctor = case.get("ctor", "Inversion")

        def make(flag, settings):
            """the same functionality through the public entry points named by the property"""
            if ctor == "factory":
                from autoarray.inversion.inversion.factory import inversion_imaging_from
                return inversion_imaging_from(dataset=ds, linear_obj_list=objs, settings=settings)
            if ctor == "interface":
                di = aa.DatasetInterface(data=ds.data, noise_map=ds.noise_map, convolver=ds.convolver,
                                         w_tilde=ds.w_tilde, grids=ds.grids)
                return aa.Inversion(dataset=di, linear_obj_list=objs, settings=settings)
            if ctor == "class":
                from autoarray.inversion.inversion.imaging.mapping import InversionImagingMapping
                from autoarray.inversion.inversion.imaging.w_tilde import InversionImagingWTilde
                if flag and not all(sp["kind"] == "func" for sp in case["objs"]):
                    return InversionImagingWTilde(dataset=ds, w_tilde=ds.w_tilde, linear_obj_list=objs,
                                                  settings=settings)
                return InversionImagingMapping(dataset=ds, linear_obj_list=objs, settings=settings)
            return aa.Inversion(dataset=ds, linear_obj_list=objs, settings=settings)

        for flag, key in ((False, "mapping"), (True, "w_tilde")):
            settings = aa.SettingsInversion(use_w_tilde=flag, use_positive_only_solver=False,
                                            no_regularization_add_to_curvature_diag_value=eps_setting)
            # Two access histories per formalism (the quantities are cached properties and the solve adds
            # the regularization matrix to the curvature matrix, in place on some paths):
            #   first instance : matrices, solve, matrices AGAIN ("after")
            #   second instance: solve FIRST, then matrices ("solve_first")
            try:
                inv = make(flag, settings)
                o = {"formalism": {"InversionImagingMapping": "mapping",
                                   "InversionImagingWTilde": "w_tilde"}.get(type(inv).__name__, type(inv).__name__)}
                o.update(matrices(inv))
            except Exception as e:
                if "Qhull" in type(e).__name__ or "qhull" in str(e).lower():
                    raise Skip("degenerate Delaunay point set")
                obs[key] = {"err": _exc_kind(e), "msg": str(e)[:200]}
                continue
            if "_H" not in obs:
                obs["_H"] = qmat(np.asarray(inv.regularization_matrix))
            o.update(solve(inv))
            o["after"] = matrices(inv)
            inv2 = make(flag, settings)
            sf = solve(inv2)
            sf.update(matrices(inv2))
            o["solve_first"] = sf
            obs[key] = o
        return obs

    def _run_utils(self, aa, mask, ds, mapper, case):
        """the util functions the property names, observed in order-insensitive dense form."""
        from autoarray.inversion.inversion.imaging import inversion_imaging_util as iu

        kern = np.asarray(ds.psf.native)
        if not np.all(np.isfinite(kern)):
            raise Skip("PSF normalisation of a zero-sum kernel")
        nfs = mask.derive_indexes.native_for_slim
        n = int(mask.pixels_in_mask)
        img_n, noise_n = np.array(ds.data.native), np.array(ds.noise_map.native)
        wtd = iu.w_tilde_data_imaging_from(image_native=img_n, noise_map_native=noise_n,
                                           kernel_native=kern, native_index_for_slim_index=nfs)
        wfull = iu.w_tilde_curvature_imaging_from(noise_map_native=noise_n, kernel_native=kern,
                                                  native_index_for_slim_index=nfs)
        pre, idxs, lens = iu.w_tilde_curvature_preload_imaging_from(
            noise_map_native=noise_n, kernel_native=kern, native_index_for_slim_index=nfs)
        upper = np.zeros((n, n))      # the matrix the (preload, indexes, lengths) triple encodes
        k = 0
        for a in range(n):
            for _ in range(int(lens[a])):
                upper[a, int(idxs[k])] += pre[k]
                k += 1
        um = mapper.unique_mappings
        pix = int(mapper.params)
        enc = np.zeros((n, pix))      # the matrix the unique mappings encode
        for d in range(n):
            for j in range(int(um.pix_lengths[d])):
                enc[d, int(um.data_to_pix_unique[d, j])] += um.data_weights[d, j]
        wt = ds.w_tilde
        dv = iu.data_vector_via_w_tilde_data_imaging_from(
            w_tilde_data=wtd, data_to_pix_unique=um.data_to_pix_unique.astype("int"),
            data_weights=um.data_weights, pix_lengths=um.pix_lengths.astype("int"), pix_pixels=pix)
        cur = iu.curvature_matrix_via_w_tilde_curvature_preload_imaging_from(
            curvature_preload=wt.curvature_preload, curvature_indexes=wt.indexes, curvature_lengths=wt.lengths,
            data_to_pix_unique=um.data_to_pix_unique.astype("int"), data_weights=um.data_weights,
            pix_lengths=um.pix_lengths.astype("int"), pix_pixels=pix)
        t = mapper_tables(mapper)
        t["has_reg"] = True
        # the tables exactly as the implementation stores them (padded arrays + length columns)
        unique_stored = {
            "data_to_pix_unique": [[int(v) for v in row] for row in np.asarray(um.data_to_pix_unique)],
            "data_weights": qmat(np.asarray(um.data_weights)),
            "pix_lengths": [int(v) for v in np.asarray(um.pix_lengths)],
        }
        preload_stored = {
            "curvature_preload": qlist(np.asarray(wt.curvature_preload)),
            "curvature_indexes": [int(v) for v in np.asarray(wt.indexes)],
            "curvature_lengths": [int(v) for v in np.asarray(wt.lengths)],
        }
        # the zero filter of the preload is a float test: its structure is compared only when all
        # arithmetic is exact (noise values powers of two; kernel and data are dyadic by construction)
        exact = all(Fraction(v) in (F(1, 4), F(1, 2), F(1), F(2), F(4))
                    for v, mk in zip(case["noise"], mask_from_json(case["mask"]).ravel()) if not mk)
        # The stored arrays are handed to the model's consumers as they are; their padding values and
        # second-axis width are NOT compared (not observable through the public API: a refactor that pads
        # differently must stay quiet) — only what is read through the length columns matters.
        return {
            "_tables": [t],
            "_impl_unique": unique_stored, "_impl_preload": preload_stored, "_exact": exact,
            "data_vector_from_impl_tables": qlist(dv), "curvature_from_impl_tables": qmat(cur),
            "_kernel": {"kh": int(kern.shape[0]), "kw": int(kern.shape[1]), "vals": qlist(kern.ravel())},
            "w_tilde_data": qlist(wtd), "w_tilde": qmat(wfull), "preload_upper": qmat(upper),
            "unique_encodes": qmat(enc), "mapping_matrix": qmat(np.asarray(mapper.mapping_matrix)),
            "data_vector": qlist(dv), "curvature": qmat(cur),
        }

    # ------------------------------------------------------------------ model
    def model_requests(self, case, impl_obs):
        if case.get("kind") == "mirrored":
            return [{"op": "c04.mirrored", "matrix": case["matrix"]}]
        if "err" in impl_obs:
            return [{"op": "c04.inversion", "mask": case["mask"], "kernel": case["kernel"], "data": [],
                     "noise": [], "objs": [], "eps": case["eps"] or "0", "use_w_tilde": False}]
        m = mask_from_json(case["mask"]).ravel()
        data = [v for v, mk in zip(case["data"], m) if not mk]
        noise = [v for v, mk in zip(case["noise"], m) if not mk]
        if case.get("kind") == "utils":
            return [{"op": "c04.wtilde_utils", "mask": case["mask"], "kernel": impl_obs["_kernel"], "data": data,
                     "noise": noise, "mapper": impl_obs["_tables"][0],
                     "impl_unique": impl_obs["_impl_unique"], "impl_preload": impl_obs["_impl_preload"],
                     "pix_pixels": impl_obs["_tables"][0]["pixels"]}]
        base = {"op": "c04.inversion", "mask": case["mask"], "kernel": impl_obs["_kernel"], "data": data,
                "noise": noise, "objs": impl_obs["_tables"], "eps": impl_obs["_eps"]}
        if "_H" in impl_obs:
            base["reg_matrix"] = impl_obs["_H"]
        return [{**base, "use_w_tilde": False}, {**base, "use_w_tilde": True}]

    def model_obs(self, case, responses):
        if case.get("kind") == "mirrored":
            r = responses[0]
            return {"mirrored": r["ok"]} if "ok" in r else {"err": r.get("err")}
        if case.get("kind") == "utils":
            r = responses[0]
            if "ok" not in r:
                return {"err": r.get("err")}
            o = r["ok"]
            n = len(o["w_tilde_data"])

            def dense(rows, width):
                m = [[Fraction(0)] * width for _ in rows]
                for a, row in enumerate(rows):
                    for b, v in row:
                        m[a][b] += Fraction(v)
                return qmat(m)

            stored = {"data_vector_from_impl_tables": o["data_vector_from_impl_tables"],
                      "curvature_from_impl_tables": o["curvature_from_impl_tables"]}
            return {**stored, "w_tilde_data": o["w_tilde_data"], "w_tilde": o["w_tilde"],
                    "preload_upper": dense(o["preload"], n),
                    "unique_encodes": dense(o["unique"], len(o["mapping_matrix"][0]) if o["mapping_matrix"] else 0),
                    "mapping_matrix": o["mapping_matrix"], "data_vector": o["data_vector"],
                    "curvature": o["curvature"]}
        if len(responses) == 1:
            r = responses[0]
            return r["ok"] if "ok" in r else {"err": r.get("err")}
        out = {}
        for key, r in zip(("mapping", "w_tilde"), responses):
            if "ok" not in r:
                out[key] = {"err": r.get("err")}
                continue
            o = dict(r["ok"])
            mats = {k: o[k] for k in ("operated_mapping_matrix", "data_vector", "curvature_matrix")}
            o["after"] = dict(mats)             # reads are history independent in the model
            sf = dict(mats)
            for k in ("reconstruction", "mapped_reconstructed_data"):
                if k in o:
                    sf[k] = o[k]
            o["solve_first"] = sf
            out[key] = o
        return out

    @staticmethod
    def _cond(impl_obs, key):
        """amplification of rounding in the solve: cond(F+H) * max(1, |s|_inf).  Entries of the
        reconstruction are compared (rtol 1e-9 on max(1,|entry|)) only when this is < 1e6, i.e. when the
        data determine numpy's answer to about 1e-10 absolutely."""
        o = impl_obs.get(key, {})
        if "curvature_matrix" not in o or "_H" not in impl_obs:
            return float("inf")
        A = _mat(o["curvature_matrix"]) + _mat(impl_obs["_H"])
        try:
            c = float(np.linalg.cond(A))
        except Exception:
            return float("inf")
        rec = o.get("reconstruction")
        if isinstance(rec, list) and rec:
            c *= max(1.0, float(np.max(np.abs(_arr(rec)))))
        return c

    def compare(self, case, impl_obs, model_obs, cmp):
        if case.get("kind") == "utils" and "err" not in impl_obs:
            return cmp.diff({k: v for k, v in impl_obs.items() if not k.startswith("_")}, model_obs)
        if case.get("kind") == "mirrored" or "err" in impl_obs:
            return cmp.diff({k: v for k, v in impl_obs.items() if k != "msg"}, model_obs)
        for key in ("mapping", "w_tilde"):
            a, b = dict(impl_obs[key]), dict(model_obs[key])
            a.pop("msg", None)
            if "err" in a or "err" in b:
                d = cmp.diff(a, b, f"$.{key}")
                if d:
                    return d
                continue
            # the solve: compare only when numpy's answer is determined to 1e-9 by the data
            well = self._cond(impl_obs, key) < 1e6
            for sub in (None, "after", "solve_first"):
                ra = dict(a if sub is None else a[sub])
                rb = dict(b if sub is None else b[sub])
                path = f"$.{key}" + ("" if sub is None else f".{sub}")
                for k in ("after", "solve_first"):
                    ra.pop(k, None)
                    rb.pop(k, None)
                rec_a, rec_b = ra.pop("reconstruction", None), rb.pop("reconstruction", None)
                mrd_a, mrd_b = ra.pop("mapped_reconstructed_data", None), rb.pop("mapped_reconstructed_data", None)
                d = cmp.diff(ra, rb, path)
                if d:
                    return d
                if isinstance(rec_a, str) or isinstance(rec_b, str):
                    # InversionException (singular / check_reconstruction) on one side only is a solver
                    # matter (C05)
                    continue
                if well and rec_a is not None and rec_b is not None:
                    d = cmp.diff(rec_a, rec_b, f"{path}.reconstruction") or \
                        cmp.diff(mrd_a, mrd_b, f"{path}.mapped_reconstructed_data")
                    if d:
                        return d
        return None

    # ------------------------------------------------------------------ oracle (independent of the model)
    def oracle(self, case, obs):
        if case.get("kind") == "mirrored":
            C = _mat(case["matrix"])
            n = C.shape[0]
            exp = np.zeros((n, n))
            for i in range(n):
                for j in range(n):
                    lo, hi = min(i, j), max(i, j)
                    exp[i, j] = C[lo, hi] if C[lo, hi] != 0 else C[hi, lo]
            got = _mat(obs["mirrored"])
            if not np.array_equal(got, exp):
                return False, "mirrored matrix is not (upper if non-zero else lower), symmetric"
            return True, ""
        if "err" in obs:
            return False, f"implementation raised {obs}"
        mj = case["mask"]
        h, w = mj["h"], mj["w"]
        m = mask_from_json(mj)
        idx = [(y, x) for y in range(h) for x in range(w) if not m[y, x]]
        n = len(idx)
        k = obs["_kernel"]     # the dataset's PSF (normalised by `apply_mask`, as given on the direct route)
        kh, kw = k["kh"], k["kw"]
        K = _arr(k["vals"]).reshape(kh, kw)
        hy, hx = kh // 2, kw // 2
        if case.get("via", "apply_mask") == "direct":
            if k != case["kernel"]:
                return False, "dataset PSF differs from the PSF handed to Imaging(use_normalized_psf=False)"
        # PSF matrix restricted to unmasked pixels: P[d, a] = K[d - a + half]
        P = np.zeros((n, n))
        for di, (dy, dx) in enumerate(idx):
            for ai, (ay, ax) in enumerate(idx):
                i, j = dy - ay + hy, dx - ax + hx
                if 0 <= i < kh and 0 <= j < kw:
                    P[di, ai] = K[i, j]
        data = np.array([_f(v) for v, mk in zip(case["data"], m.ravel()) if not mk])
        noise = np.array([_f(v) for v, mk in zip(case["noise"], m.ravel()) if not mk])
        # mapping matrices straight from the tables' meaning
        Ms, noreg, off = [], [], 0
        for t in obs["_tables"]:
            if t["kind"] == "func":
                M = _mat(t["matrix"])
            else:
                # contract assumed by the theorems (BlocksOK): every data pixel owns sub_size^2 consecutive sub-pixels
                want = [d for d in range(n) for _ in range(t["sub_size"][d] ** 2)]
                if t["slim_for_sub"] != want or len(t["sub_rows"]) != len(want):
                    return False, ("modelled-not-verified contract broken: slim_index_for_sub_slim_index is not "
                                   "every data pixel repeated sub_size^2 times in order")
                M = np.zeros((n, t["pixels"]))
                frac = _arr(t["sub_fraction"])
                for s, row in enumerate(t["sub_rows"]):
                    d = t["slim_for_sub"][s]
                    for pix, wt in row:
                        M[d, pix] += frac[d] * _f(wt)
            if not t["has_reg"]:
                noreg += list(range(off, off + M.shape[1]))
            off += M.shape[1]
            Ms.append(M)

        def close(a, b, what):
            a, b = np.asarray(a, float), np.asarray(b, float)
            if a.shape != b.shape:
                return f"{what}: shape {a.shape} != {b.shape}"
            tol = 1e-9 * max(1.0, float(np.max(np.abs(b))) if b.size else 1.0)
            if a.size and float(np.max(np.abs(a - b))) > tol:
                i = np.unravel_index(np.argmax(np.abs(a - b)), a.shape)
                return f"{what}: max |Δ| = {float(np.max(np.abs(a - b))):.3e} at {tuple(int(v) for v in i)}"
            return None

        if case.get("kind") == "utils":
            M = Ms[0]
            W = P.T @ (P / (noise ** 2)[:, None])
            wtd = P.T @ (data / noise ** 2)
            up = _mat(obs["preload_upper"])
            for what, got, exp in (
                    ("w_tilde_data_imaging_from != P^T N^-1 d", _arr(obs["w_tilde_data"]), wtd),
                    ("w_tilde_curvature_imaging_from != P^T N^-1 P", _mat(obs["w_tilde"]), W),
                    ("preload is not the upper triangle of W with the diagonal halved",
                     up, np.triu(W, 1) + np.diag(np.diag(W)) / 2.0),
                    ("unique mappings do not encode the mapping matrix", _mat(obs["unique_encodes"]), M),
                    ("mapper.mapping_matrix != table meaning", _mat(obs["mapping_matrix"]), M),
                    ("data_vector_via_w_tilde_data_imaging_from != M^T w_tilde_data", _arr(obs["data_vector"]), M.T @ wtd),
                    ("curvature_matrix_via_w_tilde_curvature_preload_imaging_from != M^T W M",
                     _mat(obs["curvature"]), M.T @ W @ M)):
                d = close(got, exp, what)
                if d:
                    return False, d
            return True, ""
        B = np.hstack([P @ M for M in Ms])
        Dx = B.T @ (data / noise ** 2)
        Fx = (B / noise[:, None]).T @ (B / noise[:, None])
        eps = _f(obs["_eps"])
        for i in noreg:
            Fx[i, i] += eps
        H = _mat(obs["_H"]) if "_H" in obs else None
        all_funcs = all(t["kind"] == "func" for t in obs["_tables"])

        recs = {}
        for key in ("mapping", "w_tilde"):
            o = obs.get(key)
            if o is None or "err" in o:
                return False, f"{key}: implementation raised {o}"
            want = "mapping" if (key == "mapping" or all_funcs) else "w_tilde"
            if o["formalism"] != want:
                return False, f"factory chose {o['formalism']} for use_w_tilde={key == 'w_tilde'}"
            for sub, label in ((None, "first read"), ("after", "read again after the solve"),
                               ("solve_first", "fresh inversion, read after the solve")):
                rd = o if sub is None else o[sub]
                Fm = _mat(rd["curvature_matrix"])
                for what, got, exp in (("operated_mapping_matrix != P·M (object order)", _mat(rd["operated_mapping_matrix"]), B),
                                       ("data_vector != B^T N^-1 d", _arr(rd["data_vector"]), Dx),
                                       ("curvature_matrix != B^T N^-1 B + eps on unregularized diag", Fm, Fx),
                                       ("curvature_matrix not symmetric", Fm, Fm.T)):
                    d = close(got, exp, f"{key} ({label}): {what}")
                    if d:
                        return False, d
                rec = rd.get("reconstruction")
                if sub != "after" and isinstance(rec, list) and H is not None:
                    s = _arr(rec)
                    A = Fx + H
                    resid = A @ s - Dx
                    scale = float(np.abs(A).sum(axis=1).max() * max(1.0, np.abs(s).max()) + np.abs(Dx).max())
                    if float(np.abs(resid).max()) > 1e-7 * scale:
                        return False, f"{key} ({label}): reconstruction does not solve (F+H)s = D (residual {float(np.abs(resid).max()):.3e})"
                    d = close(_arr(rd["mapped_reconstructed_data"]), B @ s, f"{key} ({label}): mapped_reconstructed_data != B s")
                    if d:
                        return False, d
                    if sub is None:
                        recs[key] = s
        if len(recs) == 2 and max(self._cond(obs, "mapping"), self._cond(obs, "w_tilde")) < 1e6:
            d = close(recs["w_tilde"], recs["mapping"], "reconstructions of the two formalisms differ")
            if d:
                return False, d
        return True, ""

    # ------------------------------------------------------------------ bookkeeping
    def nontrivial(self, case, obs):
        if case.get("kind") == "mirrored":
            return len(case["matrix"]) > 1
        bits = case["mask"]["bits"]
        nz = sum(1 for v in case["kernel"]["vals"] if Fraction(v) != 0)
        return bits.count("0") >= 2 and "1" in bits and (nz > 1 or len(case["objs"]) > 1)

    def known_finding(self, case, obs):
        return None

    def shrink(self, case):
        if case.get("kind") == "mirrored":
            return
        # fewer objects
        if len(case["objs"]) > 1:
            for i in range(len(case["objs"])):
                yield {**case, "objs": case["objs"][:i] + case["objs"][i + 1:]}
        # no distortion / unit geometry / sub 1
        if case.get("distort"):
            yield {**case, "distort": None}
        if case.get("sub") != 1:
            yield {**case, "sub": 1}
        if case.get("pixel_scales") != ["1", "1"] or case.get("origin") != ["0", "0"]:
            yield {**case, "pixel_scales": ["1", "1"], "origin": ["0", "0"]}
        # simpler values
        if any(v != "1" for v in case["noise"]):
            yield {**case, "noise": ["1"] * len(case["noise"])}
        vals = case["kernel"]["vals"]
        for i, v in enumerate(vals):
            if v not in ("0", "1", "-1"):
                for nv in ("0", "1" if Fraction(v) > 0 else "-1"):
                    nvals = vals[:i] + [nv] + vals[i + 1:]
                    if any(x != "0" for x in nvals):
                        yield {**case, "kernel": {**case["kernel"], "vals": nvals}}
        # fewer unmasked pixels (function-list matrices lose the row)
        mj = case["mask"]
        bits = mj["bits"]
        unm = [i for i, c in enumerate(bits) if c == "0"]
        if len(unm) > 2:
            for r, i in enumerate(unm):
                objs = []
                for o in case["objs"]:
                    if o["kind"] == "func":
                        objs.append({**o, "matrix": o["matrix"][:r] + o["matrix"][r + 1:]})
                    else:
                        objs.append(o)
                sub = case.get("sub", 1)
                if not isinstance(sub, int):
                    sub = sub[:r] + sub[r + 1:]
                yield {**case, "mask": {**mj, "bits": bits[:i] + "1" + bits[i + 1:]}, "objs": objs, "sub": sub}

    def sample_view(self, case):
        return {k: v for k, v in case.items() if not k.startswith("_")}

    def theorems_for(self, case):
        if case.get("kind") == "mirrored":
            return ["C04.e_curvature_formalisms_agree"]
        return ["C04.a_*", "C04.b_*", "C04.c_*", "C04.d_*", "C04.e_*"]


CHECK = C04()
