"""C04 — data vector and curvature matrix equal the normal equations in both formalisms.

A case fixes an imaging dataset (mask, native data, native noise map, odd PSF), an ordered list of linear
objects (rectangular / Delaunay mappers on a distorted source-plane grid, function lists given by their
mapping matrix) and the diagonal value.  `run_impl` builds `aa.Inversion` twice (use_w_tilde off / on)
and observes, for each: the class chosen by the factory, operated_mapping_matrix, data_vector,
curvature_matrix, reconstruction, mapped_reconstructed_data.  The mapper tables
(pix_indexes/weights/sizes_for_sub_slim_index, slim_index_for_sub_slim_index, sub_fraction, sub_size) and the
regularization matrix are taken from the implementation (they belong to C06 / C07 / C09) and handed to the
Lean model, which computes everything else both ways in exact rational arithmetic.
"""
from __future__ import annotations

import itertools
from fractions import Fraction

import numpy as np

import gen
from common import PropertyCheck, Skip, load_autoarray, mask_json, mask_from_json, q, qlist, qmat

F = Fraction

KERNEL_SHAPES = [(1, 1), (1, 3), (3, 1), (3, 3), (3, 5), (5, 3), (5, 5), (1, 5), (5, 1)]


def _f(x):
    return float(Fraction(x))


def json_copy(c):
    import copy as _copy
    return _copy.deepcopy(c)


def _arr(xs):
    return np.array([_f(v) for v in xs], dtype=float)


def _mat(rows):
    return np.array([[_f(v) for v in r] for r in rows], dtype=float)


# ----------------------------------------------------------------------------------------------
# building the implementation objects
# ----------------------------------------------------------------------------------------------
def _as_input(a, case, allow_tuple=False, which=None):
    """deliver an array-valued input in the dtype / container the case asks for (same real numbers).
    `Array2D` / `Kernel2D` document `Union[np.ndarray, List]` (tuples are rejected), so tuples are used only
    where the API takes them (`Grid2DIrregular`: a list of (y,x) tuples)."""
    dt, ct = case.get("dtype", "float"), case.get("container", "ndarray")
    if which is not None and "dtypes" in case:
        dt = case["dtypes"].get(which, "float")      # dtype chosen independently per input
    a = np.asarray(a, dtype=float)
    if dt in ("int", "pyint"):
        ai = np.rint(a).astype(np.int64)
        assert np.array_equal(ai, a), "integer-dtype case with non-integral values"
        a = ai
    elif dt == "float32":
        a32 = a.astype(np.float32)
        assert np.array_equal(a32.astype(float), a), "float32 case with values not representable"
        a = a32
    if dt == "pyint" or ct == "list":
        return a.tolist()
    if ct == "tuple" and not allow_tuple:
        return a.tolist()
    if ct == "tuple":
        return [tuple(row) for row in a.tolist()]      # the documented "list of (y,x) tuples"
    lay = (case.get("layouts") or {}).get(which) if which is not None else None
    return _layout(a, lay)


LAYOUTS = ("C", "F", "T", "strided", "neg", "readonly", "offset", "list")


def _layout(a, lay):
    """round 5/6 (R5-C): the same values in another memory layout / container.  "F": Fortran-ordered copy;
    "T": a transposed VIEW of a C-ordered buffer (non-owning, F-contiguous); "strided": every second element of
    a larger buffer whose other elements are junk (non-contiguous view); "neg": a view with negative strides;
    "offset": an interior window of a larger junk-filled buffer; "readonly": flags.writeable = False;
    "list": nested Python lists."""
    if lay in (None, "C") or not isinstance(a, np.ndarray):
        return a
    if lay == "list":
        return a.tolist()
    if lay == "readonly":
        b = np.array(a, copy=True)
        b.flags.writeable = False
        return b
    if lay == "F":
        return np.asfortranarray(a)
    if lay == "T":
        return np.ascontiguousarray(a.T).T
    junk = 977 if a.dtype.kind in "iu" else (True if a.dtype.kind == "b" else -977.25)
    if lay == "strided":
        big = np.full(tuple(2 * s for s in a.shape), junk, dtype=a.dtype)
        view = big[tuple(slice(0, None, 2) for _ in a.shape)]
        view[...] = a
        return view
    if lay == "neg":
        return np.ascontiguousarray(a[tuple(slice(None, None, -1) for _ in a.shape)])[
            tuple(slice(None, None, -1) for _ in a.shape)]
    if lay == "offset":
        big = np.full(tuple(s + 3 for s in a.shape), junk, dtype=a.dtype)
        view = big[tuple(slice(1, 1 + s) for s in a.shape)]
        view[...] = a
        return view
    raise ValueError(f"unknown layout {lay}")


# ---- round 5/6 (R5-A/E): decades.  A case may carry "scale": {"data": a, "noise": b, "kernel": c} (exponents of
# two applied to the whole ingredient when the implementation's inputs are built) and per-column exponents
# "fexp" on function-list objects.  Powers of two are exact, so the scaled world is an exact diagonal rescaling of
# the base world the case spells out: B' = B·2^(c+f_j), D'_j = D_j·2^(a+c+f_j-2b), F'_ij = F_ij·2^(2c+f_i+f_j-2b),
# s'_j = s_j·2^(a-c-f_j), (B s)' = (B s)·2^a.  `_observe` divides these units out again (exactly) and everything
# downstream (model, oracle, comparison) works in base units: the tolerance is thereby RELATIVE TO THE SCALED
# MAGNITUDE of every quantity, and a hidden absolute tolerance in the code shows as an O(1) error.
def _scale_of(case):
    s = case.get("scale") or {}
    a, b, c = int(s.get("data", 0)), int(s.get("noise", 0)), int(s.get("kernel", 0))
    c_eff = c if case.get("via", "apply_mask") == "direct" else 0     # `apply_mask` re-normalises the PSF
    return a, b, c, c_eff


def _ld(x, e):
    """inputs: x · 2^e, exactly (refuses to round: overflow / underflow would be the harness's own fault)."""
    x = np.asarray(x, dtype=float)
    with np.errstate(over="ignore", under="ignore"):
        y = np.ldexp(x, e)
        back = np.ldexp(y, -np.asarray(e))
    if not np.all(np.isfinite(y)) or not np.array_equal(back, x):
        raise Skip("power-of-two rescaling not exact (outside the representable range)")
    return y


def _ld_out(x, e):
    """outputs back to base units: x · 2^-e (exact for every value that matters: a result can only round here
    when it is below 2^-1022 in base units, far inside every tolerance; nan / inf stay what they are)."""
    with np.errstate(over="ignore", under="ignore", invalid="ignore"):
        return np.ldexp(np.asarray(x, dtype=float), -np.asarray(e))


# ---- compact ("recipe") forms used by the large stream: a case never carries a huge literal array ----------
def _mask_np(mj):
    """protocol mask {"h","w","bits"} or the compact form {"h","w","rects":[[y0,x0,y1,x1],…] (unmasked,
    half-open), "holes":[[y,x],…] (masked again)} -> numpy bool array, True = masked."""
    if "bits" in mj:
        return mask_from_json(mj)
    m = np.ones((mj["h"], mj["w"]), dtype=bool)
    for y0, x0, y1, x1 in mj.get("rects", []):
        m[y0:y1, x0:x1] = False
    for y, x in mj.get("holes", []):
        m[y, x] = True
    return m


_NOISE_LEVELS = np.array([0.5, 1.0, 2.0, 4.0, 0.25, 1.5])


def _hash(idx, seed, mod):
    """deterministic pseudo-random integers in [0, mod) for integer index arrays (splitmix-style; no
    arithmetic structure that could hide a flipped / transposed / shifted access)."""
    with np.errstate(over="ignore"):
        x = np.asarray(idx).astype(np.uint64) * np.uint64(6364136223846793005) + np.uint64(1442695040888963407)
        x = x + np.uint64(int(seed) % (1 << 32)) * np.uint64(0x9E3779B97F4A7C15)
        x ^= x >> np.uint64(33)
        x = x * np.uint64(0xFF51AFD7ED558CCD)
        x ^= x >> np.uint64(29)
    return ((x >> np.uint64(20)) % np.uint64(mod)).astype(np.int64)


def _native_vals(spec, which, h, w):
    """native (h, w) float array of `data` / `noise`: a literal list of "p/q" strings, or a recipe
    {"gen": seed} (deterministic signed dyadic data, noise from six levels; the same reals for the
    implementation and for the oracle)."""
    if isinstance(spec, dict):
        i = np.arange(h * w, dtype=np.int64)
        if which == "noise":
            if spec.get("const") is not None:
                return np.full((h, w), _f(spec["const"]))
            return _NOISE_LEVELS[_hash(i, spec["gen"], 6)].reshape(h, w)
        return ((_hash(i, spec["gen"], 33) - 16) / 4.0).reshape(h, w)
    return _arr(spec).reshape(h, w)


def _kernel_np(k):
    """(kh, kw) float kernel: literal values or the recipe {"gen": seed}: signed, no point / mirror symmetry."""
    kh, kw = k["kh"], k["kw"]
    if "vals" in k:
        return _arr(k["vals"]).reshape(kh, kw)
    K = ((_hash(np.arange(kh * kw, dtype=np.int64), k["gen"], 12) - 3) / 8.0).reshape(kh, kw)
    K[kh // 2, kw // 2] += 1.0
    return K


def _func_matrix_np(o, n):
    if "matrix" in o:
        return _mat(o["matrix"])
    p = int(o["params"])
    return ((_hash(np.arange(n * p, dtype=np.int64), o["gen"], 11) - 4) / 4.0).reshape(n, p)


def _points_np(o):
    if "points" in o:
        return np.array([(_f(p[0]), _f(p[1])) for p in o["points"]])
    g = o["points_gen"]
    t, s = int(g["n"]), int(g["seed"])
    y0, y1, x0, x1 = (_f(v) for v in g["extent"])
    m = int(np.ceil(np.sqrt(t)))
    k = np.arange(t, dtype=np.int64)
    a, b = k // m, k % m
    jy = ((a * 7 + b * 13 + s) % 8 - 4) / 16.0
    jx = ((a * 11 + b * 5 + 3 * s) % 8 - 4) / 16.0
    return np.stack([y0 + (a + 0.5 + jy) / m * (y1 - y0), x0 + (b + 0.5 + jx) / m * (x1 - x0)], axis=1)


def _degenerate(e):
    """Qhull rejecting a degenerate (collinear / duplicate) point set — the library wraps it in a bare
    `MeshException` — is outside the property (no mesh exists)."""
    seen = 0
    while e is not None and seen < 4:
        if "Qhull" in type(e).__name__ or "qhull" in str(e).lower():
            return True
        if type(e).__name__ == "MeshException" and e.__cause__ is not None and (
                "Qhull" in type(e.__cause__).__name__ or "qhull" in str(e.__cause__).lower()
                or isinstance(e.__cause__, (ValueError, OverflowError))):
            return True
        e = e.__cause__
        seen += 1
    return False


def _readonly(a, case):
    """history axis: the caller's arrays are handed over read-only (same values)."""
    if case.get("readonly") and isinstance(a, np.ndarray):
        a = np.array(a, copy=True)
        a.flags.writeable = False
    return a


def _mask_input(aa, m, ps, org, case):
    """round 5/6 (R5-C): the boolean mask handed to `Mask2D` in other layouts / containers / dtypes, or a
    `Mask2D` built FROM a `Mask2D` (with its geometry repeated explicitly — also when that geometry is the
    falsy origin (0.0, 0.0))."""
    form = (case.get("layouts") or {}).get("mask")
    if form in (None, "C"):
        return aa.Mask2D(mask=m, pixel_scales=ps, origin=org)
    if form == "from_mask":
        first = aa.Mask2D(mask=np.array(m, copy=True), pixel_scales=ps, origin=org)
        return aa.Mask2D(mask=first, pixel_scales=ps, origin=org)
    if form == "int":
        return aa.Mask2D(mask=m.astype(np.int64), pixel_scales=ps, origin=org)
    if form == "scalar_scale" and ps[0] == ps[1]:
        return aa.Mask2D(mask=m, pixel_scales=ps[0], origin=org)
    if form == "scalar_scale":
        form = "F"
    return aa.Mask2D(mask=_layout(np.array(m, copy=True), form), pixel_scales=ps, origin=org)


def build_dataset(aa, case, mask=None, sink=None):
    """`sink` (a list) collects every array handed to the library (ownership histories scribble over them)."""
    m = _mask_np(case["mask"])
    h, w = m.shape
    ps = tuple(_f(v) for v in case.get("pixel_scales", ["1", "1"]))
    org = tuple(_f(v) for v in case.get("origin", ["0", "0"]))
    if mask is None:      # (histories hand in the Mask2D object of an earlier world: shared on purpose)
        mask = _mask_input(aa, m, ps, org, case)
    sa, sb, sc, _ = _scale_of(case)
    k = case["kernel"]
    Kn, dnn, nnn = _kernel_np(k), _native_vals(case["data"], "data", h, w), _native_vals(case["noise"], "noise", h, w)
    if sa or sb or sc:
        Kn, dnn, nnn = _ld(Kn, sc), _ld(dnn, sa), _ld(nnn, sb)
    kern = _readonly(_as_input(Kn, case, which="kernel"), case)
    psf = aa.Kernel2D.no_mask(values=kern, pixel_scales=ps)
    dn = _readonly(_as_input(dnn, case, which="data"), case)
    nn = _readonly(_as_input(nnn, case, which="noise"), case)
    if sink is not None:
        sink.extend([kern, dn, nn])
    store = case.get("store")
    if case.get("via", "apply_mask") == "direct":
        # masked structures handed to the constructor: the PSF is used exactly as given
        if store == "slim1d":      # the documented 1D (slim) input form of a masked structure
            dn = _layout(np.asarray(dn, dtype=float)[~m], (case.get("layouts") or {}).get("data"))
            nn = _layout(np.asarray(nn, dtype=float)[~m], (case.get("layouts") or {}).get("noise"))
            if sink is not None:
                sink.extend([dn, nn])
        d_arr, n_arr = aa.Array2D(values=dn, mask=mask), aa.Array2D(values=nn, mask=mask)
        if store == "from_array":  # a structure built from another structure
            d_arr, n_arr = aa.Array2D(values=d_arr, mask=mask), aa.Array2D(values=n_arr.native, mask=mask)
        ds = aa.Imaging(data=d_arr, noise_map=n_arr, psf=psf, use_normalized_psf=False)
    else:
        # the usual route (`apply_mask` re-creates the dataset)
        data = aa.Array2D.no_mask(values=dn, pixel_scales=ps, origin=org)
        noise = aa.Array2D.no_mask(values=nn, pixel_scales=ps, origin=org)
        ds = aa.Imaging(data=data, noise_map=noise, psf=psf, use_normalized_psf=False)
        ds = ds.apply_mask(mask=mask)
    return mask, ds


def source_grid(aa, mask, case):
    n = int(mask.pixels_in_mask)
    sub = case.get("sub", 1)
    if isinstance(sub, int):
        subs = np.full(n, sub, dtype=int)
    else:
        subs = np.array(sub, dtype=int)
    ovs = aa.OverSamplerUniform(mask=mask, sub_size=aa.Array2D(values=subs, mask=mask))
    g = np.array(ovs.over_sampled_grid)
    d = case.get("distort")
    if d:
        a00, a01, a10, a11, q0, q1 = (_f(v) for v in d)
        y, x = g[:, 0], g[:, 1]
        g = np.stack([a00 * y + a01 * x + q0 * x * x, a10 * y + a11 * x + q1 * x * y], axis=1)
    return ovs, aa.Grid2DIrregular(values=g)


_FAULTY = {}


def _faulty_class():
    """a user-defined linear object (public extension point `AbstractLinearObjFuncList`) whose
    `mapping_matrix` raises on its k-th read after being armed, once (history axis "fault then reuse")."""
    if "cls" not in _FAULTY:
        from autoarray.inversion.mock.mock_linear_obj_func_list import MockLinearObjFuncList

        class FaultyFuncList(MockLinearObjFuncList):
            _countdown = None

            def arm(self, k):
                self._countdown = int(k)

            def disarm(self):
                self._countdown = None

            @property
            def mapping_matrix(self):
                if self._countdown is not None:
                    self._countdown -= 1
                    if self._countdown <= 0:
                        self._countdown = None
                        raise RuntimeError("user function failed")
                return self._mapping_matrix

        _FAULTY["cls"] = FaultyFuncList
    return _FAULTY["cls"]


def _psf_dense(m, K):
    """P[d, a] = K[d - a + half] on the unmasked pixels of `m` (independent of the code under test)."""
    ys, xs = np.nonzero(~m)
    kh, kw = K.shape
    I = ys[:, None] - ys[None, :] + kh // 2
    J = xs[:, None] - xs[None, :] + kw // 2
    ok = (I >= 0) & (I < kh) & (J >= 0) & (J < kw)
    return np.where(ok, K[np.clip(I, 0, kh - 1), np.clip(J, 0, kw - 1)], 0.0)


def build_objects(aa, mask, ds, case, sink=None):
    from autoarray.inversion.mock.mock_linear_obj_func_list import MockLinearObjFuncList

    objs = []
    n_pix = int(mask.pixels_in_mask)
    lays = case.get("layouts") or {}
    for o in case["objs"]:
        reg = aa.reg.Constant(coefficient=_f(o.get("coeff", "1"))) if o["reg"] else None
        if o["kind"] == "func":
            mm = _func_matrix_np(o, n_pix)
            if o.get("fexp"):
                mm = _ld(mm, np.asarray(o["fexp"], dtype=int)[None, :])      # per-column powers of two
            # the mock hands the matrix to `convolve_matrix_jit` as is: ndarray, in the case's dtype
            fdt = case.get("dtypes", {}).get("func", case.get("dtype", "float"))
            mm_in = np.asarray(_as_input(mm, {"container": "ndarray", "dtype": "int" if fdt in ("int", "pyint") else fdt}))
            if mm_in is mm or np.shares_memory(mm_in, mm):
                mm_in = np.array(mm_in, copy=True)       # caller-owned buffer (histories edit it in place)
            if lays.get("func") not in (None, "C", "list"):
                mm_in = _layout(mm_in, lays["func"])
            mm_in = _readonly(mm_in, case)
            cls = _faulty_class() if o.get("faulty") else MockLinearObjFuncList
            kw = {}
            if o.get("override"):
                # round 5/6 (R5-F): the documented `operated_mapping_matrix_override` ("bypasses the mapping_matrix
                # computation and convolution operator and is directly placed in the operated_mapping_matrix_list"):
                # the override is P·M for the object's matrix M (dyadic values: exact), the `mapping_matrix`
                # attribute itself is a decoy that must not be used
                P = _psf_dense(_mask_np(case["mask"]), np.asarray(ds.psf.native, dtype=float))
                kw["operated_mapping_matrix_override"] = _layout(P @ np.asarray(mm_in, dtype=float), lays.get("func"))
                decoy = np.asarray(mm_in, dtype=float) * 3.0 + 1.0
                mm_in = decoy if o["override"] == "decoy" else mm_in
            if sink is not None:
                sink.extend([mm_in] + list(kw.values()))
            objs.append(cls(parameters=mm.shape[1], grid=ds.grids.uniform,
                            mapping_matrix=mm_in, regularization=reg, **kw))
            continue
        ovs, grid = source_grid(aa, mask, {**case, **({"sub": o["sub"]} if "sub" in o else {})})
        if o["kind"] == "rect":
            mesh = aa.mesh.Rectangular(shape=tuple(o["shape"]))
            mg = mesh.mapper_grids_from(mask=mask, border_relocator=None, source_plane_data_grid=grid)
        else:
            mesh = aa.mesh.Delaunay()
            pv = _points_np(o)
            if np.array_equal(np.rint(pv), pv):
                pv = _as_input(pv, case, allow_tuple=True, which="points")   # integer-valued vertices
            elif case.get("container") in ("list", "tuple"):
                pv = _as_input(pv, {**case, "dtype": "float"}, allow_tuple=True)
            elif lays.get("points"):
                pv = _layout(pv, lays["points"])
            if sink is not None:
                sink.append(pv)
            pts = aa.Grid2DIrregular(values=pv)
            try:
                mg = mesh.mapper_grids_from(mask=mask, border_relocator=None,
                                            source_plane_data_grid=grid, source_plane_mesh_grid=pts)
            except Exception as e:  # Qhull rejects degenerate point sets: outside the property
                if _degenerate(e):
                    raise Skip("degenerate Delaunay point set")
                raise
        try:
            objs.append(aa.Mapper(mapper_grids=mg, over_sampler=ovs, regularization=reg))
        except Exception as e:
            if _degenerate(e):
                raise Skip("degenerate Delaunay point set")
            raise
    return objs


def mapper_tables(obj):
    """the per-sub-pixel tables of a mapper, as the model's `MapperTables`."""
    try:
        idx = np.asarray(obj.pix_indexes_for_sub_slim_index)
        sizes = np.asarray(obj.pix_sizes_for_sub_slim_index).astype(int)
        wts = np.asarray(obj.pix_weights_for_sub_slim_index)
    except Exception as e:
        if _degenerate(e):
            raise Skip("degenerate Delaunay point set")
        raise
    rows = [[[int(idx[s, c]), q(wts[s, c])] for c in range(int(sizes[s]))] for s in range(idx.shape[0])]
    return {
        "kind": "mapper",
        "pixels": int(obj.params),
        "sub_rows": rows,
        "slim_for_sub": [int(v) for v in np.asarray(obj.slim_index_for_sub_slim_index)],
        "sub_fraction": qlist(np.asarray(obj.over_sampler.sub_fraction)),
        "sub_size": [int(v) for v in np.asarray(obj.over_sampler.sub_size)],
    }


def _exc_kind(e):
    n = type(e).__name__
    if n == "InversionException":
        return "singular"
    if n == "KernelException":
        return "even_kernel"
    return n


class C04(PropertyCheck):
    pid = "C04"
    title = "normal equations in the mapping and w-tilde formalisms"
    rtol = Fraction(1, 10 ** 9)
    nontrivial_rule = (
        "a case = one dataset + ordered object list, run with use_w_tilde off and on; non-trivial when the mask "
        "has >=2 unmasked and >=1 masked pixel and the kernel has >1 non-zero entry or the list has >1 object; "
        "distinct = distinct case dict; a history case (several observations of reused objects, each compared with "
        "the model / oracle value of a freshly built object in that state) counts once, under the same rule on its "
        "base dataset; a large (constant-directed, oracle-only) case is non-trivial with >= 2 unmasked pixels"
    )
    exhaustive_note = {
        "quick": "structural space enumerated completely (values inside each structural case are seeded-random): "
                 "every ordered list of 1..2 objects over {rectangular, Delaunay, function list} x every kernel shape "
                 "in {1,3,5}^2 except (1,5),(5,1) x {non-negative, signed} (1x1: non-negative only) on a fixed "
                 "two-component mask; every "
                 "ordered list of 3 objects once, on the (3,5) or the (5,3) signed kernel (alternating)",
        "thorough": "structural space enumerated completely (values seeded-random): every ordered list of 1..3 objects "
                    "over {rectangular, Delaunay, function list} x every kernel shape in {1,3,5}^2 x {non-negative, "
                    "signed} on two fixed masks",
    }
    rerun_sample = 110      # order-of-evaluation stream of the shared runner: cases evaluated a second time
    # loop ties (DESIGN §12): regenerated from the source on every run, tie theorems proved for all sizes
    loop_tie_modules = ["LoopsNormalEq", "LoopsNormalEq2"]
    modelled_functions = [
        "autoarray/operators/convolver.py:Convolver.__init__",
        "autoarray/operators/convolver.py:Convolver.frame_at_coordinates_jit",
        "autoarray/operators/convolver.py:Convolver.convolve_mapping_matrix",
        "autoarray/operators/convolver.py:Convolver.convolve_matrix_jit",
        "autoarray/operators/convolver.py:Convolver.convolve_image_no_blurring",
        "autoarray/operators/convolver.py:Convolver.convolve_no_blurring_jit",
        "autoarray/inversion/pixelization/mappers/mapper_util.py:mapping_matrix_from",
        "autoarray/inversion/pixelization/mappers/mapper_util.py:data_slim_to_pixelization_unique_from",
        "autoarray/inversion/pixelization/mappers/abstract.py:AbstractMapper.unique_mappings",
        "autoarray/inversion/linear_obj/unique_mappings.py:UniqueMappings.__init__",
        "autoarray/dataset/imaging/w_tilde.py:WTildeImaging.__init__",
        "autoarray/inversion/inversion/abstract.py:AbstractInversion.has",
        "autoarray/inversion/inversion/abstract.py:AbstractInversion.total",
        "autoarray/inversion/inversion/abstract.py:AbstractInversion.cls_list_from",
        "autoarray/inversion/pixelization/mappers/abstract.py:AbstractMapper.mapping_matrix",
        "autoarray/inversion/inversion/imaging/inversion_imaging_util.py:w_tilde_data_imaging_from",
        "autoarray/inversion/inversion/imaging/inversion_imaging_util.py:w_tilde_curvature_imaging_from",
        "autoarray/inversion/inversion/imaging/inversion_imaging_util.py:w_tilde_curvature_preload_imaging_from",
        "autoarray/inversion/inversion/imaging/inversion_imaging_util.py:w_tilde_curvature_value_from",
        "autoarray/inversion/inversion/imaging/inversion_imaging_util.py:data_vector_via_w_tilde_data_imaging_from",
        "autoarray/inversion/inversion/imaging/inversion_imaging_util.py:data_vector_via_blurred_mapping_matrix_from",
        "autoarray/inversion/inversion/imaging/inversion_imaging_util.py:curvature_matrix_via_w_tilde_curvature_preload_imaging_from",
        "autoarray/inversion/inversion/imaging/inversion_imaging_util.py:curvature_matrix_off_diags_via_w_tilde_curvature_preload_imaging_from",
        "autoarray/inversion/inversion/imaging/inversion_imaging_util.py:curvature_matrix_off_diags_via_mapper_and_linear_func_curvature_vector_from",
        "autoarray/inversion/inversion/inversion_util.py:curvature_matrix_via_mapping_matrix_from",
        "autoarray/inversion/inversion/inversion_util.py:curvature_matrix_with_added_to_diag_from",
        "autoarray/inversion/inversion/inversion_util.py:curvature_matrix_mirrored_from",
        "autoarray/inversion/inversion/inversion_util.py:mapped_reconstructed_data_via_mapping_matrix_from",
        "autoarray/inversion/inversion/inversion_util.py:mapped_reconstructed_data_via_image_to_pix_unique_from",
        "autoarray/inversion/inversion/inversion_util.py:reconstruction_positive_negative_from",
        "autoarray/inversion/inversion/abstract.py:AbstractInversion.param_range_list_from",
        "autoarray/inversion/inversion/abstract.py:AbstractInversion.total_params",
        "autoarray/inversion/inversion/abstract.py:AbstractInversion.no_regularization_index_list",
        "autoarray/inversion/inversion/abstract.py:AbstractInversion.operated_mapping_matrix",
        "autoarray/inversion/inversion/abstract.py:AbstractInversion.regularization_matrix",
        "autoarray/inversion/inversion/abstract.py:AbstractInversion.curvature_reg_matrix",
        "autoarray/inversion/inversion/abstract.py:AbstractInversion.reconstruction",
        "autoarray/inversion/inversion/abstract.py:AbstractInversion.source_quantity_dict_from",
        "autoarray/inversion/inversion/abstract.py:AbstractInversion.mapped_reconstructed_data",
        "autoarray/inversion/inversion/imaging/abstract.py:AbstractInversionImaging.operated_mapping_matrix_list",
        "autoarray/inversion/inversion/imaging/abstract.py:AbstractInversionImaging.linear_func_operated_mapping_matrix_dict",
        "autoarray/inversion/inversion/imaging/mapping.py:InversionImagingMapping.data_vector",
        "autoarray/inversion/inversion/imaging/mapping.py:InversionImagingMapping.curvature_matrix",
        "autoarray/inversion/inversion/imaging/mapping.py:InversionImagingMapping.mapped_reconstructed_data_dict",
        "autoarray/inversion/inversion/imaging/w_tilde.py:InversionImagingWTilde.__init__",
        "autoarray/inversion/inversion/imaging/w_tilde.py:InversionImagingWTilde.w_tilde_data",
        "autoarray/inversion/inversion/imaging/w_tilde.py:InversionImagingWTilde._data_vector_mapper",
        "autoarray/inversion/inversion/imaging/w_tilde.py:InversionImagingWTilde.data_vector",
        "autoarray/inversion/inversion/imaging/w_tilde.py:InversionImagingWTilde._data_vector_x1_mapper",
        "autoarray/inversion/inversion/imaging/w_tilde.py:InversionImagingWTilde._data_vector_multi_mapper",
        "autoarray/inversion/inversion/imaging/w_tilde.py:InversionImagingWTilde._data_vector_func_list_and_mapper",
        "autoarray/inversion/inversion/imaging/w_tilde.py:InversionImagingWTilde.curvature_matrix",
        "autoarray/inversion/inversion/imaging/w_tilde.py:InversionImagingWTilde._curvature_matrix_mapper_diag",
        "autoarray/inversion/inversion/imaging/w_tilde.py:InversionImagingWTilde._curvature_matrix_off_diag_from",
        "autoarray/inversion/inversion/imaging/w_tilde.py:InversionImagingWTilde._curvature_matrix_x1_mapper",
        "autoarray/inversion/inversion/imaging/w_tilde.py:InversionImagingWTilde._curvature_matrix_multi_mapper",
        "autoarray/inversion/inversion/imaging/w_tilde.py:InversionImagingWTilde._curvature_matrix_func_list_and_mapper",
        "autoarray/inversion/inversion/imaging/w_tilde.py:InversionImagingWTilde.mapped_reconstructed_data_dict",
        "autoarray/inversion/inversion/factory.py:inversion_imaging_from",
        "autoarray/dataset/imaging/dataset.py:Imaging.w_tilde",
        "autoarray/dataset/imaging/dataset.py:Imaging.convolver",
        "autoarray/dataset/imaging/dataset.py:Imaging.apply_mask",
    ]
    trusted_extra = [
        "numpy.linalg.solve (contract: exact solution; checked per case against the model's exact rational solve "
        "when the system is well conditioned) and np.dot / hstack / slicing glue: modelled, not verified",
        "mapper tables (pix_indexes/weights/sizes_for_sub_slim_index, slim_index_for_sub_slim_index, sub_fraction) "
        "and the regularization matrix are taken from the implementation (properties C06/C07/C09), incl. Qhull",
        "IEEE rounding: model is exact (Rat); comparisons exact when the value is a double, else rtol 1e-9",
    ]
    assumptions = [
        "kernel footprint of every unmasked pixel inside the frame; noise map strictly positive; odd kernel",
        "reconstruction compared only when cond(F+H)*max(1,|s|) < 1e6 (otherwise both solves are checked by residual only)",
        "histories: an in-place edit of the NOISE MAP of an existing Imaging object is not exercised (its cached "
        "w_tilde legitimately depends on it; the library only guards the first noise value); noise / PSF changes "
        "enter through a second Imaging or a DatasetInterface, as the library documents",
        "large (constant-directed) cases are judged by the vectorised property statement alone (no model comparison)",
    ]

    # ------------------------------------------------------------------ generation
    def _values(self, rng, mask, kshape, signed, sub=None, easy=False):
        h, w = len(mask), len(mask[0])
        kh, kw = kshape
        # round-3 hardening: dtype and container of every array-valued input, constructor route
        def pick():
            return rng.choices(["float", "int", "pyint", "float32"], weights=[62, 20, 9, 9])[0]
        # dtype chosen INDEPENDENTLY per array-valued input (an integer image with a fractional kernel, an
        # integer mapping matrix with fractional noise, … are the combinations that expose dtype leaks)
        dtypes = {"kernel": pick(), "data": pick(), "noise": pick(), "func": pick(), "points": pick()}
        container = rng.choices(["ndarray", "list", "tuple"], weights=[70, 18, 12])[0]
        ctor = rng.choices(["Inversion", "factory", "class", "interface"], weights=[55, 15, 15, 15])[0]
        ints = dtypes["kernel"] in ("int", "pyint")
        kvals = []
        for _ in range(kh * kw):
            v = F(rng.randint(0, 4)) if ints else F(rng.randint(0, 8), 8)
            if signed and rng.random() < 0.4:
                v = -v
            kvals.append(v)
        if all(v == 0 for v in kvals):
            kvals[(kh // 2) * kw + kw // 2] = F(1)
        if signed and all(v >= 0 for v in kvals):
            kvals[0] = F(-1) if ints else F(-1, 2)
            if kh * kw > 1:
                kvals[-1] = F(-2) if ints else F(-1, 4)
        via = rng.choice(["direct", "apply_mask"])
        if dtypes["data"] in ("int", "pyint"):
            data = [F(rng.randint(-8, 8)) for _ in range(h * w)]
        else:
            data = [gen.dyadic(rng, -4, 4, 2) for _ in range(h * w)]
        if dtypes["noise"] in ("int", "pyint"):
            noise = [rng.choice([F(1), F(2), F(4), F(1), F(3)]) for _ in range(h * w)]
        else:
            noise = [rng.choice([F(1, 2), F(1), F(2), F(4), F(1, 4), F(3, 2)]) for _ in range(h * w)]
        n = sum(1 for r in mask for b in r if not b)
        if sub is None:
            sub = rng.choice([1, 2, [rng.choice([1, 2, 3]) for _ in range(n)], [rng.choice([1, 2]) for _ in range(n)]])
        return {
            "mask": mask_json(mask),
            "kernel": {"kh": kh, "kw": kw, "vals": qlist(kvals)},
            "data": qlist(data), "noise": qlist(noise), "sub": sub, "via": via,
            "dtypes": dtypes, "container": container, "ctor": ctor,
        }

    def _objs(self, rng, kinds, n, c):
        dt = c["dtypes"]
        return [self._obj(rng, k, n, ints=dt["func"] in ("int", "pyint"),
                          int_points=dt["points"] in ("int", "pyint")) for k in kinds]

    def _eps(self, rng):
        """the diagonal value: unset (config default), set-but-falsy 0.0, explicit default, others"""
        return rng.choice([None, "0", q(F(1e-3)), q(F(1, 1024)), q(F(1, 4)), q(F(1, 64))])

    def _obj(self, rng, kind, n, signed_funcs=True, ints=False, int_points=None):
        int_points = ints if int_points is None else int_points
        reg = rng.random() < 0.7
        if kind == "R":
            return {"kind": "rect", "shape": [rng.randint(3, 4), rng.randint(3, 5)], "reg": reg,
                    "coeff": q(rng.choice([F(1), F(1, 2), F(2)]))}
        if kind == "D":
            k = rng.randint(4, 7)
            pts = set()
            while len(pts) < k:
                if int_points:  # integer-valued vertices (delivered as int64 / Python ints)
                    pts.add((F(rng.randint(-4, 4)), F(rng.randint(-4, 4))))
                else:
                    pts.add((gen.dyadic(rng, -3, 3, 3), gen.dyadic(rng, -3, 3, 3)))
            return {"kind": "delaunay", "points": [[q(a), q(b)] for a, b in sorted(pts)], "reg": reg,
                    "coeff": q(rng.choice([F(1), F(1, 2)]))}
        p = rng.randint(1, 3)
        lo = -4 if signed_funcs else 0
        if ints:
            mm = [[F(rng.randint(lo, 6)) for _ in range(p)] for _ in range(n)]
        else:
            mm = [[F(rng.randint(lo, 6), 4) for _ in range(p)] for _ in range(n)]
        return {"kind": "func", "matrix": qmat(mm), "reg": rng.random() < 0.25, "coeff": "1"}

    def _geometry(self, rng):
        return {
            "pixel_scales": qlist(gen.scales_pair(rng)),
            "origin": qlist(gen.origin_pair(rng)),
            "distort": qlist([gen.dyadic(rng, -2, 2, 2) or F(1), gen.dyadic(rng, -1, 1, 2),
                              gen.dyadic(rng, -1, 1, 2), gen.dyadic(rng, -2, 2, 2) or F(1, 2),
                              gen.dyadic(rng, -1, 1, 3) or F(1, 8), gen.dyadic(rng, -1, 1, 3) or F(-1, 8)]),
        }

    @staticmethod
    def _fixed_mask(kshape, variant=0):
        """two components + a hole / diagonal contact, margin = half kernel, non-square frame."""
        my, mx = kshape[0] // 2, kshape[1] // 2
        if variant == 0:
            inner = ["0010",
                     "0110",
                     "1001"]
        else:
            inner = ["01011",
                     "10100",
                     "00010",
                     "11001"]
        ih, iw = len(inner), len(inner[0])
        h, w = ih + 2 * my, iw + 2 * mx
        m = [[True] * w for _ in range(h)]
        for y in range(ih):
            for x in range(iw):
                m[y + my][x + mx] = inner[y][x] == "1"
        return m

    def generate(self, tier, rng):
        kinds = "RDF"
        # 1. enumerated: object lists × kernel shapes × sign
        lists12 = [c for k in (1, 2) for c in itertools.product(kinds, repeat=k)]
        lists3 = list(itertools.product(kinds, repeat=3))
        variants = (0,) if tier == "quick" else (0, 1)
        for variant in variants:
            for kshape in (KERNEL_SHAPES[:7] if tier == "quick" else KERNEL_SHAPES):
                for signed in (False, True):
                    if tier == "quick" and kshape == (1, 1) and signed:
                        continue        # (a signed 1x1 kernel is a negative scalar: thorough tier only)
                    m = self._fixed_mask(kshape, variant)
                    n = sum(1 for r in m for b in r if not b)
                    ls = list(lists12)
                    if tier == "thorough":
                        ls = ls + lists3
                    elif kshape in ((3, 5), (5, 3)) and signed:
                        # quick tier: every ordered 3-object list once, alternating between the two non-square
                        # signed kernels (round 5/6: volume moved to the new streams; the thorough tier has them all)
                        ls = ls + lists3[(0 if kshape == (3, 5) else 1)::2]
                    for lst in ls:
                        c = self._values(rng, m, kshape, signed)
                        c.update(self._geometry(rng))
                        c["objs"] = self._objs(rng, lst, n, c)
                        c["eps"] = self._eps(rng)
                        c["tag"] = f"enum_{''.join(lst)}_{kshape[0]}x{kshape[1]}_{'signed' if signed else 'nonneg'}"
                        yield c
        # 2. structured random
        nrand = 60 if tier == "quick" else 1200
        for _ in range(nrand):
            kshape = rng.choice(KERNEL_SHAPES[1:])
            signed = rng.random() < 0.5
            my, mx = kshape[0] // 2, kshape[1] // 2
            ih, iw = rng.randint(2, 5), rng.randint(2, 6)
            kind = rng.choice(["block", "blocks", "annulus", "cross", "diagonal", "bernoulli", "all",
                               "ring_touching"])
            inner, kind = gen.random_mask(rng, ih, iw, margin=0, kind=kind)
            h, w = ih + 2 * my + rng.randint(0, 1), iw + 2 * mx + rng.randint(0, 1)
            oy, ox = rng.randint(my, h - ih - my), rng.randint(mx, w - iw - mx)
            m = [[True] * w for _ in range(h)]
            for y in range(ih):
                for x in range(iw):
                    m[y + oy][x + ox] = inner[y][x]
            n = sum(1 for r in m for b in r if not b)
            if n < 2:
                continue
            c = self._values(rng, m, kshape, signed)
            c.update(self._geometry(rng))
            k = rng.choice([1, 1, 2, 2, 3])
            c["objs"] = self._objs(rng, [rng.choice(kinds) for _ in range(k)], n, c)
            if rng.random() < 0.3:   # per-mapper over-sampling sizes
                for o in c["objs"]:
                    if o["kind"] != "func":
                        o["sub"] = rng.choice([1, 2, 3])
            c["eps"] = self._eps(rng)
            c["tag"] = f"rand_{kind}_{kshape[0]}x{kshape[1]}_{'signed' if signed else 'nonneg'}_{k}obj"
            yield c
            mappers = [o for o in c["objs"] if o["kind"] != "func"]
            if mappers and rng.random() < 0.5:
                # the util functions named by the property, on the same dataset and its first mapper
                yield {**c, "kind": "utils", "objs": [mappers[0]],
                       "tag": f"utils_{kshape[0]}x{kshape[1]}_{'signed' if signed else 'nonneg'}_{mappers[0]['kind']}"}
        # 2b. degenerate sizes (round-3 hardening): one unmasked pixel, 1xN / Nx1 / 1x1 frames, all-unmasked
        #     masks (1x1 kernel), always with the footprint inside the frame; mappers use sub-size 2 so that
        #     the source-plane grid is not a single point / a single line
        degen = []
        for kshape in ((1, 1), (1, 3), (3, 1), (3, 3), (3, 5)):
            my, mx = kshape[0] // 2, kshape[1] // 2
            wd, ht = 2 * mx + 1 + rng.randint(0, 2), 2 * my + 1 + rng.randint(0, 1)
            m1 = [[True] * wd for _ in range(ht)]
            m1[my][mx] = False                                   # exactly one unmasked pixel
            degen.append((m1, kshape))
        for wdt in (1, 2, 4):
            degen.append(([[False] * wdt], (1, 1)))                # 1xN frame, all unmasked, 1x1 kernel
            degen.append(([[False] for _ in range(wdt)], (1, 1)))  # Nx1 frame
        degen.append(([[True, False, False, True, False, True]], (1, 3)))   # 1xN frame, (1,3) kernel
        degen.append(([[True], [False], [False], [True]], (3, 1)))          # Nx1 frame, (3,1) kernel
        degen.append(([[False, False, False], [False, False, False]], (1, 1)))   # all unmasked
        for m, kshape in degen:
            n = sum(1 for r in m for b in r if not b)
            for lst in (("F",), ("R",), ("D", "F"), ("F", "R")) if tier == "quick" else \
                    (("F",), ("R",), ("D",), ("D", "F"), ("F", "R"), ("R", "R")):
                c = self._values(rng, m, kshape, rng.random() < 0.5, sub=2)
                c.update(self._geometry(rng))
                c["objs"] = self._objs(rng, lst, n, c)
                c["eps"] = self._eps(rng)
                c["tag"] = f"degen_{len(m)}x{len(m[0])}_n{n}_{kshape[0]}x{kshape[1]}_{''.join(lst)}"
                yield c
        # 3. the mirroring routine alone, on sparse asymmetric matrices
        for _ in range(30 if tier == "quick" else 300):
            n = rng.randint(1, 6)
            mm = [[(F(rng.randint(-4, 4), 2) if rng.random() < 0.5 else F(0)) for _ in range(n)] for _ in range(n)]
            yield {"tag": "mirrored", "kind": "mirrored", "matrix": qmat(mm)}
        # 4. histories on REAL reused objects (round-4 hardening): every type in every run, values seeded
        yield from self._histories(tier, rng)
        # 5. round 5/6 hardening: decades / nearly-equal ingredients, layouts, options, ownership and configuration
        #    histories, always-on mid sizes (each stream draws from its own generator seeded from `rng`, so that
        #    the streams above are unchanged by them)
        import random as _random
        for k, stream in enumerate((self._decades, self._near, self._layout_cases, self._option_cases,
                                    self._round56_histories, self._midsize)):
            yield from stream(tier, _random.Random(rng.getrandbits(48) + k))

    # ------------------------------------------------------------------ history stream: generation
    def _hist_base(self, rng, kinds, *, float_only=False, unreg=False, kshapes=None):
        """a small ordinary case (the world A of a history)."""
        while True:
            kshape = rng.choice(kshapes or [(1, 3), (3, 1), (3, 3), (3, 5), (5, 3)])
            signed = rng.random() < 0.6
            my, mx = kshape[0] // 2, kshape[1] // 2
            ih, iw = rng.randint(2, 4), rng.randint(2, 5)
            inner, _ = gen.random_mask(rng, ih, iw, margin=0, kind=rng.choice(
                ["block", "blocks", "annulus", "cross", "diagonal", "bernoulli", "all"]))
            h, w = ih + 2 * my + rng.randint(0, 1), iw + 2 * mx + rng.randint(0, 1)
            oy, ox = rng.randint(my, h - ih - my), rng.randint(mx, w - iw - mx)
            m = [[True] * w for _ in range(h)]
            for y in range(ih):
                for x in range(iw):
                    m[y + oy][x + ox] = inner[y][x]
            n = sum(1 for r in m for b in r if not b)
            if n >= 3:
                break
        c = self._values(rng, m, kshape, signed)
        if float_only:
            # near-duplicate twins perturb values by 1e-6 relative: not representable in the narrow dtypes
            c["dtypes"] = {k: "float" for k in c["dtypes"]}
            c = {**c, **self._values_float(rng, m, kshape, signed, c)}
        c.update(self._geometry(rng))
        c["objs"] = self._objs(rng, kinds, n, c)
        if unreg:       # the diagonal term only shows on objects without regularization
            c["objs"][0]["reg"] = False
        c["eps"] = self._eps(rng)
        return c, n

    def _values_float(self, rng, mask, kshape, signed, c):
        """re-draw kernel / data / noise as dyadic float values (when `_values` had drawn integer-typed ones)."""
        h, w = len(mask), len(mask[0])
        kh, kw = kshape
        kvals = [F(rng.randint(0, 8), 8) * (-1 if signed and rng.random() < 0.4 else 1) for _ in range(kh * kw)]
        if all(v == 0 for v in kvals):
            kvals[(kh // 2) * kw + kw // 2] = F(1)
        if signed and all(v >= 0 for v in kvals):
            kvals[0] = F(-1, 2)
        return {"kernel": {"kh": kh, "kw": kw, "vals": qlist(kvals)},
                "data": qlist([gen.dyadic(rng, -4, 4, 2) for _ in range(h * w)]),
                "noise": qlist([rng.choice([F(1, 2), F(1), F(2), F(4), F(1, 4), F(3, 2)]) for _ in range(h * w)])}

    @staticmethod
    def _twin(vals, rel=1e-6, keep=None):
        """the same reals perturbed by ~rel relative, a different factor per entry (inside np.allclose's default
        tolerance, far outside the property's 1e-9); exact "p/q" strings of the resulting doubles."""
        out = []
        for i, v in enumerate(vals):
            x = _f(v)
            if keep is not None and keep[i]:
                out.append(v)
                continue
            out.append(q(x * (1.0 + rel * (1 + i % 3)) if x != 0.0 else 1e-10 * (1 + i % 3)))
        return out

    def _histories(self, tier, rng):
        reps = 1 if tier == "quick" else 10
        obs = lambda world, **kw: {"op": "observe", "world": world, **kw}
        WM, MW = ["w_tilde", "mapping"], ["mapping", "w_tilde"]
        mapper_lists = [("R",), ("D",), ("R", "F"), ("F", "D"), ("R", "D"), ("F", "R", "F")]

        def fresh_data(c, n_all, integral):
            return qlist([F(rng.randint(-8, 8)) if integral else gen.dyadic(rng, -4, 4, 2) for _ in range(n_all)])

        def integral(c, which):
            return c["dtypes"][which] in ("int", "pyint")

        def finish(c, htype, worlds, steps, k):
            one = k % 3 == 1 and len({json_eps(w_.get("eps", c["eps"])) for w_ in worlds.values()}) == 1
            return {**c, "kind": "history", "hist_type": htype, "worlds": worlds, "steps": steps,
                    "preloads": "shared" if k % 2 == 0 else None, "settings": "one" if one else None,
                    "tag": f"hist_{htype}"}

        def json_eps(e):
            return "None" if e is None else str(e)

        for rep in range(reps):
            # (i) read -> in-place edit through the library's own __setitem__ / the caller-owned buffer -> read
            for k, kinds in enumerate([("R",), ("D", "F"), ("F", "R"), ("R", "R")]):
                c, n = self._hist_base(rng, kinds)
                big = [[rng.randrange(n), q(F(rng.randint(-8, 8)) if integral(c, "data") else gen.dyadic(rng, -4, 4, 2))]
                       for _ in range(rng.randint(1, 3))]
                steps = [obs("A", order=WM if k % 2 else MW), {"op": "set_data", "world": "A", "edits": big},
                         obs("A", order=MW if k % 2 else WM)]
                fi = [i for i, o in enumerate(c["objs"]) if o["kind"] == "func"]
                if fi:
                    mm = c["objs"][fi[0]]["matrix"]
                    r, col = rng.randrange(len(mm)), rng.randrange(len(mm[0]))
                    steps += [{"op": "set_func", "obj": fi[0], "edits": [[r, col, q(F(rng.randint(-4, 6)))]]},
                              obs("A", order=WM)]
                yield finish(c, "edit_in_place", {"A": {"mode": "base"}}, steps, k)
            # (i/ii) tiny in-place edits (near-duplicates of the state already seen)
            for k, kinds in enumerate([("R", "F"), ("D",)]):
                c, n = self._hist_base(rng, kinds, float_only=True)
                m = mask_from_json(c["mask"]).ravel()
                slim = [v for v, mk in zip(c["data"], m) if not mk]
                kk = rng.randrange(n)
                steps = [obs("A", order=WM), {"op": "set_data", "world": "A",
                                              "edits": [[kk, self._twin([slim[kk]])[0]]]}, obs("A", order=WM)]
                fi = [i for i, o in enumerate(c["objs"]) if o["kind"] == "func"]
                if fi:
                    mm = c["objs"][fi[0]]["matrix"]
                    r, col = rng.randrange(len(mm)), rng.randrange(len(mm[0]))
                    steps += [{"op": "set_func", "obj": fi[0], "edits": [[r, col, self._twin([mm[r][col]])[0]]]},
                              obs("A", order=MW)]
                yield finish(c, "edit_tiny", {"A": {"mode": "base"}}, steps, k)
            # (iv) DatasetInterface worlds sharing noise map / convolver / w_tilde / grids of the Imaging dataset
            #      (the documented "data with something subtracted" use), different and near-duplicate data
            for k, kinds in enumerate(mapper_lists[:4]):
                c, n = self._hist_base(rng, kinds, float_only=(k % 2 == 1))
                hw = c["mask"]["h"] * c["mask"]["w"]
                worlds = {"A": {"mode": "base"},
                          "B": {"mode": "interface", "data": fresh_data(c, hw, integral(c, "data"))}}
                if k >= 2:      # through the library's own arithmetic: `dataset.data - foreground`
                    worlds["B"] = {"mode": "interface", "minus": fresh_data(c, hw, integral(c, "data"))}
                if k % 2 == 1:
                    worlds["C"] = {"mode": "interface", "data": self._twin(c["data"])}
                names = [["A", "B", "C", "A"], ["B", "A", "C", "B"], ["C", "B", "A"], ["B", "C", "A", "B"]][k]
                steps = [obs(nm, order=WM if (j + k) % 2 else MW) for j, nm in enumerate(names) if nm in worlds]
                yield finish(c, "interface_worlds", worlds, steps, k)
            # (iv) a second Imaging world (other noise / data / PSF) sharing the Mask2D object, the linear
            #      objects, the settings and Preloads objects — both orders; (ii) near-duplicate noise / PSF twins
            for k, kinds in enumerate(mapper_lists):
                c, n = self._hist_base(rng, kinds, float_only=True)
                hw = c["mask"]["h"] * c["mask"]["w"]
                kv = c["kernel"]["vals"]
                other_noise = qlist([rng.choice([F(1, 2), F(1), F(2), F(4), F(1, 4), F(3, 2)]) for _ in range(hw)])
                other_kernel = {**c["kernel"], "vals": qlist([F(rng.randint(-8, 8), 8) or F(1, 8) for _ in kv])}
                variants = [
                    {"B": {"mode": "dataset", "noise": other_noise, "data": fresh_data(c, hw, False)}},
                    {"B": {"mode": "dataset", "noise": self._twin(c["noise"])}},
                    {"B": {"mode": "dataset", "kernel": other_kernel}},
                    {"B": {"mode": "dataset", "kernel": {**c["kernel"], "vals": self._twin(kv)}}},
                    {"B": {"mode": "dataset", "noise": self._twin(c["noise"]), "data": self._twin(c["data"])},
                     "C": {"mode": "dataset", "kernel": {**c["kernel"], "vals": self._twin(kv, rel=3e-6)}}},
                    {"B": {"mode": "dataset", "noise": other_noise},
                     "C": {"mode": "interface", "data": fresh_data(c, hw, False)}},
                ][k]
                worlds = {"A": {"mode": "base"}, **variants}
                names = ["A", "B", "A"] if k % 2 == 0 else ["B", "A", "B"]
                if "C" in worlds:
                    names = names[:2] + ["C"] + names[2:]
                steps = [obs(nm, order=WM if (j + k) % 2 else MW) for j, nm in enumerate(names)]
                yield finish(c, "dataset_worlds", worlds, steps, k)
            # derived objects: a deep copy of the (already used) dataset, edited in place; the original afterwards
            for k, kinds in enumerate([("R",), ("F", "D"), ("R", "F")]):
                c, n = self._hist_base(rng, kinds)
                ed = lambda: [[rng.randrange(n), q(F(rng.randint(-8, 8)) if integral(c, "data")
                                                     else gen.dyadic(rng, -4, 4, 2))] for _ in range(rng.randint(1, 2))]
                steps = ([obs("A", order=WM)] if k != 1 else []) + \
                        [{"op": "set_data", "world": "B", "edits": ed()}, obs("B", order=WM if k else MW),
                         obs("A", order=MW), {"op": "set_data", "world": "A", "edits": ed()}, obs("B", order=MW),
                         obs("A", order=WM)]
                yield finish(c, "copied_dataset", {"A": {"mode": "base"}, "B": {"mode": "copy"}}, steps, k)
            # (ii/iv) the diagonal value perturbed by 1e-5 relative (own settings object, everything else shared)
            for k, kinds in enumerate([("R",), ("F", "D")]):
                c, n = self._hist_base(rng, kinds, unreg=True)
                e = rng.choice([F(1, 1024), F(1, 64), F(1e-3)])
                c["eps"] = q(e)
                worlds = {"A": {"mode": "base"}, "B": {"mode": "dataset", "eps": q(float(e) * (1 + 1e-5))}}
                yield finish(c, "eps_twin", worlds, [obs("A", order=WM), obs("B", order=WM), obs("A", order=MW)], k)
            # (iii) fault then reuse: the user's linear object raises in the middle of the first evaluation of an
            #       inversion (k-th read of its mapping matrix); an inversion with a wrong-length function list
            for k, kinds in enumerate([("R", "F"), ("F", "D"), ("F",), ("R", "F", "F")]):
                c, n = self._hist_base(rng, kinds)
                fi = [i for i, o in enumerate(c["objs"]) if o["kind"] == "func"][-1]
                c["objs"][fi]["faulty"] = True
                steps = [obs("A", order=WM if k % 2 else MW, fault={"obj": fi, "at": 1 + k % 3}),
                         obs("A", order=MW if k % 2 else WM)]
                if k >= 2:
                    steps.insert(1, obs("A", order=WM, fault={"bad_rows": True}))
                yield finish(c, "fault_then_reuse", {"A": {"mode": "base"}}, steps, k)
            # (v) decoy reads: every other public derived quantity of the inversion / dataset / mappers FIRST,
            #     the w-tilde formalism before the mapping formalism
            for k, kinds in enumerate([("R",), ("D", "F"), ("R", "D")]):
                c, n = self._hist_base(rng, kinds)
                names = list(self.INV_DECOYS)
                rng.shuffle(names)
                steps = [obs("A", order=WM, decoys=names, ds_decoys=(k != 1)), obs("A", order=MW)]
                yield finish(c, "decoy_reads", {"A": {"mode": "base"}}, steps, k)
            # read-only caller arrays (kernel, data, noise map, function-list matrices)
            for k, kinds in enumerate([("R", "F"), ("D",)]):
                c, n = self._hist_base(rng, kinds)
                c["container"] = "ndarray"
                yield finish(c, "read_only_inputs", {"A": {"mode": "base", "readonly": True}},
                             [obs("A", order=MW if k else WM)], k)
            # (ii) the util functions named by the property called again with near-duplicate kernels / noise maps
            for k, kinds in enumerate([("R",), ("D",)]):
                c, n = self._hist_base(rng, kinds, float_only=True, kshapes=[(1, 3), (3, 1), (3, 3)])
                worlds = {"A": {"mode": "base"},
                          "B": {"mode": "dataset", "kernel": {**c["kernel"], "vals": self._twin(c["kernel"]["vals"])}},
                          "C": {"mode": "dataset", "noise": self._twin(c["noise"]), "data": self._twin(c["data"])}}
                yield finish(c, "utils_twins", worlds, [obs(nm, utils=True) for nm in ("A", "B", "C", "A")], k)

    # ------------------------------------------------------------------ round 5/6 streams: generation
    # R5-A / R5-E  decades: ordinary small cases whose world, or one ingredient, is scaled by a power of two
    @staticmethod
    def _exps_ok(a, b, c, fs, lim=900):
        """every quantity the code forms (inputs, 1/sigma^2, products, results, their squares) stays a normal
        double with > 100 binades to spare"""
        for f in (min(fs), max(fs)):
            for g in (min(fs), max(fs)):
                units = (a, b, 2 * b, -2 * b, c, c + f, a + c + f, a - 2 * b, a - b, c + f - b, a + c - 2 * b,
                         a + c + f - 2 * b, 2 * c - 2 * b, 2 * c + f + g - 2 * b, 2 * (c + f - b), a - c - f,
                         2 * c, c + f + g)
                if any(abs(u) > lim for u in units):
                    return False
        return True

    def _apply_scale(self, rng, c, mode, k=None, sign=None):
        """put a base case `c` (float dtypes) into a scaled world; returns the tag suffix."""
        sgn = lambda: rng.choice([-1, 1])
        k = k if k is not None else sgn() * rng.randint(8, 45)
        a = b = kc = 0
        nfunc = [i for i, o in enumerate(c["objs"]) if o["kind"] == "func"]
        fexp = {}
        if mode == "world":
            a = b = k
        elif mode == "data":
            a = k
        elif mode == "noise":
            b = k
        elif mode == "kernel":
            kc = k
        elif mode == "func":
            for i in nfunc:
                fexp[i] = [k] * len(c["objs"][i]["matrix"][0])
                k = sgn() * rng.randint(8, 45) if rng.random() < 0.5 else k
        elif mode == "func_col":
            for i in nfunc:
                fexp[i] = [rng.choice([0, k, -k, sgn() * rng.randint(20, 40)]) for _ in c["objs"][i]["matrix"][0]]
        elif mode == "mix":
            a, b, kc = (sgn() * rng.randint(0, 30) for _ in range(3))
            for i in nfunc:
                fexp[i] = [sgn() * rng.randint(0, 30)] * len(c["objs"][i]["matrix"][0])
        elif mode == "extreme":
            # out to ~1e±150 for the quantities that get squared / multiplied (noise^2, K·K/noise^2, d·B/noise^2)
            b = (sign or sgn()) * rng.randint(150, 250)
            a = b + sgn() * rng.randint(0, 150)
            kc = sgn() * rng.randint(40, 200)
        if kc:
            c["via"] = "direct"           # (`apply_mask` would normalise the kernel's scale away)
        fs = [e for v in fexp.values() for e in v] or [0]
        while not self._exps_ok(a, b, kc, fs + [0]):
            a, b, kc = a // 2, b // 2, kc // 2
            fexp = {i: [e // 2 for e in v] for i, v in fexp.items()}
            fs = [e for v in fexp.values() for e in v] or [0]
        c["scale"] = {"data": a, "noise": b, "kernel": kc}
        for i, v in fexp.items():
            if any(v):
                c["objs"][i]["fexp"] = v
        # units of the diagonal of F per object: 2^(2(c + f - b)); regularization coefficients follow them (so the
        # regularized system is the base system, rescaled) in most cases
        consistent = rng.random() < 0.7
        for i, o in enumerate(c["objs"]):
            f0 = (o.get("fexp") or [0])[0]
            if o["reg"] and consistent:
                o["coeff"] = q(Fraction(o.get("coeff", "1")) * Fraction(2) ** (kc + f0 - b))
        noreg_f = {e for o in c["objs"] if not o["reg"]
                   for e in (o.get("fexp") or [0] * (1 if o["kind"] != "func" else len(o["matrix"][0])))}
        if len(noreg_f) > 1:
            c["eps"] = "0"                # one diagonal value cannot serve parameters of different units
        else:
            u2 = Fraction(2) ** (2 * (kc + (next(iter(noreg_f)) if noreg_f else 0) - b))
            c["eps"] = rng.choice([None, "0", q(Fraction(1, 1024) * u2), q(Fraction(1, 64) * u2), q(F(1, 64)),
                                   q(Fraction(1, 1024) * u2)])
        # float32 inputs at scaled magnitudes, where the values fit
        if max(abs(a), abs(b), abs(kc)) <= 60 and rng.random() < 0.25:
            which = rng.choice(["kernel", "data", "noise"])
            vals = c["kernel"]["vals"] if which == "kernel" else c[which]
            if all(float(np.float32(_f(v))) == _f(v) for v in vals):     # (24-bit significands only)
                c["dtypes"][which] = "float32"
        return f"{mode}"

    def _decades(self, tier, rng):
        modes = ["world", "data", "noise", "kernel", "func", "func_col", "mix", "extreme", "noise", "world"]
        # (lists mixing mappers and function lists run every branch of both formalisms: they come most often)
        lists = [("R", "F"), ("D",), ("F", "R"), ("R",), ("D", "F"), ("F", "F"), ("F", "R", "F"), ("R", "R"), ("F", "D"),
                 ("F",), ("R", "D"), ("R", "F")]
        n = 30 if tier == "quick" else 300
        for i in range(n):
            mode = modes[i % len(modes)]
            kinds = lists[(i // len(modes) + i) % len(lists)]
            if mode in ("func", "func_col") and "F" not in kinds:
                kinds = kinds + ("F",)
            if mode == "extreme":
                kinds = [("R", "F"), ("F", "D"), ("F", "R", "F"), ("D",)][(i // len(modes)) % 4]
            c, npx = self._hist_base(rng, kinds, float_only=True)
            base = json_copy(c)
            # (extreme decades alternate the sign of the noise exponent deterministically: huge weights 1/sigma^2
            #  in one run, tiny ones in the next case)
            self._apply_scale(rng, c, mode, sign=(-1 if (i // len(modes)) % 2 == 0 else 1) if mode == "extreme" else None)
            c["tag"] = f"dec_{mode}"
            yield c
            if i % 3 == 0:
                # the same world at another decade (same shapes, same mask, other magnitudes): the neighbour the
                # order-of-evaluation stream needs to see a memo keyed on shapes / on np.allclose
                c2 = json_copy(base)
                self._apply_scale(rng, c2, mode if mode != "extreme" else "world")
                c2["tag"] = f"dec_{mode}_twin"
                yield c2
            if i % 5 == 1 and any(o["kind"] != "func" for o in c["objs"]):
                # the util functions named by the property in the scaled world
                mp = [o for o in c["objs"] if o["kind"] != "func"][0]
                yield {**json_copy(c), "kind": "utils", "objs": [mp], "tag": f"dec_utils_{mode}"}

    # R5-A  nearly-uniform / nearly-equal / nearly-symmetric / nearly-zero ingredients (relative differences
    #       2^-17 … 2^-26: inside np.allclose / isclose defaults, far outside the property's 1e-9), at several decades
    def _near(self, tier, rng):
        kinds_all = ["uniform_noise", "const_data", "sym_kernel", "delta_kernel", "equal_cols", "transpose_kernel",
                     "uniform_noise", "zero_wings"]
        n = 10 if tier == "quick" else 96
        for i in range(n):
            what = kinds_all[i % len(kinds_all)]
            kinds = rng.choice([("R",), ("D",), ("R", "F"), ("F", "R")]) if what != "equal_cols" else \
                rng.choice([("F",), ("F", "R"), ("D", "F")])
            ks = {"sym_kernel": [(3, 3), (3, 5), (5, 3), (1, 3), (3, 1)], "transpose_kernel": [(3, 3), (5, 5)],
                  "delta_kernel": [(3, 3), (3, 5), (1, 3)], "zero_wings": [(3, 3), (5, 3), (3, 5)]}.get(what)
            c, npx = self._hist_base(rng, kinds, float_only=True, kshapes=ks)
            k = rng.randint(17, 26)
            tiny = lambda j: Fraction(j, 2 ** k)
            hw = c["mask"]["h"] * c["mask"]["w"]
            kh, kw = c["kernel"]["kh"], c["kernel"]["kw"]
            if what == "uniform_noise":
                s0 = rng.choice([F(1, 2), F(1), F(2), F(3, 2)])
                c["noise"] = qlist([s0 * (1 + tiny(rng.randint(0, 3))) for _ in range(hw)])
            elif what == "const_data":
                d0 = rng.choice([F(1), F(-3, 2), F(5, 4)])
                c["data"] = qlist([d0 * (1 + tiny(rng.randint(-3, 3))) for _ in range(hw)])
            elif what in ("sym_kernel", "transpose_kernel", "delta_kernel", "zero_wings"):
                K = [[F(rng.randint(-4, 8), 8) for _ in range(kw)] for _ in range(kh)]
                if what == "sym_kernel":          # point symmetric up to 2^-k
                    K = [[K[y][x] if y * kw + x <= (kh * kw) // 2 else K[kh - 1 - y][kw - 1 - x] for x in range(kw)]
                         for y in range(kh)]
                elif what == "transpose_kernel":  # symmetric under transposition up to 2^-k
                    K = [[K[min(y, x)][max(y, x)] for x in range(kw)] for y in range(kh)]
                elif what == "delta_kernel":      # the identity kernel up to 2^-k
                    K = [[F(1) if (y, x) == (kh // 2, kw // 2) else F(0) for x in range(kw)] for y in range(kh)]
                else:                             # O(1) core, wings 2^-k relative
                    K = [[K[y][x] if (abs(y - kh // 2) <= 0 and abs(x - kw // 2) <= 1) else F(0) for x in range(kw)]
                         for y in range(kh)]
                    K[kh // 2][kw // 2] = F(1)
                for _ in range(rng.randint(1, 3)):
                    y, x = rng.randrange(kh), rng.randrange(kw)
                    if what in ("sym_kernel", "transpose_kernel") and (y, x) == (kh // 2, kw // 2):
                        continue
                    K[y][x] += tiny(rng.choice([-3, -1, 1, 2, 3]))
                if all(v == 0 for r in K for v in r):
                    K[kh // 2][kw // 2] = F(1)
                c["kernel"] = {"kh": kh, "kw": kw, "vals": qlist([v for r in K for v in r])}
                c["via"] = "direct"
            elif what == "equal_cols":
                for o in c["objs"]:
                    if o["kind"] == "func":
                        col = [Fraction(r[0]) or F(1, 4) for r in o["matrix"]]
                        o["matrix"] = qmat([[v, v * (1 + tiny(1 + (j % 3)))] for j, v in enumerate(col)])
                        o["reg"] = False
            mode = rng.choice(["none", "world", "noise", "data", "kernel"])
            if mode != "none":
                self._apply_scale(rng, c, mode, k=rng.choice([-1, 1]) * rng.randint(10, 40))
            c["tag"] = f"near_{what}"
            yield c

    # R5-C  container / layout variants of every array-taking entry point
    def _layout_cases(self, tier, rng):
        n = 16 if tier == "quick" else 144
        lays = [l for l in LAYOUTS if l != "list"]
        lists = [("R", "F"), ("D",), ("F", "R"), ("R",), ("F",), ("D", "F")]
        for i in range(n):
            # systematic part: every main input in every layout (F, T, neg for all four inputs in every quick run)
            target = ["kernel", "data", "noise", "func"][i % 4]
            forced = ["F", "T", "neg", "strided", "offset", "readonly"][(i // 4) % 6]
            kinds = lists[i % len(lists)]
            if target == "func" and "F" not in kinds:
                kinds = kinds + ("F",)
            c, npx = self._hist_base(rng, kinds, float_only=True,
                                     kshapes=[(3, 3), (3, 5), (5, 3)] if target == "kernel" else None)
            if target == "func":      # (a layout only matters for a matrix with more than one column)
                for o in c["objs"]:
                    if o["kind"] == "func" and len(o["matrix"][0]) < 2:
                        o["matrix"] = qmat([[Fraction(r[0]), F(rng.randint(-4, 6), 4)] for r in o["matrix"]])
            c["container"] = "ndarray"
            pick = lambda extra=(): rng.choice(lays + list(extra))
            c["layouts"] = {"kernel": pick(), "data": pick(), "noise": pick(), "func": pick(), "points": pick(),
                            "mask": rng.choice(["C", "F", "T", "strided", "offset", "list", "from_mask", "int",
                                                "scalar_scale", "neg"])}
            c["layouts"][target] = forced
            if c.get("via") == "direct":
                c["store"] = rng.choice([None, "slim1d", "from_array"])
            if i % 4 == 3:
                c["positional"] = True
            c["tag"] = f"lay_{forced}"
            yield c
            if i % 4 == 0 and any(o["kind"] != "func" for o in c["objs"]):
                mp = [o for o in c["objs"] if o["kind"] != "func"][0]
                cu = json_copy(c)
                cu["layouts"]["utils"] = forced
                yield {**cu, "kind": "utils", "objs": [mp], "tag": f"lay_utils_{forced}"}

    # R5-F  rarely combined options: every non-default / set-but-falsy value of the settings the constructor takes
    #       (introspected), crossed pairwise; the Preloads slots the factory reads; the documented override of a
    #       function list's operated matrix; no settings argument at all
    SETTINGS_VALUES = {
        "positive_only_uses_p_initial": [True, False], "use_border_relocator": [True, False],
        "force_edge_pixels_to_zeros": [False], "force_edge_image_pixels_to_zeros": [True],
        "image_pixels_source_zero": [[], [0]], "use_w_tilde_numpy": [True], "use_source_loop": [True],
        "use_linear_operators": [True], "image_mesh_min_mesh_pixels_per_pixel": [0, 3],
        "image_mesh_min_mesh_number": [0], "image_mesh_adapt_background_percent_threshold": [0.0],
        "image_mesh_adapt_background_percent_check": [0.0], "tolerance": [0.0], "maxiter": [0],
        "use_positive_only_solver": [True, None],
    }
    SETTINGS_OWN = ("self", "use_w_tilde", "no_regularization_add_to_curvature_diag_value")

    def _settings_options(self):
        """[(name, value)]: the constructor's parameters as they are NOW (a new boolean parameter is flipped too)."""
        import inspect
        aa = load_autoarray()
        out = []
        for name, prm in inspect.signature(aa.SettingsInversion.__init__).parameters.items():
            if name in self.SETTINGS_OWN:
                continue
            if name in self.SETTINGS_VALUES:
                out += [(name, v) for v in self.SETTINGS_VALUES[name]]
            elif isinstance(prm.default, bool):
                out.append((name, not prm.default))
        return out

    def _option_cases(self, tier, rng):
        opts = self._settings_options()
        pairs = [(x, y) for i, x in enumerate(opts) for y in opts[i + 1:] if x[0] != y[0]]
        rng.shuffle(pairs)
        singles = [(x,) for x in opts]
        chosen = (singles[::3] + pairs[:8]) if tier == "quick" else (singles + pairs)
        lists = [("R", "F"), ("D",), ("F", "R"), ("R", "R"), ("F", "D", "F"), ("R",)]
        pre_opts = [{"use_w_tilde": False}, {"use_w_tilde": True}, {"use_w_tilde": None, "w_tilde": "dataset"},
                    {"w_tilde": "fresh"}, {"use_w_tilde": False, "w_tilde": "dataset"}, {},
                    {"use_w_tilde": True, "w_tilde": "fresh"}]
        for i, combo in enumerate(chosen):
            c, npx = self._hist_base(rng, lists[i % len(lists)])
            extra = {nm: v for nm, v in combo}
            c["settings_extra"] = extra
            # the solver: the ordinary solve is what the property describes; with the positive-only solver (explicitly,
            # or from the configuration when the option is explicitly None) only the matrices are judged
            if extra.get("use_positive_only_solver", False) is not False:
                c["nosolve"] = True
            c["ctor"] = rng.choice(["Inversion", "factory", "class", "interface"])
            if i % 3 == 0:
                c["preloads_opt"] = pre_opts[(i // 3) % len(pre_opts)]
            c["tag"] = "opt_settings_" + ("pair" if len(combo) == 2 else "single")
            yield c
        # the Preloads slots of the factory x the settings flag x falsy diagonal values
        for i, po in enumerate(pre_opts if tier == "thorough" else pre_opts[:5]):
            c, npx = self._hist_base(rng, lists[(i + 1) % len(lists)], unreg=(i % 2 == 0))
            c["preloads_opt"] = po
            c["ctor"] = ["Inversion", "factory", "interface"][i % 3]
            c["eps"] = [None, "0", q(F(1e-3))][i % 3]
            c["tag"] = "opt_preloads"
            yield c
        # operated_mapping_matrix_override on a function list (with a decoy `mapping_matrix`), alone and beside
        # mappers / other function lists, in both formalisms
        for i, kinds in enumerate([("F",), ("R", "F"), ("F", "D"), ("F", "F", "R")] if tier == "quick" else
                                  [("F",), ("R", "F"), ("F", "D"), ("F", "F", "R"), ("F", "F"), ("D", "F", "F")] * 4):
            c, npx = self._hist_base(rng, kinds)
            fi = [j for j, o in enumerate(c["objs"]) if o["kind"] == "func"]
            c["objs"][fi[i % len(fi)]]["override"] = "decoy" if i % 3 != 2 else "same"
            c["ctor"] = ["Inversion", "factory", "class", "interface"][i % 4]
            c["tag"] = "opt_override"
            yield c
        # no settings argument at all (the library's shared default object), before and after other cases used it
        for i, kinds in enumerate([("R",), ("F", "D")] if tier == "quick" else [("R",), ("F", "D"), ("R", "F"), ("D",)] * 3):
            c, npx = self._hist_base(rng, kinds, unreg=True)
            c["default_settings"] = True
            c["eps"] = None
            c["ctor"] = "Inversion"
            c["tag"] = "opt_default_settings"
            yield c

    # R5-B  ownership histories; R5-D configuration histories (both on the history machinery: every observation is
    #       compared with the model / oracle value of a FRESH world in that state)
    def _round56_histories(self, tier, rng):
        reps = 1 if tier == "quick" else 8
        obs = lambda world, **kw: {"op": "observe", "world": world, **kw}
        WM, MW = ["w_tilde", "mapping"], ["mapping", "w_tilde"]

        def finish(c, htype, worlds, steps):
            return {**c, "kind": "history", "hist_type": htype, "worlds": worlds, "steps": steps,
                    "preloads": None, "settings": None, "tag": f"hist_{htype}"}

        for rep in range(reps):
            # R5-B: observe -> scribble over every array handed in or returned -> rebuild the same world from fresh,
            # equal inputs -> observe; three rounds; a second world with the same shapes interleaved
            for k, kinds in enumerate([("R", "F"), ("D",), ("F", "R", "F"), ("R", "D")]):
                c, npx = self._hist_base(rng, kinds, float_only=True)
                hw = c["mask"]["h"] * c["mask"]["w"]
                worlds = {"A": {"mode": "fresh"}}
                names = list(self.INV_DECOYS)
                rng.shuffle(names)
                steps = [obs("A", order=WM if k % 2 else MW, scribble=True, decoys=names[:9] if k % 2 == 0 else None),
                         obs("A", order=MW if k % 2 else WM, scribble=True),
                         obs("A", order=WM, scribble=True)]
                if k % 2 == 1:
                    worlds["B"] = {"mode": "fresh", "data": qlist([gen.dyadic(rng, -4, 4, 2) for _ in range(hw)]),
                                   "noise": qlist([rng.choice([F(1, 2), F(1), F(2), F(4)]) for _ in range(hw)])}
                    steps.insert(2, obs("B", order=MW, scribble=True))
                    steps.append(obs("B", order=WM))
                if k == 1 or k == 3:
                    steps.insert(1, obs("A", utils=True, scribble=True))
                    steps.append(obs("A", utils=True))
                yield finish(c, "ownership", worlds, steps)
            # R5-D: the configured diagonal value flipped between calls, on reused objects (dataset, linear objects,
            # ONE settings object that leaves the value unset) and on fresh ones; explicit values as controls
            for k, kinds in enumerate([("F",), ("R", "F"), ("D",)]):
                c, npx = self._hist_base(rng, kinds, unreg=True)
                c["eps"] = None
                cfg = lambda key, v: {"op": "config", "key": key, "value": v}
                EPS = "no_regularization_add_to_curvature_diag_value"
                v1, v2 = rng.choice([("1/64", "0"), ("1/4", "1/1024"), ("0", "1/16")])
                worlds = {"A": {"mode": "base"}, "N": {"mode": "fresh"}, "X": {"mode": "dataset", "eps": "1/32"}}
                steps = ([obs("A", order=MW)] if k != 1 else []) + [
                    cfg(EPS, v1), obs("A", order=WM), obs("N", order=MW), obs("X", order=MW),
                    cfg("use_positive_only_solver", True), cfg("positive_only_uses_p_initial", k % 2 == 0),
                    cfg(EPS, v2), obs("N", order=WM), obs("A", order=MW), obs("X", order=WM),
                    cfg("check_reconstruction", False), cfg(EPS, q(F(1e-3))), obs("A", order=WM)]
                yield finish(c, "config", worlds, steps)

    # R5-E  always-on mid / large sizes (beyond 2^16 frame pixels, beyond 2^15 sub-pixels), judged by the vectorised
    #       statement of the property
    def _midsize(self, tier, rng):
        def rect_obj(shape, sub=None):
            o = {"kind": "rect", "shape": list(shape), "reg": True, "coeff": q(rng.choice([F(1), F(1, 2)]))}
            if sub is not None:
                o["sub"] = sub
            return o
        hh = rng.choice([257, 263, 271])
        ww = (1 << 16) // hh + rng.randint(2, 9)
        cs = self._large_case(rng, kshape=rng.choice([(3, 3), (3, 5), (5, 3)]), n_unmasked=rng.randint(9, 14),
                              frame_hw=(hh, ww), objs=[rect_obj((3, 4), sub=2)], dim="frame", target=hh * ww,
                              hint=1 << 16, label="always")
        if cs is not None:
            cs["tag"] = "mid_frame_2^16"
            yield cs
        subs = self._sub_sizes((1 << 15) + rng.randint(1, 400), rng)
        cs = self._large_case(rng, kshape=rng.choice([(3, 3), (1, 3), (3, 1)]), n_unmasked=len(subs),
                              objs=[rect_obj((rng.randint(3, 5), rng.randint(3, 6)))], sub=subs, dim="sub_pixels",
                              target=sum(v * v for v in subs), hint=1 << 15, label="always")
        if cs is not None:
            cs["tag"] = "mid_sub_pixels_2^15"
            yield cs
        if tier == "thorough":
            for dim, kw in (("kernel", dict(kshape=(33, 31), n_unmasked=7, objs=[rect_obj((3, 3), sub=2)])),
                            ("unmasked", dict(kshape=(3, 3), n_unmasked=601, objs=[rect_obj((4, 5))])),
                            ("mesh_rect", dict(kshape=(3, 3), n_unmasked=16, objs=[rect_obj((33, 31), sub=2)]))):
                cs = self._large_case(rng, dim=dim, target=0, hint=0, label="always", **kw)
                if cs is not None:
                    cs["tag"] = f"mid_{dim}"
                    yield cs

    # ------------------------------------------------------------------ large stream: generation
    # what is feasible in pure Python (numba absent) within a few seconds per case
    # (measured: kernel strips of ~1000 pixels 3-5 s, 700 unmasked pixels ~2 s, 130 000 frame pixels ~3 s,
    #  ~1000 parameters 1-2.5 s, 2000 parameters 7-11 s — the P^2 Python loops of the w-tilde curvature matrix)
    LARGE_CAPS = {"kernel": 1100, "unmasked": 700, "frame": 150000, "sub_pixels": 45000,
                  "mesh": 1100, "mesh_once": 2100, "delaunay": 1100, "func_params": 1100}

    @staticmethod
    def _targets(c):
        """(label, size) on both sides of a constant: above first (a path gated `> c` / `>= c` runs there)."""
        return [("c+1", c + 1), ("c+c//3+1", c + c // 3 + 1), ("2c+1", 2 * c + 1), ("c", c), ("c-1", c - 1)]

    @staticmethod
    def _factor(t, lo, odd=False, up=True, span=40):
        """(a, b, t') with a*b = t' nearest to t in the given direction, lo <= a <= b (both odd when asked), the
        most square NON-square factorisation when there is one; None if nothing within `span`."""
        import math
        for dt in range(span + 1):
            tt = t + dt if up else t - dt
            if tt < lo * lo:
                if up:
                    continue
                return None
            cands = [(a, tt // a) for a in range(lo, math.isqrt(tt) + 1)
                     if tt % a == 0 and (not odd or (a % 2 == 1 and (tt // a) % 2 == 1))]
            if cands:
                ns = [p for p in cands if p[0] != p[1]]
                return (*(ns[-1] if ns else cands[-1]), tt)
        return None

    @staticmethod
    def _blob(n_target):
        """compact mask pieces for exactly `n_target` unmasked pixels: a non-square block with an interior hole
        and a ragged last row -> (ih, iw, holes) with ih*iw - len(holes) = n_target."""
        iw = max(2, int(np.ceil(np.sqrt(n_target * 1.6))))
        ih = -(-n_target // iw)
        if n_target > 6 and ih * iw - n_target < 2:
            ih += 1
        excess = ih * iw - n_target
        holes = []
        if excess >= 1 and ih >= 3 and iw >= 3:          # one interior hole first
            holes.append((ih // 2, iw // 2))
        y, x = ih - 1, iw - 1
        while len(holes) < excess:                         # ragged end of the last row(s)
            if (y, x) not in holes:
                holes.append((y, x))
            x -= 1
            if x < 0:
                x, y = iw - 1, y - 1
        return ih, iw, sorted(holes)

    def _large_case(self, rng, *, kshape, n_unmasked, objs, sub=1, dim, target, hint, label, frame_hw=None):
        """assemble one large case: the unmasked block sits in a corner of the frame, flush with the kernel
        margin on two sides (the footprint touches the frame edge exactly), non-square, anisotropic off-origin
        geometry, signed asymmetric kernel, varied noise.  None if the block does not fit `frame_hw`."""
        kh, kw = kshape
        my, mx = kh // 2, kw // 2
        ih, iw, holes = self._blob(n_unmasked)
        if frame_hw:
            h, w = frame_hw
            if h < ih + 2 * my or w < iw + 2 * mx:
                h, w = w, h
            if h < ih + 2 * my or w < iw + 2 * mx:
                return None
        else:
            h, w = ih + 2 * my + rng.randint(0, 2), iw + 2 * mx + rng.randint(1, 3)
        oy = my if rng.random() < 0.5 else h - my - ih
        ox = mx if rng.random() < 0.5 else w - mx - iw
        mj = {"h": h, "w": w, "rects": [[oy, ox, oy + ih, ox + iw]], "holes": [[oy + y, ox + x] for y, x in holes]}
        seed = rng.randint(0, 10 ** 6)
        ps = rng.choice([["1", "1/2"], ["3/4", "2"], ["1/2", "1/2"], ["2", "3/4"]])
        org = rng.choice([["1/2", "-3/4"], ["0", "0"], ["-2", "5/4"]])
        return {"large": True, "mask": mj, "kernel": {"kh": kh, "kw": kw, "gen": seed},
                "data": {"gen": seed + 1}, "noise": {"gen": seed + 2}, "sub": sub,
                "via": rng.choice(["direct", "apply_mask"]),
                "dtypes": {k: "float" for k in ("kernel", "data", "noise", "func", "points")},
                "container": "ndarray", "ctor": "Inversion", "pixel_scales": ps, "origin": org, "distort": None,
                "objs": objs, "eps": rng.choice([None, q(F(1, 64)), q(F(1e-3))]),
                "dim": dim, "target": target, "hint": hint, "tag": f"large_{dim}_{label}"}

    @staticmethod
    def _extent(case):
        """bounding box of the unmasked pixel centres in scaled coordinates (for placing Delaunay vertices)."""
        mj = case["mask"]
        y0, x0, y1, x1 = mj["rects"][0]
        psy, psx = (_f(v) for v in case["pixel_scales"])
        oy, ox = (_f(v) for v in case["origin"])
        ys = [-(r - (mj["h"] - 1) / 2.0) * psy + oy for r in (y0 - 0.5, y1 - 0.5)]
        xs = [(c - (mj["w"] - 1) / 2.0) * psx + ox for c in (x0 - 0.5, x1 - 0.5)]
        return [q(min(ys) - psy), q(max(ys) + psy), q(min(xs) - psx), q(max(xs) + psx)]

    def _sub_sizes(self, total, rng):
        """per-pixel sub-sizes (odd and even mixed) with sum of squares EXACTLY `total`; at most ~300 pixels."""
        n0 = min(300, max(4, total // 8))
        mean = max(1.0, np.sqrt(total / n0))
        subs, rem = [], total
        while rem > 0 and len(subs) < n0:
            s = max(1, int(round(mean + rng.choice([-2, -1, 0, 1, 1, 2]))))
            if s * s > rem:
                break
            subs.append(s)
            rem -= s * s
        while rem > 0:
            s = int(np.floor(np.sqrt(rem)))
            s = min(s, int(mean) + 3)
            subs.append(s)
            rem -= s * s
        rng.shuffle(subs)
        return subs

    def generate_large(self, hints, rng):
        caps = self.LARGE_CAPS
        small_k = [(3, 3), (1, 3), (3, 1), (3, 5)]

        def rect_obj(shape=None, sub=None):
            o = {"kind": "rect", "shape": list(shape or (rng.randint(3, 4), rng.randint(3, 5))), "reg": True,
                 "coeff": q(rng.choice([F(1), F(1, 2), F(2)]))}
            if sub is not None:
                o["sub"] = sub
            return o

        def func_obj(p):
            return {"kind": "func", "params": p, "gen": rng.randint(0, 10 ** 6), "reg": False, "coeff": "1"}

        for c in hints:
            for label, t in self._targets(c):
                up = not label.startswith("c-")
                lab = f"{c}_{label}"
                out = []
                # 1. kernel pixels kh*kw (odd x odd): most-square non-square shape (either orientation) and a strip
                if 9 <= t <= caps["kernel"]:
                    f = self._factor(t, 3, odd=True, up=up)
                    shapes = []
                    if f and (label != "c" or f[2] == t):
                        shapes.append((f[0], f[1]) if rng.random() < 0.5 else (f[1], f[0]))
                    tt = t if t % 2 == 1 else (t + 1 if up else t - 1)
                    if label != "c" or tt == t:
                        shapes.append((1, tt) if rng.random() < 0.5 else (tt, 1))
                    for ks in shapes:
                        out.append(self._large_case(
                            rng, kshape=ks, n_unmasked=rng.randint(5, 8),
                            objs=[rect_obj(sub=rng.choice([1, 2]))] + ([func_obj(2)] if rng.random() < 0.5 else []),
                            dim="kernel", target=ks[0] * ks[1], hint=c, label=lab))
                # 2. unmasked pixels (exactly t)
                if 4 <= t <= caps["unmasked"]:
                    out.append(self._large_case(
                        rng, kshape=rng.choice(small_k), n_unmasked=t,
                        objs=[rect_obj(), func_obj(1)] if rng.random() < 0.5 else [rect_obj()],
                        dim="unmasked", target=t, hint=c, label=lab))
                # 3. frame pixels H*W (non-square), few unmasked pixels
                if 40 <= t <= caps["frame"]:
                    for lo, ks, nu in ((5, (1, 3), 6), (5, (3, 1), 6), (6, rng.choice(small_k), rng.randint(6, 12)),
                                       (8, (3, 3), 9)):
                        f = self._factor(t, lo, up=up)
                        cs = None
                        if f and (label != "c" or f[2] == t):
                            cs = self._large_case(rng, kshape=ks, n_unmasked=nu, frame_hw=(f[0], f[1]),
                                                  objs=[rect_obj(sub=2)], dim="frame", target=f[2], hint=c, label=lab)
                        if cs is not None:
                            out.append(cs)
                            break
                # 4. total sub-pixels (exactly t) with a per-pixel sub-size map
                if 8 <= t <= caps["sub_pixels"]:
                    subs = self._sub_sizes(t, rng)
                    out.append(self._large_case(
                        rng, kshape=rng.choice(small_k), n_unmasked=len(subs), objs=[rect_obj()], sub=subs,
                        dim="sub_pixels", target=t, hint=c, label=lab))
                # 5. mesh pixels: rectangular a x b (= t) and Delaunay with exactly t vertices
                if 9 <= t <= caps["mesh"] or (9 <= t <= caps["mesh_once"] and label == "c+1"):
                    f = self._factor(t, 3, up=up)
                    if f and (label != "c" or f[2] == t):
                        shape = (f[0], f[1]) if rng.random() < 0.5 else (f[1], f[0])
                        out.append(self._large_case(
                            rng, kshape=rng.choice(small_k), n_unmasked=rng.randint(8, 20),
                            objs=[rect_obj(shape=shape, sub=2)], dim="mesh_rect", target=f[2], hint=c, label=lab))
                if 4 <= t <= min(caps["delaunay"], caps["mesh"]) and label in ("c+1", "c", "c-1"):
                    cs = self._large_case(rng, kshape=rng.choice(small_k), n_unmasked=rng.randint(8, 20), objs=[],
                                          dim="mesh_delaunay", target=t, hint=c, label=lab)
                    cs["objs"] = [{"kind": "delaunay", "points_gen": {"n": t, "seed": rng.randint(0, 999),
                                                                      "extent": self._extent(cs)},
                                   "reg": True, "coeff": "1", "sub": 2}]
                    out.append(cs)
                # 6. parameters of a function list (t columns) / total parameters of the inversion (= t)
                if 2 <= t <= caps["func_params"] and label in ("c+1", "c+c//3+1", "c"):
                    out.append(self._large_case(
                        rng, kshape=rng.choice(small_k), n_unmasked=rng.randint(6, 12),
                        objs=[func_obj(t), rect_obj(shape=(3, 3))], dim="func_params", target=t, hint=c, label=lab))
                    if t > 12:
                        out.append(self._large_case(
                            rng, kshape=rng.choice(small_k), n_unmasked=rng.randint(6, 12),
                            objs=[rect_obj(shape=(3, 3)), func_obj(t - 9)], dim="total_params", target=t, hint=c,
                            label=lab))
                for cs in out:
                    if cs is not None:
                        yield cs
            # 7. the constant read as a SIDE length (a gate such as `shape[0] > c and shape[1] > c`): kernel
            #    sides, frame sides, mesh-shape sides with both sides / one side above c, and at / below c
            lab = f"{c}_side"
            out = []
            s_up = c + 1 if c % 2 == 0 else c + 2          # smallest odd side above c
            s_at = c if c % 2 == 1 else c - 1              # largest odd side not above c
            for ks in ((s_up, s_up + 2), (s_up + 2, s_up), (s_up, s_up), (s_at, s_up + 2), (s_up, s_at), (s_at, s_at)):
                if ks[0] >= 1 and ks[0] * ks[1] <= caps["kernel"]:
                    out.append(self._large_case(
                        rng, kshape=ks, n_unmasked=rng.randint(5, 8), objs=[rect_obj(sub=rng.choice([1, 2]))],
                        dim="kernel_side", target=ks[0] * ks[1], hint=c, label=lab))
            for hw in ((c + 1, c + 2), (c + 1, 9), (9, c + 1), (c, c + 3), (c - 1, c + 1)):
                if hw[0] >= 5 and hw[0] * hw[1] <= caps["frame"]:
                    out.append(self._large_case(
                        rng, kshape=(1, 3) if hw[0] < 7 else (3, 3), n_unmasked=6, frame_hw=hw,
                        objs=[rect_obj(sub=2)], dim="frame_side", target=hw[0] * hw[1], hint=c, label=lab))
            for shape in ((c + 1, 3), (3, c + 1), (c + 1, c + 2), (c, c + 1)):
                if shape[0] * shape[1] <= caps["mesh"]:
                    out.append(self._large_case(
                        rng, kshape=rng.choice(small_k), n_unmasked=rng.randint(8, 20),
                        objs=[rect_obj(shape=shape, sub=2)], dim="mesh_side", target=shape[0] * shape[1], hint=c,
                        label=lab))
            for cs in out:
                if cs is not None:
                    yield cs

    # ------------------------------------------------------------------ implementation
    def run_impl(self, case):
        try:
            return self._run_impl(case)
        except Skip:
            raise
        except Exception as e:
            # Qhull rejecting a degenerate (collinear / duplicate) vertex set can surface lazily, at the first read of
            # a mapper table (e.g. in the util-level observation): no mesh exists, outside the property
            if _degenerate(e):
                raise Skip("degenerate Delaunay point set")
            raise

    def _run_impl(self, case):
        aa = load_autoarray()
        if case.get("kind") == "mirrored":
            from autoarray.inversion.inversion import inversion_util

            out = inversion_util.curvature_matrix_mirrored_from(curvature_matrix=_mat(case["matrix"]))
            return {"mirrored": qmat(out)}
        if case.get("kind") == "history":
            return self._run_history(aa, case)
        try:
            mask, ds = build_dataset(aa, case)
        except Exception as e:
            if type(e).__name__ in ("KernelException",):
                return {"err": _exc_kind(e)}
            raise
        objs = build_objects(aa, mask, ds, case)
        if case.get("large"):
            return self._run_large(aa, mask, ds, objs, case)
        if case.get("kind") == "utils":
            return self._run_utils(aa, mask, ds, objs[0], case)
        return self._observe(aa, case, ds, objs)

    # every other public derived quantity of an inversion (history axis "decoy reads": read BEFORE the
    # observed quantities; none of them may change what the observed ones return)
    INV_DECOYS = ["regularization_matrix", "curvature_reg_matrix", "mapping_matrix", "operated_mapping_matrix_list",
                  "total_params", "no_regularization_index_list", "regularization_matrix_reduced",
                  "curvature_reg_matrix_reduced", "reconstruction_reduced", "reconstruction_dict",
                  "mapped_reconstructed_data_dict", "mapped_reconstructed_image_dict", "mapped_reconstructed_image",
                  "data_subtracted_dict", "regularization_term", "log_det_curvature_reg_matrix_term",
                  "log_det_regularization_matrix_term", "reconstruction_noise_map",
                  "regularization_weights_mapper_dict", "linear_func_operated_mapping_matrix_dict",
                  "data_linear_func_matrix_dict", "mapper_operated_mapping_matrix_dict", "_data_vector_mapper",
                  "_curvature_matrix_mapper_diag", "w_tilde_data", "mapper_zero_pixel_list", "mapper_edge_pixel_list"]
    MAPPER_DECOYS = ["unique_mappings", "mapping_matrix", "pix_sub_weights", "sub_slim_indexes_for_pix_index",
                     "params", "neighbors", "edge_pixel_list", "pix_sizes_for_sub_slim_index"]
    DATASET_DECOYS = ["w_tilde", "convolver", "signal_to_noise_map", "signal_to_noise_max", "grids"]

    @staticmethod
    def _param_exps(case):
        """per-parameter exponent of two of the columns of the mapping matrices (function lists with "fexp")."""
        fe = []
        for spec in case["objs"]:
            if spec["kind"] == "func":
                p = len(spec["matrix"][0]) if "matrix" in spec else int(spec["params"])
                fe += [int(v) for v in (spec.get("fexp") or [0] * p)]
            else:
                fe += [None]          # a mapper: as many zeros as it has pixels (known after it is built)
        return fe

    def _observe(self, aa, case, ds, objs, *, base_ds=None, order=("mapping", "w_tilde"), light=False,
                 decoys=(), preloads=None, settings_for=None, fault=None, sink=None):
        """one observation of a dataset + object list: `aa.Inversion` with use_w_tilde off and on.
        `ds` is what is handed to the inversion (an `Imaging` or a `DatasetInterface`), `base_ds` the `Imaging`
        whose PSF it uses.  The keyword options are the history axes (order of the formalisms, decoy reads,
        shared Preloads / settings objects, a fault injected into the first read of each inversion, `sink`: a list
        collecting every array the API returned, for the ownership histories)."""
        base_ds = base_ds if base_ds is not None else ds
        tables = []
        fe = []       # per-parameter exponent of two (decades stream)
        for o, spec in zip(objs, case["objs"]):
            if spec["kind"] == "func":
                mm = spec["matrix"] if "matrix" in spec else qmat(_func_matrix_np(spec, int(base_ds.mask.pixels_in_mask)))
                tables.append({"kind": "func", "params": len(mm[0]), "matrix": mm, "has_reg": bool(spec["reg"])})
                fe += [int(v) for v in (spec.get("fexp") or [0] * len(mm[0]))]
            else:
                t = mapper_tables(o)
                t["has_reg"] = bool(spec["reg"])
                tables.append(t)
                fe += [0] * t["pixels"]
        fe = np.asarray(fe, dtype=int)
        sa, sb, _, sc = _scale_of(case)          # sc: the exponent of the PSF the dataset really uses
        scaled = bool(sa or sb or sc or fe.any())
        mixed = scaled and len(set(fe.tolist())) > 1
        if case["eps"] is None:
            from autoconf import conf
            eps_setting = None       # "not set": the code falls back to the configuration value in force
            eps = _f(case["_cfg_eps"]) if case.get("_cfg_eps") is not None else \
                float(conf.instance["general"]["inversion"]["no_regularization_add_to_curvature_diag_value"])
        else:
            eps_setting = eps = _f(case["eps"])     # includes the set-but-falsy 0.0 and the explicit default
        eps_q = q(eps)
        if scaled:
            noreg_e = {int(fe[j]) for j in self._noreg_index(tables)}
            if len(noreg_e) > 1 and eps != 0.0:
                raise Skip("diagonal term on parameters of different units (generator should not produce this)")
            e_eps = 2 * sc + 2 * (noreg_e.pop() if noreg_e else 0) - 2 * sb
            eps_q = q(Fraction(eps) / (Fraction(2) ** e_eps))
        kern = np.asarray(base_ds.psf.native)
        if not np.all(np.isfinite(kern)):
            raise Skip("PSF normalisation of a zero-sum kernel")
        if sink is not None:
            sink.append(base_ds.psf.native)
        if scaled:
            kern = _ld_out(kern, sc)
        obs = {"_tables": tables, "_eps": eps_q,
               "_kernel": {"kh": int(kern.shape[0]), "kw": int(kern.shape[1]), "vals": qlist(kern.ravel())}}

        def keep(*arrs):
            if sink is not None:
                sink.extend(arrs)

        def matrices(inv):
            B, D, Fm = inv.operated_mapping_matrix, inv.data_vector, inv.curvature_matrix
            keep(B, D, Fm)
            B, D, Fm = np.asarray(B), np.asarray(D), np.array(Fm, copy=True)
            if scaled and B.ndim == 2 and B.shape[1] == fe.size and D.shape == (fe.size,) \
                    and Fm.shape == (fe.size, fe.size):
                B = _ld_out(B, (sc + fe)[None, :])
                D = _ld_out(D, sa + sc + fe - 2 * sb)
                Fm = _ld_out(Fm, 2 * sc + fe[:, None] + fe[None, :] - 2 * sb)
            return {"operated_mapping_matrix": qmat(B), "data_vector": qlist(D), "curvature_matrix": qmat(Fm)}

        ns = {"v": bool(case.get("nosolve")) or mixed}

        def solve(inv):
            nosolve = ns["v"]
            try:
                rec0 = inv.reconstruction
                rec = np.array(rec0, copy=True)
                mrd0 = inv.mapped_reconstructed_data
                keep(rec0, mrd0)
                if nosolve:
                    # parameters in different units (numpy's elimination order is then not the base world's) or a
                    # solver this property does not describe: the solve runs, its values are not judged
                    return {}
                mrd = np.asarray(mrd0)
                if scaled and rec.shape == (fe.size,):
                    rec, mrd = _ld_out(rec, sa - sc - fe), _ld_out(mrd, sa)
                return {"reconstruction": qlist(rec), "mapped_reconstructed_data": qlist(mrd)}
            except Exception as e:
                return {} if nosolve else {"reconstruction": _exc_kind(e)}

        ctor = case.get("ctor", "Inversion")
        popt = case.get("preloads_opt")
        if popt is not None and preloads is None:
            # round 5/6 (R5-F): the two Preloads slots the factory reads (formalism selection); every other slot is C15's
            pk = {}
            if "use_w_tilde" in popt:
                pk["use_w_tilde"] = popt["use_w_tilde"]
            if popt.get("w_tilde") == "dataset":
                pk["w_tilde"] = ds.w_tilde
            elif popt.get("w_tilde") == "fresh":      # an equal WTildeImaging built by the caller from the util function
                from autoarray.inversion.inversion.imaging import inversion_imaging_util as iu
                pre, idxs, lens = iu.w_tilde_curvature_preload_imaging_from(
                    noise_map_native=np.array(base_ds.noise_map.native), kernel_native=np.array(base_ds.psf.native),
                    native_index_for_slim_index=base_ds.mask.derive_indexes.native_for_slim)
                pk["w_tilde"] = aa.WTildeImaging(curvature_preload=pre, indexes=idxs.astype("int"),
                                                 lengths=lens.astype("int"), noise_map_value=base_ds.noise_map[0])
            preloads = aa.Preloads(**pk)
        kw = {} if preloads is None else {"preloads": preloads}
        extra = dict(case.get("settings_extra") or {})

        def make(flag, settings):
            """the same functionality through the public entry points named by the property"""
            if ctor == "factory":
                from autoarray.inversion.inversion.factory import inversion_imaging_from
                return inversion_imaging_from(dataset=ds, linear_obj_list=objs, settings=settings, **kw)
            if ctor == "interface":
                di = aa.DatasetInterface(data=ds.data, noise_map=ds.noise_map, convolver=ds.convolver,
                                         w_tilde=ds.w_tilde, grids=ds.grids)
                return aa.Inversion(dataset=di, linear_obj_list=objs, settings=settings, **kw)
            if ctor == "class":
                from autoarray.inversion.inversion.imaging.mapping import InversionImagingMapping
                from autoarray.inversion.inversion.imaging.w_tilde import InversionImagingWTilde
                if flag and not all(sp["kind"] == "func" for sp in case["objs"]):
                    return InversionImagingWTilde(dataset=ds, w_tilde=ds.w_tilde, linear_obj_list=objs,
                                                  settings=settings, **kw)
                return InversionImagingMapping(dataset=ds, linear_obj_list=objs, settings=settings, **kw)
            lst = tuple(objs) if case.get("objs_container") == "tuple" else objs
            if flag and case.get("default_settings"):
                # round 5/6 (R5-F): no settings argument at all — the library's own default `SettingsInversion()`
                # (one object shared by every such call): use_w_tilde=True, diagonal value from the configuration;
                # its solver is the configured positive-only one, which this property does not describe
                return aa.Inversion(dataset=ds, linear_obj_list=lst, **kw)
            if case.get("positional"):
                return aa.Inversion(ds, lst, settings, **kw)
            return aa.Inversion(dataset=ds, linear_obj_list=lst, settings=settings, **kw)

        def read_decoys(inv):
            for name in decoys:
                try:
                    v = getattr(inv, name)
                    if sink is not None:
                        keep(*(v.values() if isinstance(v, dict) else v if isinstance(v, (list, tuple)) else [v]))
                except Exception:
                    pass

        for key in order:
            flag = key == "w_tilde"
            if settings_for is not None:
                settings = settings_for(flag, eps_setting)       # one settings object shared by a whole history
            else:
                skw = {"use_positive_only_solver": False, **extra}
                settings = aa.SettingsInversion(use_w_tilde=flag,
                                                no_regularization_add_to_curvature_diag_value=eps_setting, **skw)
            # Two access histories per formalism (the quantities are cached properties and the solve adds
            # the regularization matrix to the curvature matrix, in place on some paths):
            #   first instance : matrices, solve, matrices AGAIN ("after")
            #   second instance: solve FIRST, then matrices ("solve_first")
            ns["v"] = bool(case.get("nosolve")) or mixed or bool(flag and case.get("default_settings"))
            try:
                inv = make(flag, settings)
                o = {"formalism": {"InversionImagingMapping": "mapping",
                                   "InversionImagingWTilde": "w_tilde"}.get(type(inv).__name__, type(inv).__name__)}
                if fault is not None:
                    # the user's linear object fails in the middle of the first evaluation; the SAME inversion
                    # (and the same dataset / objects / settings) is then used again
                    fobj = objs[fault["obj"]]
                    fobj.arm(fault["at"])
                    try:
                        matrices(inv)
                        solve(inv)
                    except RuntimeError as e:
                        if "user function failed" not in str(e):
                            raise
                    finally:
                        fobj.disarm()
                read_decoys(inv)
                o.update(matrices(inv))
            except Exception as e:
                if _degenerate(e):
                    raise Skip("degenerate Delaunay point set")
                obs[key] = {"err": _exc_kind(e), "msg": str(e)[:200]}
                continue
            if "_H" not in obs:
                H0 = inv.regularization_matrix
                keep(H0)
                H = np.asarray(H0)
                if scaled and H.shape == (fe.size, fe.size):
                    H = _ld_out(H, 2 * sc + fe[:, None] + fe[None, :] - 2 * sb)
                obs["_H"] = qmat(H)
            o.update(solve(inv))
            if not light:
                o["after"] = matrices(inv)
                inv2 = make(flag, settings)
                sf = solve(inv2)
                sf.update(matrices(inv2))
                o["solve_first"] = sf
            obs[key] = o
        return obs

    @staticmethod
    def _noreg_index(tables):
        out, off = [], 0
        for t in tables:
            p = t["pixels"] if t["kind"] == "mapper" else t["params"]
            if not t["has_reg"]:
                out += list(range(off, off + p))
            off += p
        return out

    @staticmethod
    def _expected_formalism(case, key, all_funcs):
        """the factory's documented choice (`inversion_imaging_from`): function lists only -> mapping; the settings
        flag off -> mapping; a `Preloads.use_w_tilde` that is not None decides; else the settings flag."""
        if key == "mapping" or all_funcs:
            return "mapping"
        popt = case.get("preloads_opt") or {}
        if popt.get("use_w_tilde") is not None and case.get("ctor", "Inversion") in ("Inversion", "factory", "interface"):
            return "w_tilde" if popt["use_w_tilde"] else "mapping"
        return "w_tilde"

    # ------------------------------------------------------------------ large stream (constant-directed)
    @staticmethod
    def _psf_matrix(m, K):
        """P[d, a] = K[d - a + half] on the unmasked pixels of `m` (vectorised)."""
        ys, xs = np.nonzero(~m)
        kh, kw = K.shape
        I = ys[:, None] - ys[None, :] + kh // 2
        J = xs[:, None] - xs[None, :] + kw // 2
        ok = (I >= 0) & (I < kh) & (J >= 0) & (J < kw)
        return np.where(ok, K[np.clip(I, 0, kh - 1), np.clip(J, 0, kw - 1)], 0.0)

    @staticmethod
    def _mapper_matrix(obj, n):
        """mapping matrix from the meaning of the mapper's tables (vectorised); None + reason when the
        over-sampler contract (every data pixel owns sub_size^2 consecutive sub-pixels) is broken."""
        idx = np.asarray(obj.pix_indexes_for_sub_slim_index).astype(np.int64)
        sizes = np.asarray(obj.pix_sizes_for_sub_slim_index).astype(np.int64)
        wts = np.asarray(obj.pix_weights_for_sub_slim_index, dtype=float)
        slim = np.asarray(obj.slim_index_for_sub_slim_index).astype(np.int64)
        frac = np.asarray(obj.over_sampler.sub_fraction, dtype=float)
        ss = np.asarray(obj.over_sampler.sub_size).astype(np.int64)
        want = np.repeat(np.arange(n, dtype=np.int64), ss ** 2)
        if slim.shape != want.shape or not np.array_equal(slim, want) or idx.shape[0] != want.shape[0]:
            return None, ("modelled-not-verified contract broken: slim_index_for_sub_slim_index is not "
                          "every data pixel repeated sub_size^2 times in order")
        M = np.zeros((n, int(obj.params)))
        for c in range(idx.shape[1]):
            sel = sizes > c
            np.add.at(M, (slim[sel], idx[sel, c]), frac[slim[sel]] * wts[sel, c])
        return M, None

    def _run_large(self, aa, mask, ds, objs, case):
        """large (constant-directed) cases: no model comparison, no big literal arrays in the observation.
        The property is evaluated at once, vectorised, on the implementation's numpy outputs; the observation
        keeps the verdict and a digest."""
        m = _mask_np(case["mask"])
        n = int((~m).sum())
        kern = np.asarray(ds.psf.native, dtype=float)
        if not np.all(np.isfinite(kern)):
            raise Skip("PSF normalisation of a zero-sum kernel")
        if case.get("via", "apply_mask") == "direct" and not np.array_equal(kern, _kernel_np(case["kernel"])):
            return {"large": True, "verdict": [False, "dataset PSF differs from the PSF handed to "
                                                      "Imaging(use_normalized_psf=False)"]}
        if case.get("via", "apply_mask") != "direct":
            Kc = _kernel_np(case["kernel"])
            tot = float(Kc.sum())
            if not (kern.shape == Kc.shape and (np.array_equal(kern, Kc) or (tot != 0.0 and np.allclose(
                    kern, Kc / tot, rtol=1e-12, atol=1e-14 * float(np.max(np.abs(Kc / tot))))))):
                return {"large": True, "verdict": [False, "dataset PSF after apply_mask is neither the PSF handed to "
                                                          "Imaging nor its normalisation K / sum(K)"]}
        h, w = m.shape
        data = _native_vals(case["data"], "data", h, w)[~m]
        noise = _native_vals(case["noise"], "noise", h, w)[~m]
        P = self._psf_matrix(m, kern)
        Ms, noreg, off = [], [], 0
        for o, spec in zip(objs, case["objs"]):
            if spec["kind"] == "func":
                M = _func_matrix_np(spec, n)
            else:
                try:
                    M, why = self._mapper_matrix(o, n)
                except Exception as e:
                    if _degenerate(e):
                        raise Skip("degenerate Delaunay point set")
                    raise
                if M is None:
                    return {"large": True, "verdict": [False, why]}
            if not spec["reg"]:
                noreg += list(range(off, off + M.shape[1]))
            off += M.shape[1]
            Ms.append(M)
        B = np.hstack([P @ M for M in Ms])
        Dx = B.T @ (data / noise ** 2)
        Bs = B / noise[:, None]
        Fx = Bs.T @ Bs
        if case["eps"] is None:
            from autoconf import conf
            eps_setting = None
            eps = float(conf.instance["general"]["inversion"]["no_regularization_add_to_curvature_diag_value"])
        else:
            eps_setting = eps = _f(case["eps"])
        Fx[noreg, noreg] += eps
        all_funcs = all(sp["kind"] == "func" for sp in case["objs"])

        def close(a, b, what):
            a, b = np.asarray(a, float), np.asarray(b, float)
            if a.shape != b.shape:
                return f"{what}: shape {a.shape} != {b.shape}"
            tol = 1e-9 * max(1.0, float(np.max(np.abs(b))) if b.size else 1.0)
            if a.size:
                dd = np.abs(a - b)
                if not np.all(np.isfinite(a)) or float(dd.max()) > tol:
                    i = np.unravel_index(int(np.nanargmax(np.where(np.isfinite(dd), dd, np.inf))), a.shape)
                    return f"{what}: max |Δ| = {float(dd[i]):.3e} at {tuple(int(v) for v in i)}"
            return None

        digest = {"n": n, "params": int(B.shape[1]), "kernel": [int(kern.shape[0]), int(kern.shape[1])],
                  "frame": [int(h), int(w)], "sub_pixels": [int(np.sum(np.asarray(o.over_sampler.sub_size) ** 2))
                                                            for o, sp in zip(objs, case["objs"]) if sp["kind"] != "func"]}
        verdict = None
        recs = {}
        for key in ("mapping", "w_tilde"):
            flag = key == "w_tilde"
            settings = aa.SettingsInversion(use_w_tilde=flag, use_positive_only_solver=False,
                                            no_regularization_add_to_curvature_diag_value=eps_setting)
            try:
                inv = aa.Inversion(dataset=ds, linear_obj_list=objs, settings=settings)
                form = {"InversionImagingMapping": "mapping", "InversionImagingWTilde": "w_tilde"}.get(
                    type(inv).__name__, type(inv).__name__)
                want = "mapping" if (key == "mapping" or all_funcs) else "w_tilde"
                if form != want:
                    verdict = verdict or [False, f"factory chose {form} for use_w_tilde={flag}"]
                    continue
                for label in ("first read", "read again after the solve"):
                    Fm = np.array(inv.curvature_matrix, copy=True)
                    for what, got, exp in (
                            ("operated_mapping_matrix != P·M (object order)", np.asarray(inv.operated_mapping_matrix), B),
                            ("data_vector != B^T N^-1 d", np.asarray(inv.data_vector), Dx),
                            ("curvature_matrix != B^T N^-1 B + eps on unregularized diag", Fm, Fx),
                            ("curvature_matrix not symmetric", Fm, Fm.T)):
                        d = close(got, exp, f"{key} ({label}): {what}")
                        if d and verdict is None:
                            verdict = [False, d]
                    if label == "first read":
                        digest[key] = {"data_vector_head": [float(v) for v in np.asarray(inv.data_vector)[:4]],
                                       "curvature_trace": float(np.trace(Fm))}
                        try:
                            s = np.array(inv.reconstruction, copy=True)
                        except Exception as e:
                            if type(e).__name__ != "InversionException":
                                raise
                            s = None
                        if s is not None:
                            H = np.asarray(inv.regularization_matrix, dtype=float)
                            A = Fx + H
                            resid = A @ s - Dx
                            scale = float(np.abs(A).sum(axis=1).max() * max(1.0, np.abs(s).max()) + np.abs(Dx).max())
                            if float(np.abs(resid).max()) > 1e-7 * scale and verdict is None:
                                verdict = [False, f"{key}: reconstruction does not solve (F+H)s = D "
                                                  f"(residual {float(np.abs(resid).max()):.3e})"]
                            d = close(np.asarray(inv.mapped_reconstructed_data), B @ s,
                                      f"{key}: mapped_reconstructed_data != B s")
                            if d and verdict is None:
                                verdict = [False, d]
                            recs[key] = s
            except Skip:
                raise
            except Exception as e:
                if _degenerate(e):
                    raise Skip("degenerate Delaunay point set")
                verdict = verdict or [False, f"{key}: implementation raised {type(e).__name__}: {str(e)[:200]}"]
        # the util functions named by the property, on the same dataset (sizes permitting: n^2 * kernel Python steps)
        if verdict is None and n * n * kern.size <= 600000:
            from autoarray.inversion.inversion.imaging import inversion_imaging_util as iu
            nfs = mask.derive_indexes.native_for_slim
            img_n, noise_n = np.array(ds.data.native), np.array(ds.noise_map.native)
            wtd = iu.w_tilde_data_imaging_from(image_native=img_n, noise_map_native=noise_n,
                                               kernel_native=kern, native_index_for_slim_index=nfs)
            d = close(wtd, P.T @ (data / noise ** 2), "w_tilde_data_imaging_from != P^T N^-1 d")
            if d is None:
                W = P.T @ (P / (noise ** 2)[:, None])
                wfull = iu.w_tilde_curvature_imaging_from(noise_map_native=noise_n, kernel_native=kern,
                                                          native_index_for_slim_index=nfs)
                d = close(wfull, W, "w_tilde_curvature_imaging_from != P^T N^-1 P")
            if d is None:
                pre, idxs, lens = iu.w_tilde_curvature_preload_imaging_from(
                    noise_map_native=noise_n, kernel_native=kern, native_index_for_slim_index=nfs)
                lens = np.asarray(lens).astype(np.int64)
                rows = np.repeat(np.arange(n), lens)
                upper = np.zeros((n, n))
                np.add.at(upper, (rows, np.asarray(idxs).astype(np.int64)[:rows.size]), np.asarray(pre)[:rows.size])
                d = close(upper, np.triu(W, 1) + np.diag(np.diag(W)) / 2.0,
                          "preload is not the upper triangle of W with the diagonal halved")
            if d:
                verdict = [False, d]
        return {"large": True, "verdict": verdict or [True, ""], "digest": digest}

    def _run_utils(self, aa, mask, ds, mapper, case, sink=None):
        """the util functions the property names, observed in order-insensitive dense form."""
        from autoarray.inversion.inversion.imaging import inversion_imaging_util as iu

        kern = np.asarray(ds.psf.native)
        if not np.all(np.isfinite(kern)):
            raise Skip("PSF normalisation of a zero-sum kernel")
        nfs = mask.derive_indexes.native_for_slim
        n = int(mask.pixels_in_mask)
        img_n, noise_n = np.array(ds.data.native), np.array(ds.noise_map.native)
        ulay = (case.get("layouts") or {}).get("utils")
        if ulay:      # round 5/6 (R5-C): the util functions named by the property on other memory layouts
            img_n, noise_n, kern = _layout(img_n, ulay), _layout(noise_n, ulay), _layout(np.array(kern), ulay)
            nfs = _layout(np.array(nfs), ulay)
        sa, sb, _, sc = _scale_of(case)
        wtd = iu.w_tilde_data_imaging_from(image_native=img_n, noise_map_native=noise_n,
                                           kernel_native=kern, native_index_for_slim_index=nfs)
        wfull = iu.w_tilde_curvature_imaging_from(noise_map_native=noise_n, kernel_native=kern,
                                                  native_index_for_slim_index=nfs)
        pre, idxs, lens = iu.w_tilde_curvature_preload_imaging_from(
            noise_map_native=noise_n, kernel_native=kern, native_index_for_slim_index=nfs)
        if sink is not None:
            sink.extend([img_n, noise_n, wtd, wfull, pre, idxs, lens])
        wtd_raw = wtd
        if sa or sb or sc:    # decades: back to base units (exact powers of two)
            wtd, wfull, pre = _ld_out(wtd, sa + sc - 2 * sb), _ld_out(wfull, 2 * sc - 2 * sb), _ld_out(pre, 2 * sc - 2 * sb)
        upper = np.zeros((n, n))      # the matrix the (preload, indexes, lengths) triple encodes
        k = 0
        for a in range(n):
            for _ in range(int(lens[a])):
                upper[a, int(idxs[k])] += pre[k]
                k += 1
        um = mapper.unique_mappings
        pix = int(mapper.params)
        enc = np.zeros((n, pix))      # the matrix the unique mappings encode
        for d in range(n):
            for j in range(int(um.pix_lengths[d])):
                enc[d, int(um.data_to_pix_unique[d, j])] += um.data_weights[d, j]
        wt = ds.w_tilde
        dv = iu.data_vector_via_w_tilde_data_imaging_from(
            w_tilde_data=wtd_raw, data_to_pix_unique=um.data_to_pix_unique.astype("int"),
            data_weights=um.data_weights, pix_lengths=um.pix_lengths.astype("int"), pix_pixels=pix)
        cur = iu.curvature_matrix_via_w_tilde_curvature_preload_imaging_from(
            curvature_preload=wt.curvature_preload, curvature_indexes=wt.indexes, curvature_lengths=wt.lengths,
            data_to_pix_unique=um.data_to_pix_unique.astype("int"), data_weights=um.data_weights,
            pix_lengths=um.pix_lengths.astype("int"), pix_pixels=pix)
        wt_pre = np.asarray(wt.curvature_preload)
        if sink is not None:
            sink.extend([dv, cur, wt.curvature_preload, wt.indexes, wt.lengths, um.data_to_pix_unique,
                         um.data_weights, um.pix_lengths])
        if sa or sb or sc:
            dv, cur, wt_pre = _ld_out(dv, sa + sc - 2 * sb), _ld_out(cur, 2 * sc - 2 * sb), _ld_out(wt_pre, 2 * sc - 2 * sb)
            kern = _ld_out(np.asarray(kern), sc)
        t = mapper_tables(mapper)
        t["has_reg"] = True
        # the tables exactly as the implementation stores them (padded arrays + length columns)
        unique_stored = {
            "data_to_pix_unique": [[int(v) for v in row] for row in np.asarray(um.data_to_pix_unique)],
            "data_weights": qmat(np.asarray(um.data_weights)),
            "pix_lengths": [int(v) for v in np.asarray(um.pix_lengths)],
        }
        preload_stored = {
            "curvature_preload": qlist(wt_pre),
            "curvature_indexes": [int(v) for v in np.asarray(wt.indexes)],
            "curvature_lengths": [int(v) for v in np.asarray(wt.lengths)],
        }
        # the zero filter of the preload is a float test: its structure is compared only when all
        # arithmetic is exact (noise values powers of two; kernel and data are dyadic by construction)
        exact = all(Fraction(v) in (F(1, 4), F(1, 2), F(1), F(2), F(4))
                    for v, mk in zip(case["noise"], mask_from_json(case["mask"]).ravel()) if not mk)
        # The stored arrays are handed to the model's consumers as they are; their padding values and
        # second-axis width are NOT compared (not observable through the public API: a refactor that pads
        # differently must stay quiet) — only what is read through the length columns matters.
        return {
            "_tables": [t],
            "_impl_unique": unique_stored, "_impl_preload": preload_stored, "_exact": exact,
            "data_vector_from_impl_tables": qlist(dv), "curvature_from_impl_tables": qmat(cur),
            "_kernel": {"kh": int(kern.shape[0]), "kw": int(kern.shape[1]), "vals": qlist(kern.ravel())},
            "w_tilde_data": qlist(wtd), "w_tilde": qmat(wfull), "preload_upper": qmat(upper),
            "unique_encodes": qmat(enc), "mapping_matrix": qmat(np.asarray(mapper.mapping_matrix)),
            "data_vector": qlist(dv), "curvature": qmat(cur),
        }

    # ------------------------------------------------------------------ histories on reused objects
    _HIST_KEYS = ("kind", "worlds", "steps", "hist_type", "preloads", "settings", "tag")

    def _plan(self, case):
        """{step index: effective single-world case} for every observe step of a history: what a FRESHLY built
        dataset / object list in that state is — a function of the case alone (never of the implementation).
        `plan[("build", name)]` is the effective case of a world at the step where it comes into existence (its
        first mention; worlds derived from world A — `interface`, `copy` — bring A into existence first);
        `wc["_objs_full"]` the whole object list (a util-level step observes only its first mapper)."""
        import copy as _copy
        base = {k: v for k, v in case.items() if k not in self._HIST_KEYS}
        m = mask_from_json(case["mask"]).ravel()
        slim_pos = [i for i, mk in enumerate(m) if not mk]
        worlds = case["worlds"]
        state, plan = {}, {}
        objs = _copy.deepcopy(base["objs"])

        def effective(name):
            ws = state[name]
            wc = {**base, "data": list(ws["data"]), "noise": list(ws["noise"]),
                  "kernel": _copy.deepcopy(ws["kernel"]), "eps": ws["eps"], "objs": _copy.deepcopy(objs),
                  "_light": True}
            if ws["readonly"]:
                wc["readonly"] = True
            return wc

        def world_state(name):
            if name not in state:
                spec = worlds[name]
                mode = spec.get("mode", "base")
                parent = world_state("A") if mode in ("interface", "copy") else None
                if mode == "copy":
                    data = list(parent["data"])
                elif "minus" in spec:      # library arithmetic: A's data minus a foreground
                    data = [q(_f(a) - _f(f)) for a, f in zip(parent["data"], spec["minus"])]
                else:
                    data = list(spec.get("data", base["data"]))
                state[name] = {
                    "data": data,
                    "noise": list(parent["noise"] if parent else spec.get("noise", base["noise"])),
                    "kernel": _copy.deepcopy(parent["kernel"] if parent else spec.get("kernel", base["kernel"])),
                    "eps": spec["eps"] if "eps" in spec else (parent["eps"] if parent else base["eps"]),
                    "readonly": bool(spec.get("readonly"))}
                plan[("build", name)] = effective(name)
            return state[name]

        cfg_eps = None        # None = the pinned configuration value (read at observe time)
        for i, st in enumerate(case["steps"]):
            if st["op"] == "config":
                # round 5/6 (R5-D): the configuration value `general.inversion.<key>` is changed between calls;
                # a settings object that leaves the value unset follows the value IN FORCE WHEN IT IS ASKED
                if st["key"] == "no_regularization_add_to_curvature_diag_value":
                    cfg_eps = st["value"]
                continue
            if st["op"] == "set_data":
                ws = world_state(st["world"])
                for k, v in st["edits"]:
                    ws["data"][slim_pos[k]] = v
            elif st["op"] == "set_func":
                for r, c, v in st["edits"]:
                    objs[st["obj"]]["matrix"][r][c] = v
            elif st["op"] == "observe":
                world_state(st["world"])
                wc = effective(st["world"])
                wc["_objs_full"] = wc["objs"]
                wc["_cfg_eps"] = cfg_eps
                if st.get("utils"):
                    wc["kind"] = "utils"
                    wc["objs"] = [[o for o in wc["objs"] if o["kind"] != "func"][0]]
                plan[i] = wc
        return plan

    def _run_history(self, aa, case):
        import copy as _copy
        plan = self._plan(case)
        h, w = case["mask"]["h"], case["mask"]["w"]
        built = {}      # world name -> (what is handed to the inversion, the Imaging whose PSF / tables it uses)
        shared = {"mask": None, "objs": None}
        preloads = aa.Preloads() if case.get("preloads") == "shared" else None
        pkw = {} if preloads is None else {"preloads": preloads}
        settings_cache = {}
        one_settings = case.get("settings") == "one"

        def settings_for(flag, eps_setting):
            # ONE settings object per (formalism, value) for the whole history — or, with "settings": "one", a
            # single object whose public `use_w_tilde` attribute is flipped in place between inversions
            key = ("one", eps_setting) if one_settings else (flag, eps_setting)
            if key not in settings_cache:
                settings_cache[key] = aa.SettingsInversion(
                    use_w_tilde=flag, use_positive_only_solver=False,
                    no_regularization_add_to_curvature_diag_value=eps_setting)
            settings_cache[key].use_w_tilde = flag
            return settings_cache[key]

        def ensure(name):
            if name in built:
                return
            wc = plan[("build", name)]
            spec = case["worlds"][name]
            mode = spec.get("mode", "base")
            if mode in ("interface", "copy"):
                ensure("A")
            if mode == "interface":
                par = built["A"][1]
                if "minus" in spec:     # the documented use: the dataset's data with something subtracted
                    data = par.data - aa.Array2D(values=_arr(spec["minus"]).reshape(h, w), mask=shared["mask"])
                else:
                    data = aa.Array2D(values=_readonly(_arr(wc["data"]).reshape(h, w), wc), mask=shared["mask"])
                built[name] = (aa.DatasetInterface(data=data, noise_map=par.noise_map, convolver=par.convolver,
                                                   w_tilde=par.w_tilde, grids=par.grids), par)
            elif mode == "copy":        # a derived object: deep copy of the (possibly already used) dataset
                ds = _copy.deepcopy(built["A"][0])
                built[name] = (ds, ds)
            else:
                mask, ds = build_dataset(aa, wc, mask=shared["mask"])
                shared["mask"] = mask      # ONE Mask2D object for every world of the history
                built[name] = (ds, ds)

        def decoy(objx, names):
            for nm in names:
                try:
                    getattr(objx, nm)
                except Exception as e:
                    if _degenerate(e):
                        raise Skip("degenerate Delaunay point set")

        from autoconf import conf
        cfg_inv = conf.instance["general"]["inversion"]
        cfg_saved = {}

        def scribble(arrays):
            """round 5/6 (R5-B): the caller edits, in place, every array it handed in or got back (its own
            property: nothing in the library may still depend on them once a FRESH world is built)."""
            for x in arrays:
                a = x if isinstance(x, np.ndarray) else getattr(x, "_array", None)
                if not isinstance(a, np.ndarray) or not a.flags.writeable or a.size == 0:
                    continue
                try:
                    if a.dtype.kind == "f":
                        a[...] = np.nan
                    elif a.dtype.kind in "iu":
                        a += 1
                    elif a.dtype.kind == "b":
                        np.logical_not(a, out=a)
                except (ValueError, TypeError):
                    pass

        steps_out = []
        try:
            self._run_history_steps(aa, case, plan, built, shared, preloads, pkw, settings_for, ensure, decoy,
                                    scribble, cfg_inv, cfg_saved, steps_out)
        finally:
            for k, v in cfg_saved.items():      # the configuration is restored, also on exceptions
                cfg_inv[k] = v
        return {"steps": steps_out}

    def _run_history_steps(self, aa, case, plan, built, shared, preloads, pkw, settings_for, ensure, decoy,
                           scribble, cfg_inv, cfg_saved, steps_out):
        for i, st in enumerate(case["steps"]):
            if st["op"] == "config":
                if st["key"] not in cfg_saved:
                    cfg_saved[st["key"]] = cfg_inv[st["key"]]
                cfg_inv[st["key"]] = _f(st["value"]) if isinstance(st["value"], str) else st["value"]
                steps_out.append({"op": "config"})
                continue
            fresh = "world" in st and case["worlds"][st["world"]].get("mode") == "fresh"
            if fresh:
                # a world rebuilt from fresh, equal inputs for THIS observation only: mask, dataset, linear objects,
                # settings and inversions are all new objects
                sink = [] if st.get("scribble") else None
                wc = plan[i]
                mask_f, ds_f = build_dataset(aa, wc, sink=sink)
                full = {**wc, "objs": wc["_objs_full"]}
                objs_f = build_objects(aa, mask_f, ds_f, full, sink=sink)
                if st.get("utils"):
                    mp = [o for o, sp in zip(objs_f, wc["_objs_full"]) if sp["kind"] != "func"][0]
                    so = self._run_utils(aa, mask_f, ds_f, mp, wc, sink=sink)
                else:
                    so = self._observe(aa, wc, ds_f, objs_f, order=tuple(st.get("order", ("mapping", "w_tilde"))),
                                       light=True, decoys=tuple(st.get("decoys") or ()), sink=sink)
                if sink is not None:
                    sink.extend([ds_f.data, ds_f.noise_map, ds_f.psf, mask_f])
                    try:
                        sink.extend([ds_f.w_tilde.curvature_preload, ds_f.w_tilde.indexes, ds_f.w_tilde.lengths])
                    except Exception:
                        pass
                    for o, sp in zip(objs_f, wc["_objs_full"]):
                        if sp["kind"] != "func":
                            for nm in ("pix_indexes_for_sub_slim_index", "pix_weights_for_sub_slim_index",
                                       "pix_sizes_for_sub_slim_index", "mapping_matrix", "slim_index_for_sub_slim_index"):
                                try:
                                    sink.append(getattr(o, nm))
                                except Exception:
                                    pass
                            try:
                                um = o.unique_mappings
                                sink.extend([um.data_to_pix_unique, um.data_weights, um.pix_lengths])
                            except Exception:
                                pass
                    scribble(sink)
                so["_world"] = st["world"]
                steps_out.append(so)
                continue
            if "world" in st:
                ensure(st["world"])
            if st["op"] == "set_data":
                arr = built[st["world"]][0].data
                for k, v in st["edits"]:
                    arr[k] = _f(v)                     # the library's own `__setitem__`
                steps_out.append({"op": "set_data"})
                continue
            if st["op"] == "set_func":
                if shared["objs"] is not None:      # (objects not built yet simply start from the edited values)
                    mm = shared["objs"][st["obj"]].mapping_matrix       # the caller-owned numpy buffer
                    for r, c, v in st["edits"]:
                        mm[r, c] = _f(v)
                steps_out.append({"op": "set_func"})
                continue
            wc = plan[i]
            ds, img = built[st["world"]]
            if shared["objs"] is None:      # ONE list of linear objects for every world (they depend on the mask only)
                shared["objs"] = build_objects(aa, shared["mask"], img, {**wc, "objs": wc["_objs_full"]})
            objs = shared["objs"]
            if st.get("ds_decoys"):
                decoy(img, self.DATASET_DECOYS)
                for o, sp in zip(objs, wc["_objs_full"]):
                    if sp["kind"] != "func":
                        decoy(o, self.MAPPER_DECOYS)
            if st.get("utils"):
                mp = [o for o, sp in zip(objs, wc["_objs_full"]) if sp["kind"] != "func"][0]
                so = self._run_utils(aa, shared["mask"], img, mp, wc)
                so["_world"] = st["world"]
                steps_out.append(so)
                continue
            fault = st.get("fault")
            if fault and fault.get("bad_rows"):
                # an inversion that fails in the middle (function list with one row too many) on the same
                # dataset / objects / settings / preloads; whatever it raises is not judged
                from autoarray.inversion.mock.mock_linear_obj_func_list import MockLinearObjFuncList
                n = int(shared["mask"].pixels_in_mask)
                bad = MockLinearObjFuncList(parameters=1, grid=img.grids.uniform, mapping_matrix=np.ones((n + 1, 1)))
                for flag in (True, False):
                    try:
                        binv = aa.Inversion(dataset=ds, linear_obj_list=list(objs) + [bad],
                                            settings=settings_for(flag, None if wc["eps"] is None else _f(wc["eps"])),
                                            **pkw)
                        binv.data_vector
                        binv.curvature_matrix
                        binv.reconstruction
                    except Exception as e:
                        if _degenerate(e):
                            raise Skip("degenerate Delaunay point set")
                fault = None
            so = self._observe(aa, wc, ds, objs, base_ds=img, order=tuple(st.get("order", ("mapping", "w_tilde"))),
                               light=True, decoys=tuple(st.get("decoys") or ()), preloads=preloads,
                               settings_for=settings_for, fault=fault)
            so["_world"] = st["world"]
            steps_out.append(so)

    def _observe_steps(self, case):
        return [i for i, st in enumerate(case["steps"]) if st["op"] == "observe"]

    # ------------------------------------------------------------------ dispatch: ordinary / large / history
    def model_requests(self, case, impl_obs):
        if case.get("large"):
            return []            # judged by the (vectorised) property statement alone
        if case.get("kind") == "history":
            if "steps" not in impl_obs:
                return []
            plan = self._plan(case)
            reqs = []
            for i in self._observe_steps(case):
                reqs += self._model_requests_one(plan[i], impl_obs["steps"][i])
            return reqs
        return self._model_requests_one(case, impl_obs)

    def model_obs(self, case, responses):
        if case.get("kind") == "history":
            plan = self._plan(case)
            out, k = {}, 0
            for i in self._observe_steps(case):
                cnt = 1 if plan[i].get("kind") == "utils" else 2
                out[i] = self._model_obs_one(plan[i], responses[k:k + cnt])
                k += cnt
            return out
        return self._model_obs_one(case, responses)

    def compare(self, case, impl_obs, model_obs, cmp):
        if case.get("kind") == "history":
            plan = self._plan(case)
            for i in self._observe_steps(case):
                d = self._compare_one(plan[i], impl_obs["steps"][i], model_obs[i], cmp, root=f"$.steps[{i}]")
                if d:
                    return d
            return None
        return self._compare_one(case, impl_obs, model_obs, cmp)

    def oracle(self, case, obs):
        if case.get("large"):
            if "verdict" not in obs:
                return False, f"implementation raised {obs}"
            return bool(obs["verdict"][0]), obs["verdict"][1]
        if case.get("kind") == "history":
            if "steps" not in obs:
                return False, f"implementation raised {obs}"
            plan = self._plan(case)
            for i in self._observe_steps(case):
                st = case["steps"][i]
                ok, detail = self._oracle_one(plan[i], obs["steps"][i])
                if not ok:
                    before = [s["op"] + (":" + s["world"] if "world" in s else "") for s in case["steps"][:i]]
                    return False, (f"history step {i} (world {st['world']}, after {before or 'nothing'}; expected = "
                                   f"a freshly built dataset / object list in this state): {detail}")
            return True, ""
        return self._oracle_one(case, obs)

    # ------------------------------------------------------------------ model
    def _model_requests_one(self, case, impl_obs):
        if case.get("kind") == "mirrored":
            return [{"op": "c04.mirrored", "matrix": case["matrix"]}]
        if "err" in impl_obs:
            return [{"op": "c04.inversion", "mask": case["mask"], "kernel": case["kernel"], "data": [],
                     "noise": [], "objs": [], "eps": case["eps"] or "0", "use_w_tilde": False}]
        m = mask_from_json(case["mask"]).ravel()
        data = [v for v, mk in zip(case["data"], m) if not mk]
        noise = [v for v, mk in zip(case["noise"], m) if not mk]
        if case.get("kind") == "utils":
            return [{"op": "c04.wtilde_utils", "mask": case["mask"], "kernel": impl_obs["_kernel"], "data": data,
                     "noise": noise, "mapper": impl_obs["_tables"][0],
                     "impl_unique": impl_obs["_impl_unique"], "impl_preload": impl_obs["_impl_preload"],
                     "pix_pixels": impl_obs["_tables"][0]["pixels"]}]
        base = {"op": "c04.inversion", "mask": case["mask"], "kernel": impl_obs["_kernel"], "data": data,
                "noise": noise, "objs": impl_obs["_tables"], "eps": impl_obs["_eps"]}
        all_funcs = all(t["kind"] == "func" for t in impl_obs["_tables"])
        reqs = []
        for key in ("mapping", "w_tilde"):
            r = {**base, "use_w_tilde": self._expected_formalism(case, key, all_funcs) == "w_tilde"}
            # the exact rational solve is the expensive part of the model and its result is compared only when the
            # system is well conditioned and the implementation produced a solution (see `_compare_one`): it is
            # requested exactly then
            o = impl_obs.get(key) or {}
            has_rec = any(isinstance(x.get("reconstruction"), list)
                          for x in (o, o.get("after") or {}, o.get("solve_first") or {}) if isinstance(x, dict))
            if "_H" in impl_obs and has_rec and self._cond(impl_obs, key) < 1e6:
                r["reg_matrix"] = impl_obs["_H"]
            reqs.append(r)
        return reqs

    def _model_obs_one(self, case, responses):
        if case.get("kind") == "mirrored":
            r = responses[0]
            return {"mirrored": r["ok"]} if "ok" in r else {"err": r.get("err")}
        if case.get("kind") == "utils":
            r = responses[0]
            if "ok" not in r:
                return {"err": r.get("err")}
            o = r["ok"]
            n = len(o["w_tilde_data"])

            def dense(rows, width):
                m = [[Fraction(0)] * width for _ in rows]
                for a, row in enumerate(rows):
                    for b, v in row:
                        m[a][b] += Fraction(v)
                return qmat(m)

            stored = {"data_vector_from_impl_tables": o["data_vector_from_impl_tables"],
                      "curvature_from_impl_tables": o["curvature_from_impl_tables"]}
            return {**stored, "w_tilde_data": o["w_tilde_data"], "w_tilde": o["w_tilde"],
                    "preload_upper": dense(o["preload"], n),
                    "unique_encodes": dense(o["unique"], len(o["mapping_matrix"][0]) if o["mapping_matrix"] else 0),
                    "mapping_matrix": o["mapping_matrix"], "data_vector": o["data_vector"],
                    "curvature": o["curvature"]}
        if len(responses) == 1:
            r = responses[0]
            return r["ok"] if "ok" in r else {"err": r.get("err")}
        out = {}
        for key, r in zip(("mapping", "w_tilde"), responses):
            if "ok" not in r:
                out[key] = {"err": r.get("err")}
                continue
            o = dict(r["ok"])
            if case.get("_light"):
                out[key] = o
                continue
            mats = {k: o[k] for k in ("operated_mapping_matrix", "data_vector", "curvature_matrix")}
            o["after"] = dict(mats)             # reads are history independent in the model
            sf = dict(mats)
            for k in ("reconstruction", "mapped_reconstructed_data"):
                if k in o:
                    sf[k] = o[k]
            o["solve_first"] = sf
            out[key] = o
        return out

    @staticmethod
    def _cond(impl_obs, key):
        """amplification of rounding in the solve: cond(F+H) * max(1, |s|_inf).  Entries of the
        reconstruction are compared (rtol 1e-9 on max(1,|entry|)) only when this is < 1e6, i.e. when the
        data determine numpy's answer to about 1e-10 absolutely."""
        o = impl_obs.get(key, {})
        if "curvature_matrix" not in o or "_H" not in impl_obs:
            return float("inf")
        A = _mat(o["curvature_matrix"]) + _mat(impl_obs["_H"])
        try:
            c = float(np.linalg.cond(A))
        except Exception:
            return float("inf")
        rec = o.get("reconstruction")
        if isinstance(rec, list) and rec:
            c *= max(1.0, float(np.max(np.abs(_arr(rec)))))
        return c

    def _compare_one(self, case, impl_obs, model_obs, cmp, root="$"):
        if case.get("kind") == "utils" and "err" not in impl_obs:
            return cmp.diff({k: v for k, v in impl_obs.items() if not k.startswith("_")}, model_obs, root)
        if case.get("kind") == "mirrored" or "err" in impl_obs:
            return cmp.diff({k: v for k, v in impl_obs.items() if k != "msg"}, model_obs, root)
        subs = (None,) if case.get("_light") else (None, "after", "solve_first")
        for key in ("mapping", "w_tilde"):
            a, b = dict(impl_obs[key]), dict(model_obs[key])
            a.pop("msg", None)
            if "err" in a or "err" in b:
                d = cmp.diff(a, b, f"{root}.{key}")
                if d:
                    return d
                continue
            # the solve: compare only when numpy's answer is determined to 1e-9 by the data
            well = self._cond(impl_obs, key) < 1e6
            for sub in subs:
                ra = dict(a if sub is None else a[sub])
                rb = dict(b if sub is None else b[sub])
                path = f"{root}.{key}" + ("" if sub is None else f".{sub}")
                for k in ("after", "solve_first"):
                    ra.pop(k, None)
                    rb.pop(k, None)
                rec_a, rec_b = ra.pop("reconstruction", None), rb.pop("reconstruction", None)
                mrd_a, mrd_b = ra.pop("mapped_reconstructed_data", None), rb.pop("mapped_reconstructed_data", None)
                d = cmp.diff(ra, rb, path)
                if d:
                    return d
                if isinstance(rec_a, str) or isinstance(rec_b, str):
                    # InversionException (singular / check_reconstruction) on one side only is a solver
                    # matter (C05)
                    continue
                if well and rec_a is not None and rec_b is not None:
                    d = cmp.diff(rec_a, rec_b, f"{path}.reconstruction") or \
                        cmp.diff(mrd_a, mrd_b, f"{path}.mapped_reconstructed_data")
                    if d:
                        return d
        return None

    # ------------------------------------------------------------------ oracle (independent of the model)
    def _oracle_one(self, case, obs):
        if case.get("kind") == "mirrored":
            C = _mat(case["matrix"])
            n = C.shape[0]
            exp = np.zeros((n, n))
            for i in range(n):
                for j in range(n):
                    lo, hi = min(i, j), max(i, j)
                    exp[i, j] = C[lo, hi] if C[lo, hi] != 0 else C[hi, lo]
            got = _mat(obs["mirrored"])
            if not np.array_equal(got, exp):
                return False, "mirrored matrix is not (upper if non-zero else lower), symmetric"
            return True, ""
        if "err" in obs:
            return False, f"implementation raised {obs}"
        mj = case["mask"]
        h, w = mj["h"], mj["w"]
        m = mask_from_json(mj)
        idx = [(y, x) for y in range(h) for x in range(w) if not m[y, x]]
        n = len(idx)
        k = obs["_kernel"]     # the dataset's PSF (normalised by `apply_mask`, as given on the direct route)
        kh, kw = k["kh"], k["kw"]
        K = _arr(k["vals"]).reshape(kh, kw)
        hy, hx = kh // 2, kw // 2
        if case.get("via", "apply_mask") == "direct":
            if k != case["kernel"]:
                return False, "dataset PSF differs from the PSF handed to Imaging(use_normalized_psf=False)"
        elif "vals" in case["kernel"]:
            # `apply_mask` re-creates the dataset with the default `use_normalized_psf=True` (design note §5): the
            # dataset's PSF is the given kernel divided by its sum (kernel values are dyadic: the sum is exact), or
            # the given kernel itself — anything else (transposed, flipped, re-ordered …) is not the PSF of this case
            Kc = _arr(case["kernel"]["vals"]).reshape(case["kernel"]["kh"], case["kernel"]["kw"])
            tot = float(Kc.sum())
            same = K.shape == Kc.shape and (np.array_equal(K, Kc) or (
                tot != 0.0 and np.allclose(K, Kc / tot, rtol=1e-12, atol=1e-14 * float(np.max(np.abs(Kc / tot))))))
            if not same:
                return False, ("dataset PSF after apply_mask is neither the PSF handed to Imaging nor its "
                               "normalisation K / sum(K)")
        # PSF matrix restricted to unmasked pixels: P[d, a] = K[d - a + half]
        P = np.zeros((n, n))
        for di, (dy, dx) in enumerate(idx):
            for ai, (ay, ax) in enumerate(idx):
                i, j = dy - ay + hy, dx - ax + hx
                if 0 <= i < kh and 0 <= j < kw:
                    P[di, ai] = K[i, j]
        data = np.array([_f(v) for v, mk in zip(case["data"], m.ravel()) if not mk])
        noise = np.array([_f(v) for v, mk in zip(case["noise"], m.ravel()) if not mk])
        # mapping matrices straight from the tables' meaning
        Ms, noreg, off = [], [], 0
        for t in obs["_tables"]:
            if t["kind"] == "func":
                M = _mat(t["matrix"])
            else:
                # contract assumed by the theorems (BlocksOK): every data pixel owns sub_size^2 consecutive sub-pixels
                want = [d for d in range(n) for _ in range(t["sub_size"][d] ** 2)]
                if t["slim_for_sub"] != want or len(t["sub_rows"]) != len(want):
                    return False, ("modelled-not-verified contract broken: slim_index_for_sub_slim_index is not "
                                   "every data pixel repeated sub_size^2 times in order")
                M = np.zeros((n, t["pixels"]))
                frac = _arr(t["sub_fraction"])
                for s, row in enumerate(t["sub_rows"]):
                    d = t["slim_for_sub"][s]
                    for pix, wt in row:
                        M[d, pix] += frac[d] * _f(wt)
            if not t["has_reg"]:
                noreg += list(range(off, off + M.shape[1]))
            off += M.shape[1]
            Ms.append(M)

        def close(a, b, what, floor=0.0):
            a, b = np.asarray(a, float), np.asarray(b, float)
            if a.shape != b.shape:
                return f"{what}: shape {a.shape} != {b.shape}"
            tol = max(floor, 1e-9 * max(1.0, float(np.max(np.abs(b))) if b.size else 1.0))
            if a.size and float(np.max(np.abs(a - b))) > tol:
                i = np.unravel_index(np.argmax(np.abs(a - b)), a.shape)
                return f"{what}: max |Δ| = {float(np.max(np.abs(a - b))):.3e} at {tuple(int(v) for v in i)}"
            return None

        if case.get("kind") == "utils":
            M = Ms[0]
            W = P.T @ (P / (noise ** 2)[:, None])
            wtd = P.T @ (data / noise ** 2)
            up = _mat(obs["preload_upper"])
            for what, got, exp in (
                    ("w_tilde_data_imaging_from != P^T N^-1 d", _arr(obs["w_tilde_data"]), wtd),
                    ("w_tilde_curvature_imaging_from != P^T N^-1 P", _mat(obs["w_tilde"]), W),
                    ("preload is not the upper triangle of W with the diagonal halved",
                     up, np.triu(W, 1) + np.diag(np.diag(W)) / 2.0),
                    ("unique mappings do not encode the mapping matrix", _mat(obs["unique_encodes"]), M),
                    ("mapper.mapping_matrix != table meaning", _mat(obs["mapping_matrix"]), M),
                    ("data_vector_via_w_tilde_data_imaging_from != M^T w_tilde_data", _arr(obs["data_vector"]), M.T @ wtd),
                    ("curvature_matrix_via_w_tilde_curvature_preload_imaging_from != M^T W M",
                     _mat(obs["curvature"]), M.T @ W @ M)):
                d = close(got, exp, what)
                if d:
                    return False, d
            return True, ""
        B = np.hstack([P @ M for M in Ms])
        Dx = B.T @ (data / noise ** 2)
        Fx = (B / noise[:, None]).T @ (B / noise[:, None])
        eps = _f(obs["_eps"])
        for i in noreg:
            Fx[i, i] += eps
        H = _mat(obs["_H"]) if "_H" in obs else None
        all_funcs = all(t["kind"] == "func" for t in obs["_tables"])

        recs = {}
        for key in ("mapping", "w_tilde"):
            o = obs.get(key)
            if o is None or "err" in o:
                return False, f"{key}: implementation raised {o}"
            want = self._expected_formalism(case, key, all_funcs)
            if o["formalism"] != want:
                return False, (f"factory chose {o['formalism']} for use_w_tilde={key == 'w_tilde'}"
                               + (f", preloads {case['preloads_opt']}" if case.get("preloads_opt") else ""))
            for sub, label in ((None, "first read"), ("after", "read again after the solve"),
                               ("solve_first", "fresh inversion, read after the solve")):
                if sub is not None and case.get("_light"):
                    continue        # history steps observe one inversion per formalism
                rd = o if sub is None else o[sub]
                Fm = _mat(rd["curvature_matrix"])
                for what, got, exp in (("operated_mapping_matrix != P·M (object order)", _mat(rd["operated_mapping_matrix"]), B),
                                       ("data_vector != B^T N^-1 d", _arr(rd["data_vector"]), Dx),
                                       ("curvature_matrix != B^T N^-1 B + eps on unregularized diag", Fm, Fx),
                                       ("curvature_matrix not symmetric", Fm, Fm.T)):
                    d = close(got, exp, f"{key} ({label}): {what}")
                    if d:
                        return False, d
                rec = rd.get("reconstruction")
                if sub != "after" and isinstance(rec, list) and H is not None:
                    s = _arr(rec)
                    A = Fx + H
                    resid = A @ s - Dx
                    scale = float(np.abs(A).sum(axis=1).max() * max(1.0, np.abs(s).max()) + np.abs(Dx).max())
                    if float(np.abs(resid).max()) > 1e-7 * scale:
                        return False, f"{key} ({label}): reconstruction does not solve (F+H)s = D (residual {float(np.abs(resid).max()):.3e})"
                    # (B s is a sum with cancellation: its rounding error scales with sum_j |B_dj| |s_j|, which matters
                    #  only when a nearly singular system produced a huge solution)
                    d = close(_arr(rd["mapped_reconstructed_data"]), B @ s, f"{key} ({label}): mapped_reconstructed_data != B s",
                              floor=1e-12 * float((np.abs(B) @ np.abs(s)).max()) if s.size and B.size else 0.0)
                    if d:
                        return False, d
                    if sub is None:
                        recs[key] = s
        if len(recs) == 2 and max(self._cond(obs, "mapping"), self._cond(obs, "w_tilde")) < 1e6:
            d = close(recs["w_tilde"], recs["mapping"], "reconstructions of the two formalisms differ")
            if d:
                return False, d
        return True, ""

    # ------------------------------------------------------------------ bookkeeping
    def nontrivial(self, case, obs):
        if case.get("kind") == "mirrored":
            return len(case["matrix"]) > 1
        if case.get("large"):
            return isinstance(obs, dict) and obs.get("digest", {}).get("n", 0) >= 2
        bits = case["mask"]["bits"]
        nz = sum(1 for v in case["kernel"]["vals"] if Fraction(v) != 0)
        return bits.count("0") >= 2 and "1" in bits and (nz > 1 or len(case["objs"]) > 1)

    def known_finding(self, case, obs):
        return None

    def shrink(self, case):
        if case.get("kind") == "mirrored":
            return
        if case.get("kind") == "history":
            # fewer steps (keeping an observation at the end), then fewer options on the remaining ones
            steps = case["steps"]
            # (ownership / configuration histories look for PROCESS-WIDE state: inside the failing process a shorter
            #  history fails too, because the state is already there, but it would not reproduce in a fresh process —
            #  their steps are kept; only the steps AFTER the last observation may go)
            keep_all = case.get("hist_type") in ("ownership", "config")
            for i in range(len(steps) - 1):
                rest = steps[:i] + steps[i + 1:]
                if keep_all:
                    continue
                if any(st["op"] == "observe" for st in rest):
                    yield {**case, "steps": rest}
            if keep_all and len(steps) > 2:
                yield {**case, "steps": steps[:-1]}
            for i, st in enumerate(steps):
                for opt in ("decoys", "ds_decoys", "fault"):
                    if st.get(opt):
                        yield {**case, "steps": steps[:i] + [{k: v for k, v in st.items() if k != opt}] + steps[i + 1:]}
            if case.get("preloads"):
                yield {**case, "preloads": None}
            return
        if case.get("large"):
            # cheap moves only (every evaluation of a large case costs seconds)
            if len(case["objs"]) > 1:
                for i in range(len(case["objs"])):
                    rest = case["objs"][:i] + case["objs"][i + 1:]
                    if any(o["kind"] != "func" for o in rest) or case["dim"] in ("func_params", "total_params"):
                        yield {**case, "objs": rest}
            if case["noise"].get("const") is None:
                yield {**case, "noise": {**case["noise"], "const": "1"}}
            if case.get("pixel_scales") != ["1", "1"] or case.get("origin") != ["0", "0"]:
                yield {**case, "pixel_scales": ["1", "1"], "origin": ["0", "0"]}
            if not isinstance(case.get("sub"), int) and case["dim"] != "sub_pixels":
                yield {**case, "sub": 1}
            return
        # round 5/6 options first: a failure that does not need them is reported without them
        for opt in ("layouts", "store", "positional", "settings_extra", "preloads_opt", "default_settings"):
            if case.get(opt):
                yield {k: v for k, v in case.items() if k != opt}
        if case.get("scale") and any(case["scale"].values()):
            yield {**case, "scale": None}
            for ing in ("data", "noise", "kernel"):
                if case["scale"].get(ing):
                    yield {**case, "scale": {**case["scale"], ing: 0}}
        # fewer objects
        if len(case["objs"]) > 1:
            for i in range(len(case["objs"])):
                yield {**case, "objs": case["objs"][:i] + case["objs"][i + 1:]}
        # no distortion / unit geometry / sub 1
        if case.get("distort"):
            yield {**case, "distort": None}
        if case.get("sub") != 1:
            yield {**case, "sub": 1}
        if case.get("pixel_scales") != ["1", "1"] or case.get("origin") != ["0", "0"]:
            yield {**case, "pixel_scales": ["1", "1"], "origin": ["0", "0"]}
        # simpler values
        if any(v != "1" for v in case["noise"]):
            yield {**case, "noise": ["1"] * len(case["noise"])}
        vals = case["kernel"]["vals"]
        for i, v in enumerate(vals):
            if v not in ("0", "1", "-1"):
                for nv in ("0", "1" if Fraction(v) > 0 else "-1"):
                    nvals = vals[:i] + [nv] + vals[i + 1:]
                    if any(x != "0" for x in nvals):
                        yield {**case, "kernel": {**case["kernel"], "vals": nvals}}
        # fewer unmasked pixels (function-list matrices lose the row)
        mj = case["mask"]
        bits = mj["bits"]
        unm = [i for i, c in enumerate(bits) if c == "0"]
        if len(unm) > 2:
            for r, i in enumerate(unm):
                objs = []
                for o in case["objs"]:
                    if o["kind"] == "func":
                        objs.append({**o, "matrix": o["matrix"][:r] + o["matrix"][r + 1:]})
                    else:
                        objs.append(o)
                sub = case.get("sub", 1)
                if not isinstance(sub, int):
                    sub = sub[:r] + sub[r + 1:]
                yield {**case, "mask": {**mj, "bits": bits[:i] + "1" + bits[i + 1:]}, "objs": objs, "sub": sub}

    def sample_view(self, case):
        view = {k: v for k, v in case.items() if not k.startswith("_") and k != "materialised"}
        if case.get("large"):
            # large cases carry recipes, never big literal arrays; for a replay file the small ingredients are
            # written out as well (ignored when the file is replayed: the recipes are authoritative)
            try:
                m = _mask_np(case["mask"])
                K = _kernel_np(case["kernel"])
                view["materialised"] = {"note": "arrays follow from the recipes via harness/props/c04.py "
                                                "(_mask_np, _kernel_np, _native_vals, _func_matrix_np, _points_np)",
                                        "unmasked_pixels": int((~m).sum()), "kernel_pixels": int(K.size)}
                if K.size <= 400:
                    view["materialised"]["kernel"] = [[float(v) for v in r] for r in K]
                if int((~m).sum()) <= 64:
                    h, w = m.shape
                    view["materialised"]["unmasked_yx"] = [[int(y), int(x)] for y, x in zip(*np.nonzero(~m))]
                    view["materialised"]["data_slim"] = [float(v) for v in _native_vals(case["data"], "data", h, w)[~m]]
                    view["materialised"]["noise_slim"] = [float(v) for v in _native_vals(case["noise"], "noise", h, w)[~m]]
            except Exception:
                pass
        return view

    def theorems_for(self, case):
        if case.get("kind") == "mirrored":
            return ["C04.e_curvature_formalisms_agree"]
        return ["C04.a_*", "C04.b_*", "C04.c_*", "C04.d_*", "C04.e_*"]


CHECK = C04()
