"""C05 — the reconstruction is the true (non-negative) least-squares optimum.

Case kinds
  solver     autoarray.util.fnnls.fnnls_cholesky(ZTZ, ZTx, P_initial) on SPD systems
  recon      inversion_util.reconstruction_positive_negative_from / reconstruction_positive_only_from
  inversion  real aa.Inversion objects (mapping and w-tilde formalism, rectangular mappers + function
             lists): .reconstruction / .reconstruction_dict / .mapped_reconstructed_data_dict /
             .mapped_reconstructed_data with the settings product
  chol       the Cholesky bookkeeping of fnnls_cholesky (Model/Cholesky.lean): the REAL
             cholesky_funcs.cholinsertlast / choldeleteindexes / _cholupdate and scipy.linalg.cho_solve /
             scipy.linalg.cholesky against the model (Float with Float.sqrt, or exact Rat when every root
             is rational: A = R'R from a dyadic upper-triangular R inserted in R's order): insert sequences
             followed by delete sets in every position (incl. the last, several at once, unsorted,
             list / tuple / ndarray), and the functions one at a time on arbitrary triangular arrays.
             Oracle: U is upper triangular with positive diagonal and U'U equals the principal submatrix
             A[P][:, P] (exact integer arithmetic on the float output, explicit tolerance).
The model (Lean, exact rationals) receives the same system (for `inversion`: the F+H and D the
implementation built — their construction is C04's subject) and returns the exact optimum; solutions are
compared at 1e-7 of the solution scale (unique optimum of a PD problem => stable), mapped data at 1e-9.
The oracle evaluates the KKT certificate in exact Fractions on the implementation's float output with an
explicit slack.
"""
from __future__ import annotations

import itertools
from fractions import Fraction

import numpy as np

import gen
from common import Cmp, PropertyCheck, Skip, load_autoarray, q, qlist, qmat

EPS = 2.2204e-16  # the constant in fnnls_cholesky
REL_SOL = Fraction(1, 10**7)  # solution comparison / DESIGN §2.4
REL_MAP = Fraction(1, 10**9)
KKT_SLACK = Fraction(1, 10**9)  # relative slack of the oracle (times |A|·|d|_1 + |b|)
F = Fraction


# ------------------------------------------------------------------------------------------------
# exact helpers (oracle side; independent of the code under test and of the Lean model)
# ------------------------------------------------------------------------------------------------
def fr_mat(m):
    return [[F(x) for x in r] for r in m]


def fr_vec(v):
    return [F(x) for x in v]


def matvec(A, x):
    return [sum((a * xi for a, xi in zip(row, x)), F(0)) for row in A]


def exact_float(x: Fraction) -> float:
    f = float(x)
    if F(f) != x:
        raise ValueError(f"{x} is not an exact double")
    return f


def np_mat(A):
    return np.array([[float(x) for x in r] for r in A], dtype=float).reshape(len(A), len(A[0]) if A else 0)


def np_vec(b):
    return np.array([float(x) for x in b], dtype=float)


def typed(vals, dtype, shape=None):
    """numpy array of the exact values in the requested dtype (round-3 hardening: the exact model does not
    care about the dtype, the code must not either). int64 only for integral values."""
    if dtype == "int64":
        assert all(F(v).denominator == 1 for v in np.ravel(np.array(vals, dtype=object)))
        arr = np.array([[int(F(x)) for x in r] for r in vals] if vals and isinstance(vals[0], (list, tuple))
                       else [int(F(x)) for x in vals], dtype=np.int64)
    else:
        arr = np.array([[float(F(x)) for x in r] for r in vals] if vals and isinstance(vals[0], (list, tuple))
                       else [float(F(x)) for x in vals], dtype=np.float64)
    if shape is not None:
        arr = arr.reshape(shape)
    return arr


def spd_int(rng, n):
    """integer-valued SPD matrix (Gram of a small integer matrix + integer ridge)"""
    m = n + rng.choice([0, 1, 2])
    Z = [[rng.randint(-3, 3) for _ in range(n)] for _ in range(max(1, m))]
    ridge = rng.choice([1, 1, 2])
    return [[F(sum(Z[k][i] * Z[k][j] for k in range(len(Z))) + (ridge if i == j else 0)) for j in range(n)]
            for i in range(n)]


def kkt_check(A, b, d, allow_tol):
    """KKT certificate of  min 1/2 d'Ad - b'd, d >= 0  on exact Fractions with an explicit slack.
    Returns (ok, detail)."""
    n = len(b)
    if len(d) != n:
        return False, f"solution has length {len(d)} for a system of size {n}"
    if any(x < 0 for x in d):
        i = min(range(n), key=lambda k: d[k])
        return False, f"s[{i}] = {float(d[i])!r} < 0"
    Ad = matvec(A, d)
    amax = max((abs(x) for r in A for x in r), default=F(0))
    slack = KKT_SLACK * (amax * sum(abs(x) for x in d) + max((abs(x) for x in b), default=F(0))) + allow_tol
    for i in range(n):
        g = Ad[i] - b[i]
        if d[i] > 0 and abs(g) > slack:
            return False, (f"gradient on positive entry s[{i}]={float(d[i])!r} is {float(g)!r} "
                           f"(slack {float(slack):.3e})")
        if d[i] == 0 and g < -slack:
            return False, f"gradient on zero entry {i} is {float(g)!r} < 0 (slack {float(slack):.3e})"
    return True, ""


def exact_solve(A, b):
    """Gauss-Jordan in Fractions; None if singular."""
    n = len(b)
    M = [list(r) + [bi] for r, bi in zip(A, b)]
    for c in range(n):
        piv = next((r for r in range(c, n) if M[r][c] != 0), None)
        if piv is None:
            return None
        M[c], M[piv] = M[piv], M[c]
        pv = M[c][c]
        M[c] = [x / pv for x in M[c]]
        for r in range(n):
            if r != c and M[r][c] != 0:
                f = M[r][c]
                M[r] = [x - f * y for x, y in zip(M[r], M[c])]
    return [M[i][n] for i in range(n)]


def exact_nnls(A, b):
    """textbook Lawson-Hanson in exact arithmetic (independent of the code under test and of the Lean
    model); used only to classify failing inputs (is the exact optimum degenerate?)."""
    n = len(b)
    P = []
    x = [F(0)] * n
    for _ in range(10 * n + 10):
        w = [bi - v for bi, v in zip(b, matvec(A, x))]
        cand = [i for i in range(n) if i not in P and w[i] > 0]
        if not cand:
            return x
        P.append(max(cand, key=lambda i: w[i]))
        while True:
            sub = exact_solve([[A[i][j] for j in P] for i in P], [b[i] for i in P])
            if sub is None:
                return None
            z = [F(0)] * n
            for k, i in enumerate(P):
                z[i] = sub[k]
            if all(z[i] > 0 for i in P):
                x = z
                break
            alpha = min(x[i] / (x[i] - z[i]) for i in P if z[i] <= 0)
            x = [xi + alpha * (zi - xi) for xi, zi in zip(x, z)]
            P = [i for i in P if x[i] > 0]
    return None


def degenerate_optimum(A, b):
    """True iff the exact minimiser s* of 1/2 s'As - b's, s >= 0 has an index with s*_i = 0 whose gradient
    vanishes too (to 1e-10 of the gradient scale): strict complementarity fails."""
    x = exact_nnls(A, b)
    if x is None:
        return False
    g = [v - bi for v, bi in zip(matvec(A, x), b)]
    scale = max([abs(v) for v in b] + [F(1, 2**40)])
    return any(x[i] == 0 and abs(g[i]) <= scale / 10**10 for i in range(len(b)))


def sol_scale(A, b, ref):
    amax = max((abs(x) for r in A for x in r), default=F(1)) or F(1)
    bmax = max((abs(x) for x in b), default=F(0))
    return max([abs(F(x)) for x in ref] + [bmax / amax, F(1, 2**40)])


def rel_tol(A):
    """relative tolerance of a solution comparison: 1e-7 (DESIGN §2.4), widened for ill-conditioned systems
    to 8·cond₂(A)·2⁻⁵³ — the forward error a backward-stable float solve is entitled to (real inversions
    with Constant regularization reach cond ~ 1e10)."""
    if not A:
        return REL_SOL
    c = float(np.linalg.cond(np_mat(A)))
    if not np.isfinite(c):
        return REL_SOL
    return max(REL_SOL, F(8 * c * 2.0 ** -53))


def diff_vec(cmp: Cmp, impl, model, tol, path):
    if len(impl) != len(model):
        return f"{path}: length impl={len(impl)} model={len(model)}"
    for i, (a, m) in enumerate(zip(impl, model)):
        a, m = F(a), F(m)
        if a == m:
            cmp.exact += 1
        elif abs(a - m) <= tol:
            cmp.tolerant += 1
        else:
            return f"{path}[{i}]: impl={float(a)!r} model={float(m)!r} (|Δ|={float(abs(a-m)):.3e}, tol={float(tol):.3e})"
    return None



# ------------------------------------------------------------------------------------------------
# Cholesky bookkeeping: exact helpers on float outputs (scaled integers: no gcds)
# ------------------------------------------------------------------------------------------------
CHOL_REL = Fraction(1, 10**9)  # model (float) vs implementation (float): relative, widened by cond
CHOL_ORACLE = Fraction(1, 10**10)  # |U'U - A_PP| <= CHOL_ORACLE * max|A_PP| * (ops + 1)


def _p2(den):
    k = den.bit_length() - 1
    if den != 1 << k:
        raise ValueError("not a dyadic rational")
    return k


def scaled_ints(rows):
    """rows of dyadic rationals (Fractions / "p/q" strings of doubles) -> (rows of ints, s) with value = int / 2^s"""
    fr = [[F(x) for x in r] for r in rows]
    s = max((_p2(x.denominator) for r in fr for x in r), default=0)
    return [[x.numerator << (s - _p2(x.denominator)) for x in r] for r in fr], s


def gram_exact(U):
    """(G, s2): G[i][j] = sum_k U[k][i] U[k][j] as integers at scale 2^-s2, exactly"""
    Ui, s = scaled_ints(U)
    n = len(Ui)
    cols = [[Ui[k][i] for k in range(n)] for i in range(n)]
    return [[sum(a * b for a, b in zip(cols[i], cols[j])) for j in range(n)] for i in range(n)], 2 * s


def upper_posdiag(U):
    n = len(U)
    for i in range(n):
        if len(U[i]) != n:
            return f"row {i} has length {len(U[i])} in a {n}x{n} factor"
        for j in range(i):
            if F(U[i][j]) != 0:
                return f"U[{i},{j}] = {float(F(U[i][j]))!r} below the diagonal"
        if F(U[i][i]) <= 0:
            return f"diagonal U[{i},{i}] = {float(F(U[i][i]))!r} is not positive"
    return None


def gram_matches(U, M, ops, what):
    """U'U == M (Fractions) to CHOL_ORACLE * max|M| * (ops + 1); None or a description"""
    n = len(M)
    if len(U) != n:
        return f"{what}: factor is {len(U)}x{len(U)} for a {n}x{n} matrix"
    G, s2 = gram_exact(U)
    scale = max([abs(x) for r in M for x in r] + [F(1, 2**40)])
    tol = CHOL_ORACLE * scale * (ops + 1)
    tol_i = (tol.numerator << s2) // tol.denominator
    for i in range(n):
        for j in range(n):
            m = F(M[i][j])
            mi = (m.numerator << s2) // m.denominator if _p2(m.denominator) <= s2 else None
            d = abs(G[i][j] - mi) if mi is not None else abs(F(G[i][j], 1 << s2) - m) * (1 << s2)
            if d > tol_i:
                return (f"{what}: (U'U)[{i},{j}] = {float(F(G[i][j], 1 << s2))!r} but the matrix entry is "
                        f"{float(m)!r} (tol {float(tol):.3e})")
    return None


def chol_tol(M):
    """relative tolerance float-vs-float / float-vs-exact for quantities computed through a factor of M"""
    if not M:
        return CHOL_REL
    c = float(np.linalg.cond(np_mat(M)))
    if not np.isfinite(c):
        return None
    return max(CHOL_REL, F(64 * c * 2.0 ** -53))


def chol_R(rng, n, wide=True):
    """dyadic upper-triangular n x n with positive diagonal (steps of 1/4)"""
    R = [[F(0)] * n for _ in range(n)]
    dens = rng.choice([1.0, 0.7, 0.4])
    lim = 8 if (wide and n <= 8) else 4
    for i in range(n):
        R[i][i] = F(rng.randint(4, 16), 4)
        for j in range(i + 1, n):
            if rng.random() < dens:
                R[i][j] = F(rng.randint(-lim, lim), 4)
    return R


def gram_fr(R):
    n = len(R)
    return [[sum((R[k][i] * R[k][j] for k in range(n)), F(0)) for j in range(n)] for i in range(n)]


def spd_from_R(R, perm):
    """A with A[perm[a]][perm[b]] = (R'R)[a][b]: inserting perm[0], perm[1], ... meets only rational roots"""
    n = len(R)
    G = gram_fr(R)
    A = [[F(0)] * n for _ in range(n)]
    for a in range(n):
        for b in range(n):
            A[perm[a]][perm[b]] = G[a][b]
    return A


def natural_entering_order(A, b):
    """True iff exact Lawson-Hanson on (A, b) only ever holds passive lists [0, 1, .., k) in this order"""
    n = len(b)
    P = []
    x = [F(0)] * n
    for _ in range(10 * n + 10):
        w = [bi - v for bi, v in zip(b, matvec(A, x))]
        cand = [i for i in range(n) if i not in P and w[i] > 0]
        if not cand:
            return True
        P.append(max(cand, key=lambda i: (w[i], -i)))
        while True:
            if P != list(range(len(P))):
                return False
            sub = exact_solve([[A[i][j] for j in P] for i in P], [b[i] for i in P])
            if sub is None:
                return False
            z = [F(0)] * n
            for k, i in enumerate(P):
                z[i] = sub[k]
            if all(z[i] > 0 for i in P):
                x = z
                break
            alpha = min(x[i] / (x[i] - z[i]) for i in P if z[i] <= 0)
            x = [xi + alpha * (zi - xi) for xi, zi in zip(x, z)]
            P = [i for i in P if x[i] > 0]
    return False


def np_delete_positions(P, dels):
    ds = set(int(d) for d in dels)
    return [v for k, v in enumerate(P) if k not in ds]

# ------------------------------------------------------------------------------------------------
# generators of systems
# ------------------------------------------------------------------------------------------------
def spd_dyadic(rng, n, kind=None):
    """(A, kind): symmetric positive-definite with dyadic entries (exact doubles)."""
    kind = kind or rng.choice(["gram", "gram", "gram_thin", "diag", "tridiag", "equicorr"])
    if kind == "diag":
        return [[gen.pos_dyadic(rng, 1, 6, 2) if i == j else F(0) for j in range(n)] for i in range(n)], kind
    if kind == "tridiag":
        off = F(rng.choice([-1, 1, -2, 2, 3]), 4)
        A = [[F(0)] * n for _ in range(n)]
        for i in range(n):
            A[i][i] = F(2) + F(rng.randint(0, 4), 4)
            if i + 1 < n:
                A[i][i + 1] = A[i + 1][i] = off
        return A, kind
    if kind == "equicorr":  # c*I + r*J: every w-entry ties when b is constant
        c = gen.pos_dyadic(rng, 1, 4, 2)
        r = F(rng.randint(0, 8), 4)
        return [[c + r if i == j else r for j in range(n)] for i in range(n)], kind
    m = n + (rng.choice([0, 1, 2, 4]) if kind == "gram" else -rng.randint(1, max(1, n // 2)))
    m = max(1, m)
    Z = [[gen.dyadic(rng, -3, 3, 2) for _ in range(n)] for _ in range(m)]
    ridge = rng.choice([F(1), F(1, 8), F(1, 64), F(1, 1024)])
    A = [[sum((Z[k][i] * Z[k][j] for k in range(m)), F(0)) + (ridge if i == j else 0) for j in range(n)]
         for i in range(n)]
    return A, kind


def rhs_for(rng, A, mode):
    n = len(A)
    if mode == "planted":  # unconstrained solution u has a prescribed number of negative entries
        k = rng.randint(0, n)
        neg = set(rng.sample(range(n), k))
        u = [(-1 if i in neg else 1) * gen.pos_dyadic(rng, 1, 4, 3) for i in range(n)]
        return matvec(A, u)
    if mode == "planted_zeros":  # unconstrained solution is >= 0 with exact zeros (degenerate KKT)
        u = [F(0) if rng.random() < 0.4 else gen.pos_dyadic(rng, 1, 4, 3) for _ in range(n)]
        return matvec(A, u)
    if mode == "negative":
        return [-gen.pos_dyadic(rng, 0, 4, 3) for _ in range(n)]
    if mode == "const":
        c = gen.dyadic(rng, -2, 4, 2)
        return [c] * n
    if mode == "zero":
        return [F(0)] * n
    return [gen.dyadic(rng, -6, 6, 4) for _ in range(n)]  # noise


def p_init_for(rng, A, b, mode):
    """the P_initial argument: None | {"kind":"mask","mask":[..]} | {"kind":"idx","idx":[..]}"""
    n = len(b)
    if mode == "none":
        return None
    if mode == "prod":  # what reconstruction_positive_only_from passes
        u = np.linalg.solve(np_mat(A), np_vec(b))
        return {"kind": "mask", "mask": [bool(x > 0) for x in u]}
    if mode == "mask":
        return {"kind": "mask", "mask": [rng.random() < 0.5 for _ in range(n)]}
    if mode == "mask_empty":
        return {"kind": "mask", "mask": [False] * n}
    if mode == "full":
        return {"kind": "mask", "mask": [True] * n}
    k = rng.randint(1, n)
    return {"kind": "idx", "idx": rng.sample(range(n), k)}


def effective(value, key):
    """the value a SettingsInversion property resolves to: the pinned config default when None, else the
    value's truthiness (0 / False / 1 / True are all legal inputs)"""
    if value is None:
        from autoconf import conf

        return bool(conf.instance["general"]["inversion"][key])
    return bool(value)


def p_init_indices(p):
    if p is None:
        return None
    if p["kind"] == "mask":
        return [i for i, v in enumerate(p["mask"]) if v]
    return list(p["idx"])


def rect_edge(shape):
    a, b = shape
    return [i * b + j for i in range(a) for j in range(b) if i in (0, a - 1) or j in (0, b - 1)]


# ------------------------------------------------------------------------------------------------
class C05(PropertyCheck):
    pid = "C05"
    title = "(non-negative) least-squares optimum"
    nontrivial_rule = (
        "solver/recon case: the returned solution has a zero and a positive entry, or the unconstrained "
        "solution has a negative entry, or an exception path is taken; inversion case: at least one "
        "parameter is forced to zero or clipped by the constraint; distinct = distinct case content"
    )
    exhaustive_note = {
        "quick": "all 2^n sign patterns of the planted unconstrained solution for n<=4 x every P_initial mode; "
                 "settings product use_positive_only_solver x positive_only_uses_p_initial x "
                 "force_edge_pixels_to_zeros x formalism on every inversion layout; choldeleteindexes: every "
                 "non-empty set of positions of a passive list of length <= 5 (sorted, reversed, shuffled)",
        "thorough": "all 2^n sign patterns of the planted unconstrained solution for n<=6 x every P_initial mode; "
                    "settings product on every inversion layout; choldeleteindexes: every non-empty set of "
                    "positions of a passive list of length <= 6 (sorted, reversed, shuffled)",
    }
    trusted_extra = [
        "modelled, not verified: numpy.linalg.solve and scipy.linalg.solve(assume_a='pos') (the unconstrained "
        "solver and the P_initial guess) — contract 'returns x with M x = r'; the driver instantiates it with "
        "exact Gauss-Jordan elimination whose result is re-checked (contract proved for the instance)",
        "the libm square root (math.sqrt / np.sqrt): contract 'sqrt x >= 0 and sqrt x * sqrt x = x for x >= 0' "
        "(discharged for Real.sqrt). With it the Cholesky bookkeeping of fnnls_cholesky (cholinsertlast, "
        "choldeleteindexes, _cholupdate of autoarray/util/cholesky_funcs.py, transliterated in "
        "Model/Cholesky.lean) is PROVED exact and the solve contract is instantiated by the code's own "
        "passive-set solve (C05.chol_*)",
        "LAPACK behind scipy.linalg.solve_triangular / cho_solve / cholesky is modelled by its mathematical "
        "content (forward / back substitution, bordering recursion); the tie is the correspondence of the "
        "'chol' case family (float model vs real calls at 1e-9 x cond, exact rational model where all roots "
        "are rational)",
        "IEEE rounding of the implementation (theorems are over ordered fields; comparison at 1e-7 of the "
        "solution scale, KKT oracle with 1e-9 relative slack)",
        "termination of the active-set iteration is not proved (model and code both carry the 10000-iteration "
        "guard; exits by no_update are reported by the model and compared)",
        "F+H and D of an Inversion are taken from the implementation (their construction is property C04)",
    ]
    assumptions = [
        "(F+H) symmetric positive definite (the property's quantifier); singular systems only for the "
        "unconstrained solver's exception clause",
        "repaired warm-start prologue (fixes/D4-fnnls-warm-start.patch) is what the model mirrors",
    ]
    search_budget_s = {"quick": 40, "thorough": 300}
    modelled_functions = [
        "autoarray/util/fnnls.py:fnnls_cholesky",
        "autoarray/util/fnnls.py:fix_constraint_cholesky",
        "autoarray/util/cholesky_funcs.py:cholinsertlast",
        "autoarray/util/cholesky_funcs.py:choldeleteindexes",
        "autoarray/util/cholesky_funcs.py:_cholupdate",
        "autoarray/inversion/inversion/inversion_util.py:reconstruction_positive_negative_from",
        "autoarray/inversion/inversion/inversion_util.py:reconstruction_positive_only_from",
        "autoarray/inversion/inversion/inversion_util.py:mapped_reconstructed_data_via_mapping_matrix_from",
        "autoarray/inversion/inversion/inversion_util.py:mapped_reconstructed_data_via_image_to_pix_unique_from",
        "autoarray/inversion/inversion/abstract.py:AbstractInversion.reconstruction",
        "autoarray/inversion/inversion/abstract.py:AbstractInversion.mapper_edge_pixel_list",
        "autoarray/inversion/inversion/abstract.py:AbstractInversion.mapper_zero_pixel_list",
        "autoarray/inversion/inversion/abstract.py:AbstractInversion.reconstruction_dict",
        "autoarray/inversion/inversion/abstract.py:AbstractInversion.source_quantity_dict_from",
        "autoarray/inversion/inversion/abstract.py:AbstractInversion.mapped_reconstructed_data",
        "autoarray/inversion/inversion/abstract.py:AbstractInversion.curvature_reg_matrix",
        "autoarray/inversion/inversion/imaging/mapping.py:InversionImagingMapping.mapped_reconstructed_data_dict",
        "autoarray/inversion/inversion/imaging/w_tilde.py:InversionImagingWTilde.mapped_reconstructed_data_dict",
        "autoarray/inversion/inversion/imaging/abstract.py:AbstractInversionImaging.operated_mapping_matrix_list",
        "autoarray/inversion/inversion/settings.py:SettingsInversion.use_positive_only_solver",
        "autoarray/inversion/inversion/settings.py:SettingsInversion.positive_only_uses_p_initial",
        "autoarray/inversion/pixelization/mesh/mesh_util.py:rectangular_edge_pixel_list_from",
    ]
    _tier = "quick"

    # ------------------------------------------------------------------ generation
    def generate(self, tier, rng):
        quick = tier == "quick"
        self._tier = tier
        P_MODES = ["none", "prod", "mask", "idx", "mask_empty", "full"]
        # 1. exhaustive sign patterns of the planted unconstrained solution, small n, all P modes
        for n in range(1, (4 if quick else 6) + 1):
            A, akind = spd_dyadic(rng, n, "gram")
            mags = [gen.pos_dyadic(rng, 1, 4, 3) for _ in range(n)]
            for signs in itertools.product([1, -1], repeat=n):
                u = [s * m for s, m in zip(signs, mags)]
                b = matvec(A, u)
                for pm in P_MODES:
                    yield self._solver_case(rng, A, b, pm, f"solver_signs_{pm}")
        # 2. random structured systems
        nmax = 8 if quick else 16
        for _ in range(220 if quick else 2500):
            n = rng.randint(1, nmax)
            A, akind = spd_dyadic(rng, n)
            mode = rng.choice(["planted", "planted", "noise", "noise", "planted_zeros", "negative", "const",
                               "zero"])
            b = rhs_for(rng, A, mode)
            if rng.random() < 0.25:  # magnitudes far from 1: the absolute tolerance eps*n is not scale-free
                sa, sb = F(2) ** rng.randint(-12, 12), F(2) ** rng.randint(-12, 12)
                A = [[x * sa for x in r] for r in A]
                b = [x * sb for x in b]
            for pm in (["none", "prod"] + rng.sample(P_MODES[2:], 2)):
                yield self._solver_case(rng, A, b, pm, f"solver_{akind}_{mode}_{pm}")
        # 2b. round-3 hardening: integer-dtype systems (int64 ndarrays), 0x0 and 1x1 systems, P_initial omitted
        for _ in range(60 if quick else 500):
            n = rng.randint(1, min(nmax, 8))
            A = spd_int(rng, n)
            if rng.random() < 0.5:
                u = [F(rng.choice([-3, -2, -1, 1, 2, 3])) for _ in range(n)]
                b = matvec(A, u)
            else:
                b = [F(rng.randint(-6, 6)) for _ in range(n)]
            for pm in ("none", "prod", rng.choice(P_MODES[2:])):
                c = self._solver_case(rng, A, b, pm, f"solver_int64_{pm}")
                c["dtype"] = "int64"
                c["omit_p_initial"] = pm == "none" and rng.random() < 0.5
                yield c
        for pm in ("none", "mask_empty"):
            yield {"tag": f"solver_0x0_{pm}", "kind": "solver", "A": [], "b": [],
                   "p_init": None if pm == "none" else {"kind": "mask", "mask": []}}
        for a, bb in itertools.product([F(1), F(3, 4), F(5)], [F(-2), F(0), F(1, 2), F(7)]):
            for pm in ("none", "prod", "full", "mask_empty"):
                for dt in ("float64",) + (("int64",) if a.denominator == 1 and bb.denominator == 1 else ()):
                    c = self._solver_case(rng, [[a]], [bb], pm, f"solver_1x1_{pm}_{dt}")
                    c["dtype"] = dt
                    yield c
        # 3. the two reconstruction routines of inversion_util, incl. exception paths
        yield from self._recon_cases(rng, 120 if quick else 1200, nmax)
        # 4. real inversions
        yield from self._inversion_cases(rng, 24 if quick else 220)
        # 5. the Cholesky bookkeeping of fnnls_cholesky, function by function and in sequence
        yield from self._chol_cases(rng, quick)

    def _solver_case(self, rng, A, b, pm, tag):
        return {"tag": tag, "kind": "solver", "A": qmat(A), "b": qlist(b),
                "p_init": p_init_for(rng, A, b, pm)}

    def _recon_cases(self, rng, count, nmax):
        # round-3 hardening: integer dtype / list / tuple containers, "set but falsy" settings crossed with the
        # config default (None), empty and 1x1 systems
        for _ in range(max(12, count // 5)):
            n = rng.randint(1, min(nmax, 7))
            A = spd_int(rng, n)
            u = [F(rng.choice([-3, -2, -1, 1, 2, 3])) + (F(k, 1) if rng.random() < 0.3 else 0) for k in range(n)]
            b = matvec(A, u) if rng.random() < 0.6 else [F(rng.randint(-6, 6)) for _ in range(n)]
            for pv in (None, False, True, 0, 1):
                yield {"tag": f"recon_posonly_int_p{pv!r}", "kind": "recon", "fn": "posonly", "A": qmat(A),
                       "b": qlist(b), "p_initial": pv, "container": rng.choice(["int64", "float64"])}
            cut = rng.randint(0, n - 1)
            yield {"tag": "recon_posneg_containers", "kind": "recon", "fn": "posneg", "A": qmat(A), "b": qlist(b),
                   "ranges": [[cut, n]], "container": rng.choice(["int64", "list", "tuple", "float64"]),
                   "ranges_as": rng.choice(["list", "tuple"]), "force_check": rng.choice([False, True, 0])}
        yield {"tag": "recon_posneg_empty", "kind": "recon", "fn": "posneg", "A": [], "b": [], "ranges": []}
        for _ in range(count):
            n = rng.randint(1, nmax)
            A, akind = spd_dyadic(rng, n)
            cls = rng.choice(["posonly", "posonly", "posneg", "posneg", "degenerate", "hug", "singular",
                              "empty"])
            # mapper ranges: a partition of a prefix/suffix of the parameters into 1-2 slices
            cut = rng.randint(0, n - 1)
            ranges = [[cut, n]] if rng.random() < 0.6 or cut == 0 else [[0, cut], [cut, n]]
            if cls in ("posonly",):
                b = rhs_for(rng, A, rng.choice(["planted", "noise", "planted_zeros", "negative"]))
                for pinit in (False, True):
                    yield {"tag": f"recon_posonly_p{int(pinit)}", "kind": "recon", "fn": "posonly",
                           "A": qmat(A), "b": qlist(b), "p_initial": pinit}
            elif cls == "posneg":
                b = rhs_for(rng, A, rng.choice(["planted", "noise"]))
                yield {"tag": "recon_posneg", "kind": "recon", "fn": "posneg", "A": qmat(A), "b": qlist(b),
                       "ranges": ranges}
            elif cls == "degenerate":  # a mapper slice whose values all agree -> InversionException
                c = gen.dyadic(rng, -4, 4, 2)
                x = [gen.dyadic(rng, -4, 4, 2) for _ in range(n)]
                r0, r1 = rng.choice(ranges)
                for i in range(r0, r1):
                    x[i] = c
                yield {"tag": "recon_posneg_degenerate", "kind": "recon", "fn": "posneg", "A": qmat(A),
                       "b": qlist(matvec(A, x)), "ranges": ranges}
            elif cls == "hug":  # one value at (1 ± 2^-8) of numpy.allclose's threshold 1e-8 + 1e-5|c|
                if akind in ("gram_thin",):
                    continue  # keep the conditioning moderate: the float solve must resolve 4e-11
                c = rng.choice([F(0), gen.dyadic(rng, -4, 4, 2)])
                r0, r1 = rng.choice(ranges)
                if r1 - r0 < 2:
                    continue
                thr = F(1e-8) + F(1e-5) * abs(c)
                side = rng.choice([1, -1])
                delta = thr * (1 + side * F(1, 256)) * rng.choice([1, -1])
                x = [gen.dyadic(rng, -4, 4, 2) for _ in range(n)]
                for i in range(r0, r1):
                    x[i] = c
                x[rng.randint(r0 + 1, r1 - 1)] = c + delta
                # b = A x is not a double exactly: round it and let both sides see the rounded system
                b = [F(float(v)) for v in matvec(A, x)]
                yield {"tag": f"recon_posneg_hug{'+' if side > 0 else '-'}", "kind": "recon", "fn": "posneg",
                       "A": qmat(A), "b": qlist(b), "ranges": ranges}
            elif cls == "singular":  # exactly singular: zero rows/columns
                if n < 2:
                    continue
                S = [row[:] for row in A]
                # (a zero row AND column keeps an exactly zero pivot through LU in floating point, so
                # numpy reports the singularity; a repeated row does not — rounding hides it)
                for i in rng.sample(range(n), rng.randint(1, 2)):
                    for k in range(n):
                        S[i][k] = S[k][i] = F(0)
                b = [gen.dyadic(rng, -4, 4, 2) for _ in range(n)]
                yield {"tag": "recon_posneg_singular", "kind": "recon", "fn": "posneg", "A": qmat(S),
                       "b": qlist(b), "ranges": []}
                yield {"tag": "recon_posonly_singular_p1", "kind": "recon", "fn": "posonly", "A": qmat(S),
                       "b": qlist(b), "p_initial": True}
            else:
                yield {"tag": "recon_posonly_empty", "kind": "recon", "fn": "posonly", "A": [], "b": [],
                       "p_initial": rng.random() < 0.5}

    # ------------------------------------------------------------------ Cholesky bookkeeping cases
    def _chol_seq(self, rng, A, b, inserts, deletes, tag, num="float", first_k=0, dels_as="ndarray"):
        return {"tag": tag, "kind": "chol", "sub": "seq", "A": qmat(A), "b": qlist(b), "inserts": list(inserts),
                "deletes": [list(d) for d in deletes], "num": num, "first_k": first_k, "dels_as": dels_as}

    def _chol_cases(self, rng, quick):
        nmax = 8 if quick else 16
        # (i) exhaustive: every non-empty set of positions of an m-long passive list, sorted / reversed / shuffled
        for m in range(1, (5 if quick else 6) + 1):
            n = m + rng.choice([0, 1])
            perm = rng.sample(range(n), n)
            A = spd_from_R(chol_R(rng, n), perm)
            b = [gen.dyadic(rng, -4, 4, 2) for _ in range(n)]
            ins = rng.sample(range(n), m)
            for r in range(1, m + 1):
                for sub in itertools.combinations(range(m), r):
                    orders = {tuple(sub), tuple(reversed(sub))}
                    sh = list(sub)
                    rng.shuffle(sh)
                    orders.add(tuple(sh))
                    for o in sorted(orders):
                        yield self._chol_seq(rng, A, b, ins, [list(o)], f"chol_seq_all_subsets_m{m}",
                                             dels_as=rng.choice(["ndarray", "list", "tuple"]))
        # (ii) random sequences: inserts, then 0..3 delete sets (first / last / several / unsorted / all / none)
        for _ in range(300 if quick else 3000):
            n = rng.randint(1, nmax)
            perm = rng.sample(range(n), n)
            A = spd_from_R(chol_R(rng, n), perm)
            b = [gen.dyadic(rng, -4, 4, 2) for _ in range(n)]
            m = rng.randint(1, n)
            rational = rng.random() < 0.35
            ins = perm[:m] if rational else rng.sample(range(n), m)
            deletes, cur = [], m
            for _k in range(rng.choice([0, 1, 1, 2, 3])):
                if cur == 0:
                    break
                mode = rng.choice(["last", "first", "one", "some", "some", "suffix", "all", "none"])
                if rational and mode not in ("none",):
                    mode = rng.choice(["last", "suffix"])  # a deleted suffix needs no _cholupdate: stays rational
                if mode == "last":
                    d = [cur - 1]
                elif mode == "first":
                    d = [0]
                elif mode == "one":
                    d = [rng.randrange(cur)]
                elif mode == "suffix":
                    k = rng.randint(1, cur)
                    d = list(range(cur - k, cur))
                    rng.shuffle(d)
                elif mode == "all":
                    d = rng.sample(range(cur), cur)
                elif mode == "none":
                    d = []
                else:
                    d = rng.sample(range(cur), rng.randint(1, cur))
                deletes.append(d)
                cur -= len(d)
            fk = rng.randint(2, m) if (m >= 2 and rng.random() < 0.25) else 0
            yield self._chol_seq(rng, A, b, ins, deletes,
                                 f"chol_seq_{'rat' if rational else 'float'}{'_warm' if fk else ''}",
                                 num="rat" if rational else "float", first_k=fk,
                                 dels_as=rng.choice(["ndarray", "list", "tuple"]))
        # (iii) _cholupdate on arbitrary upper-triangular arrays (non-zero diagonal of either sign)
        for a, bb, c in ((3, 4, 5), (5, 12, 13), (8, 15, 17), (20, 21, 29)):
            for sc in (F(1), F(1, 4), F(-2)):
                yield {"tag": "chol_update_rat", "kind": "chol", "sub": "update", "num": "rat",
                       "U": qmat([[a * sc]]), "x": qlist([bb * sc])}
        for _ in range(150 if quick else 1500):
            n = rng.randint(1, nmax)
            U = chol_R(rng, n)
            if rng.random() < 0.3:
                for i in range(n):
                    if rng.random() < 0.4:
                        U[i][i] = -U[i][i]
            x = [F(0) if rng.random() < 0.15 else gen.dyadic(rng, -4, 4, 2) for _ in range(n)]
            yield {"tag": "chol_update", "kind": "chol", "sub": "update", "num": "float", "U": qmat(U), "x": qlist(x)}
        # (iv) cholinsertlast on arbitrary upper-triangular arrays: positive / zero / negative Schur complement
        for _ in range(80 if quick else 600):
            n = rng.randint(0, nmax - 1)
            R = chol_R(rng, n + 1)
            U = [r[:n] for r in R[:n]]
            G = gram_fr(R)
            x = [G[n][j] for j in range(n + 1)]  # border of R'R: Schur complement R[n][n]^2, rational root
            cls = rng.choice(["exact", "exact", "pos", "zero", "neg"])
            if cls == "pos":
                x[n] += gen.pos_dyadic(rng, 0, 3, 3)
            elif cls == "zero":
                x[n] -= R[n][n] * R[n][n]
            elif cls == "neg":
                x[n] -= R[n][n] * R[n][n] + gen.pos_dyadic(rng, 0, 3, 3)
            yield {"tag": f"chol_insert_{cls}", "kind": "chol", "sub": "insert",
                   "num": "rat" if cls in ("exact", "neg") else "float", "U": qmat(U), "x": qlist(x)}
        # (v) choldeleteindexes on arbitrary upper-triangular arrays with positive diagonal
        for _ in range(70 if quick else 600):
            n = rng.randint(1, nmax)
            U = chol_R(rng, n)
            mode = rng.choice(["last", "first", "one", "some", "some", "all", "none", "last2"])
            if mode == "last":
                d = [n - 1]
            elif mode == "first":
                d = [0]
            elif mode == "one":
                d = [rng.randrange(n)]
            elif mode == "all":
                d = rng.sample(range(n), n)
            elif mode == "none":
                d = []
            elif mode == "last2":
                d = [n - 1] + ([n - 2] if n >= 2 else [])
                rng.shuffle(d)
            else:
                d = rng.sample(range(n), rng.randint(1, n))
            yield {"tag": f"chol_delete_{mode}", "kind": "chol", "sub": "delete",
                   "num": "rat" if mode in ("last", "last2", "none") else "float", "U": qmat(U), "indexes": d,
                   "dels_as": rng.choice(["ndarray", "list", "tuple"])}
        # (vi) cho_solve on arbitrary upper-triangular arrays (the strictly lower part is not read)
        for _ in range(60 if quick else 500):
            n = rng.randint(1, nmax)
            U = chol_R(rng, n, wide=False)
            if rng.random() < 0.3:
                for i in range(n):
                    if rng.random() < 0.4:
                        U[i][i] = -U[i][i]
            garbage = rng.random() < 0.3
            Ug = [row[:] for row in U]
            if garbage:
                for i in range(n):
                    for j in range(i):
                        Ug[i][j] = gen.dyadic(rng, -4, 4, 2)
            bb = [gen.dyadic(rng, -6, 6, 3) for _ in range(n)]
            yield {"tag": "chol_solve" + ("_lower_garbage" if garbage else ""), "kind": "chol", "sub": "solve",
                   "num": "rat", "U": qmat(Ug), "b": qlist(bb)}
        # (vii) scipy.linalg.cholesky against the bordering recursion (the first pass of fnnls_cholesky)
        for _ in range(40 if quick else 300):
            n = rng.randint(1, nmax)
            R = chol_R(rng, n)
            rational = rng.random() < 0.5
            A = gram_fr(R) if rational else spd_from_R(R, rng.sample(range(n), n))
            yield {"tag": "chol_cholesky_" + ("rat" if rational else "float"), "kind": "chol", "sub": "cholesky",
                   "num": "rat" if rational else "float", "A": qmat(A)}
        # (viii) the solver itself through its own passive-set solves in exact arithmetic: 2x2 .. 3x3 systems
        # A = R'R whose entering order is the natural one (b = A u, u > 0 decreasing fast enough)
        done = 0
        for _ in range(400 if quick else 4000):
            if done >= (16 if quick else 150):
                break
            n = rng.randint(1, 4)
            R = chol_R(rng, n)
            A = gram_fr(R)
            b = matvec(A, [(1 if rng.random() < 0.8 else -1) * gen.pos_dyadic(rng, 1, 4, 2) for _ in range(n)])
            if not natural_entering_order(A, b):
                continue  # a passive list other than [0..k) would need the root of a non-square
            done += 1
            yield {"tag": "chol_fnnls_rat", "kind": "chol", "sub": "fnnls", "A": qmat(A), "b": qlist(b)}

    LAYOUTS = ["mapper", "mapper+func", "func+mapper", "mapper+mapper", "mapper+func+mapper", "func+func+mapper",
               "func"]

    def _inversion_cases(self, rng, layouts):
        for li in range(layouts):
            H, W = rng.randint(6, 9), rng.randint(6, 9)
            m, mkind = gen.random_mask(rng, H, W, margin=2,
                                       kind=rng.choice(["all", "block", "annulus", "cross", "bernoulli"]))
            # every layout at least once per run (the parameter offset of a mapper behind other objects is
            # where index bookkeeping goes wrong), then random ones
            layout = self.LAYOUTS[li] if li < len(self.LAYOUTS) else rng.choice(self.LAYOUTS)
            if li == len(self.LAYOUTS):  # degenerate size: exactly one unmasked pixel, one function, 1x1 system
                m, mkind = gen.random_mask(rng, H, W, margin=2, kind="single")
                layout = "func"
            n_un = sum(1 for r in m for v in r if not v)
            if n_un < 3:
                layout = "func"  # a mesh needs an extended grid; single functions do not
            dmode = rng.choice(["positive", "zero_mean", "zero_mean", "negative"])
            lo, hi = {"positive": (0, 8), "zero_mean": (-4, 4), "negative": (-8, 0)}[dmode]
            # round-3 hardening: a fifth of the layouts is integer-valued and fed as int64 arrays / int lists
            ints = rng.random() < 0.2 or li == 1
            if ints:
                data = [[F(rng.randint(lo, hi)) for _ in range(W)] for _ in range(H)]
                noise = [[F(rng.randint(1, 3)) for _ in range(W)] for _ in range(H)]
                psf = [[F(rng.randint(0, 2)) for _ in range(3)] for _ in range(3)]
                psf[1][1] = F(rng.randint(1, 4))
            else:
                data = [[gen.dyadic(rng, lo, hi, 3) for _ in range(W)] for _ in range(H)]
                noise = [[gen.pos_dyadic(rng, 2, 3, 2) for _ in range(W)] for _ in range(H)]
                psf = [[F(rng.randint(0, 4), 8) for _ in range(3)] for _ in range(3)]
                psf[1][1] = F(1)
            objs = []
            # the exact model re-solves every passive-set system from scratch in big rationals (~n^4 per
            # case): keep the quick tier's systems below ~30 parameters
            smax = 4 if (self._tier == "quick" and layout.count("mapper") > 1) else 5
            for o in layout.split("+"):
                if o == "mapper":
                    objs.append({"type": "mapper", "shape": [rng.randint(3, smax), rng.randint(3, smax)],
                                 "coefficient": q(gen.pos_dyadic(rng, 1, 4, 2))})
                else:
                    k = rng.randint(1, 2)
                    k = 1 if n_un < 3 else k
                    objs.append({"type": "func", "params": k, "regularized": rng.random() < 0.3,
                                 "matrix": qmat([[(F(rng.randint(0, 4)) if ints else gen.dyadic(rng, 0, 4, 2))
                                                  for _ in range(k)] for _ in range(n_un)])})
            n_mappers = sum(1 for o in objs if o["type"] == "mapper")
            sub = rng.choice([1, 2])
            base = {"kind": "inversion", "H": H, "W": W, "mask": "".join("1" if v else "0" for r in m for v in r),
                    "data": qmat(data), "noise": qmat(noise), "psf": qmat(psf), "objs": objs, "sub": sub,
                    "scale": q(rng.choice([F(1), F(1, 2), F(2)])),
                    "ints": rng.choice(["int64", "list"]) if ints else None,
                    "via": rng.choice(["factory", "factory", "imaging_from", "class"])}
            for wt, pos, pinit, force in itertools.product([False, True], [True, False], [True, False],
                                                           [True, False]):
                if not pos and (not pinit or not force):
                    continue  # the two flags are not read by the unconstrained solver: one combination
                c = dict(base)
                c.update({"tag": f"inv_{layout}_{dmode}_wt{int(wt)}_pos{int(pos)}_p{int(pinit)}_f{int(force)}",
                          "use_w_tilde": wt, "use_positive_only_solver": pos,
                          "positive_only_uses_p_initial": pinit, "force_edge_pixels_to_zeros": force,
                          "force_edge_image": False, "image_pixels_source_zero": None})
                yield c
            # round-3 hardening: "set but falsy" / None settings crossed with the config defaults
            for pos, pinit, force in rng.sample([(None, None, True), (None, False, 0), (1, None, 1), (0, None, True),
                                                 (None, 0, False), (1, 1, 0), (None, True, 1)], 3):
                c = dict(base)
                c.update({"tag": f"inv_{layout}_{dmode}_settings_{pos!r}_{pinit!r}_{force!r}",
                          "use_w_tilde": rng.random() < 0.5, "use_positive_only_solver": pos,
                          "positive_only_uses_p_initial": pinit, "force_edge_pixels_to_zeros": force,
                          "force_edge_image": False, "image_pixels_source_zero": None})
                yield c
            if n_mappers == 1:  # force_edge_image_pixels_to_zeros with an image-pixel list
                c = dict(base)
                zs = sorted(rng.sample(range(n_un), rng.randint(1, min(3, n_un))))
                c.update({"tag": f"inv_{layout}_{dmode}_source_zero", "use_w_tilde": rng.random() < 0.5,
                          "use_positive_only_solver": True, "positive_only_uses_p_initial": rng.random() < 0.5,
                          "force_edge_pixels_to_zeros": True, "force_edge_image": True,
                          "image_pixels_source_zero": zs, "zero_as": rng.choice(["list", "ndarray"])})
                yield c
                c = dict(c)  # an explicitly empty list: nothing beyond the edge is forced
                c.update({"tag": f"inv_{layout}_{dmode}_source_zero_empty", "image_pixels_source_zero": [],
                          "zero_as": "list"})
                yield c

    # ------------------------------------------------------------------ implementation
    def run_impl(self, case):
        aa = load_autoarray()
        kind = case["kind"]
        if kind == "solver":
            from autoarray.util.fnnls import fnnls_cholesky

            n = len(case["b"])
            dt = case.get("dtype", "float64")
            A = typed(case["A"], dt, (n, n))
            b = typed(case["b"], dt, (n,))
            p = case["p_init"]
            if p is None:
                P = np.zeros(0, dtype=int)
            elif p["kind"] == "mask":
                P = np.array(p["mask"], dtype=bool)
            else:
                P = np.array(p["idx"], dtype=int)
            try:
                if case.get("omit_p_initial"):
                    d = fnnls_cholesky(A, b.copy())  # the default argument
                else:
                    d = fnnls_cholesky(A, b.copy(), P_initial=P)
            except RuntimeError:
                return {"err": "runtime"}
            except (np.linalg.LinAlgError, ValueError):
                return {"err": "singular"}
            return {"d": qlist(d)}
        if kind == "recon":
            from autoarray.inversion.inversion import inversion_util
            from autoarray import exc

            n = len(case["b"])
            cont = case.get("container", "float64")
            if cont in ("int64", "float64"):
                A = typed(case["A"], cont, (n, n))
                b = typed(case["b"], cont, (n,))
            else:  # plain Python containers of ints (posneg only: numpy.linalg.solve accepts them)
                conv = list if cont == "list" else tuple
                A = conv(conv(int(F(x)) for x in r) for r in case["A"])
                b = conv(int(F(x)) for x in case["b"])
            rconv = tuple if case.get("ranges_as") == "tuple" else list
            try:
                if case["fn"] == "posneg":
                    kw = {}
                    if "force_check" in case:
                        kw["force_check_reconstruction"] = case["force_check"]
                    s = inversion_util.reconstruction_positive_negative_from(
                        data_vector=b, curvature_reg_matrix=A,
                        mapper_param_range_list=[rconv(r) for r in case["ranges"]], **kw)
                else:
                    s = inversion_util.reconstruction_positive_only_from(
                        data_vector=b, curvature_reg_matrix=A,
                        settings=aa.SettingsInversion(positive_only_uses_p_initial=case["p_initial"]))
            except exc.InversionException:
                return {"err": "InversionException"}
            return {"s": qlist(s)}
        if kind == "chol":
            return self._run_chol(case)
        return self._run_inversion(aa, case)

    @staticmethod
    def _as_index_container(d, how):
        if how == "list":
            return [int(v) for v in d]
        if how == "tuple":
            return tuple(int(v) for v in d)
        return np.array([int(v) for v in d], dtype=int)

    def _run_chol(self, case):
        from scipy import linalg as slg

        from autoarray.util import cholesky_funcs as cf

        sub = case["sub"]
        if sub == "seq":
            n = len(case["b"])
            A = typed(case["A"], "float64", (n, n))
            b = typed(case["b"], "float64", (n,))
            U = np.zeros((0, 0))
            P = np.array([], dtype=int)
            fk = case.get("first_k", 0)
            stages = []

            def stage():
                x = slg.cho_solve((U, False), b[P]) if len(P) else np.zeros(0)
                stages.append({"U": qmat(np.asarray(U, dtype=float)), "P": [int(v) for v in P], "x": qlist(x)})

            try:
                for t, i in enumerate(case["inserts"]):
                    P = np.append(P, int(i))
                    if fk and t < fk - 1:
                        continue  # warm start: the first factor is scipy.linalg.cholesky of a k x k block
                    if fk and t == fk - 1:
                        U = slg.cholesky(A[P][:, P])
                    else:
                        U = cf.cholinsertlast(U, A[int(i)][P])
                    stage()
                for d in case["deletes"]:
                    U = cf.choldeleteindexes(U, self._as_index_container(d, case.get("dels_as", "ndarray")))
                    P = np.delete(P, [int(v) for v in d])
                    stage()
            except (ValueError, np.linalg.LinAlgError):
                return {"err": "domain"}
            return {"stages": stages}
        if sub == "update":
            U = np_mat(fr_mat(case["U"]))
            x = np_vec(fr_vec(case["x"]))
            out = cf._cholupdate(U, x)
            return {"U": qmat(np.asarray(out, dtype=float))}
        if sub == "insert":
            n = len(case["U"])
            U = np_mat(fr_mat(case["U"])) if n else np.zeros((0, 0))
            x = np_vec(fr_vec(case["x"]))
            try:
                S = cf.cholinsertlast(U, x)
            except ValueError:
                return {"err": "domain"}
            return {"U": qmat(np.asarray(S, dtype=float))}
        if sub == "delete":
            U = np_mat(fr_mat(case["U"]))
            out = cf.choldeleteindexes(U, self._as_index_container(case["indexes"], case.get("dels_as", "ndarray")))
            return {"U": qmat(np.asarray(out, dtype=float).reshape(len(out), len(out)))}
        if sub == "solve":
            U = np_mat(fr_mat(case["U"]))
            x = slg.cho_solve((U, False), np_vec(fr_vec(case["b"])))
            return {"x": qlist(x)}
        if sub == "cholesky":
            try:
                U = slg.cholesky(np_mat(fr_mat(case["A"])))
            except np.linalg.LinAlgError:
                return {"err": "domain"}
            return {"U": qmat(U)}
        if sub == "fnnls":
            from autoarray.util.fnnls import fnnls_cholesky

            n = len(case["b"])
            try:
                d = fnnls_cholesky(typed(case["A"], "float64", (n, n)), typed(case["b"], "float64", (n,)))
            except RuntimeError:
                return {"err": "runtime"}
            except (np.linalg.LinAlgError, ValueError):
                return {"err": "singular"}
            return {"d": qlist(d)}
        raise ValueError(sub)

    def _build_inversion(self, aa, case):
        H, W = case["H"], case["W"]
        sc = float(F(case["scale"]))
        m = np.array([c == "1" for c in case["mask"]], dtype=bool).reshape(H, W)
        mask = aa.Mask2D(mask=m, pixel_scales=(sc, sc))
        ints = case.get("ints")

        def vals(mat):
            if ints == "int64":
                return typed(mat, "int64")
            if ints == "list":
                return [[int(F(x)) for x in r] for r in mat]
            return np_mat(fr_mat(mat))

        data = aa.Array2D.no_mask(values=vals(case["data"]), pixel_scales=(sc, sc))
        noise = aa.Array2D.no_mask(values=vals(case["noise"]), pixel_scales=(sc, sc))
        psf = aa.Kernel2D.no_mask(values=vals(case["psf"]), pixel_scales=(sc, sc))
        sub = case["sub"]
        ds = aa.Imaging(
            data=data, noise_map=noise, psf=psf,
            over_sampling=aa.OverSamplingDataset(uniform=aa.OverSamplingUniform(sub_size=1),
                                                 pixelization=aa.OverSamplingUniform(sub_size=sub)),
        ).apply_mask(mask=mask)
        over = aa.OverSamplerUniform(mask=mask, sub_size=sub)
        grid = over.over_sampled_grid
        objs = []
        for o in case["objs"]:
            if o["type"] == "mapper":
                mesh_grid = aa.Mesh2DRectangular.overlay_grid(grid=grid, shape_native=tuple(o["shape"]))
                mg = aa.MapperGrids(mask=mask, source_plane_data_grid=grid, source_plane_mesh_grid=mesh_grid)
                objs.append(aa.MapperRectangular(
                    mapper_grids=mg, over_sampler=over, border_relocator=None,
                    regularization=aa.reg.Constant(coefficient=float(F(o["coefficient"])))))
            else:
                objs.append(aa.m.MockLinearObjFuncList(
                    parameters=o["params"], grid=aa.Grid2D.from_mask(mask=mask),
                    mapping_matrix=(typed(o["matrix"], "int64") if ints else np_mat(fr_mat(o["matrix"]))),
                    regularization=aa.reg.Constant(coefficient=1.0) if o["regularized"] else None))
        settings = aa.SettingsInversion(
            use_w_tilde=case["use_w_tilde"],
            use_positive_only_solver=case["use_positive_only_solver"],
            positive_only_uses_p_initial=case["positive_only_uses_p_initial"],
            force_edge_pixels_to_zeros=case["force_edge_pixels_to_zeros"],
            force_edge_image_pixels_to_zeros=case["force_edge_image"],
            image_pixels_source_zero=(np.array(case["image_pixels_source_zero"], dtype=int)
                                      if case.get("zero_as") == "ndarray" else case["image_pixels_source_zero"]),
        )
        via = case.get("via", "factory")
        if via == "imaging_from":
            from autoarray.inversion.inversion import factory

            return factory.inversion_imaging_from(dataset=ds, linear_obj_list=objs, settings=settings), objs
        if via == "class" and not case["use_w_tilde"]:
            return aa.InversionImagingMapping(dataset=ds, linear_obj_list=objs, settings=settings), objs
        return aa.Inversion(dataset=ds, linear_obj_list=objs, settings=settings), objs

    @staticmethod
    def _norm(case):
        """inversion case with the three solver settings resolved to what SettingsInversion reports"""
        if case.get("kind") != "inversion":
            return case
        c = dict(case)
        c["use_positive_only_solver"] = effective(case["use_positive_only_solver"], "use_positive_only_solver")
        c["positive_only_uses_p_initial"] = effective(case["positive_only_uses_p_initial"],
                                                      "positive_only_uses_p_initial")
        c["force_edge_pixels_to_zeros"] = bool(case["force_edge_pixels_to_zeros"])
        return c

    def _run_inversion(self, aa, case):
        from autoarray import exc
        from autoarray.inversion.pixelization.mappers.abstract import AbstractMapper

        inv, objs = self._build_inversion(aa, case)
        A = np.array(inv.curvature_reg_matrix, dtype=float)
        b = np.array(inv.data_vector, dtype=float)
        params = [int(o.params) for o in objs]
        starts = [sum(params[:i]) for i in range(len(params))]
        aux = {
            "A": qmat(A), "b": qlist(b), "params": params,
            "formalism": type(inv).__name__,
            "edge": [int(v) for v in inv.mapper_edge_pixel_list],
            "ranges": [[int(a), int(c)] for a, c in inv.param_range_list_from(cls=AbstractMapper)],
            "Bs": [qmat(np.asarray(B, dtype=float)) for B in inv.operated_mapping_matrix_list],
        }
        zero = []
        zero_expect = []
        if case["force_edge_image"]:
            zero = [int(v) for arr in inv.mapper_zero_pixel_list for v in np.asarray(arr)]
            for o, st in zip(objs, starts):
                if isinstance(o, AbstractMapper):
                    mm = np.asarray(o.mapping_matrix)[list(case["image_pixels_source_zero"])]
                    zero_expect += [int(j) + st for j in np.where((mm != 0).any(axis=0))[0]]
        aux["zero"] = zero
        aux["zero_expect"] = zero_expect
        obs = {"aux": aux}
        try:
            s = np.array(inv.reconstruction, dtype=float)
        except exc.InversionException:
            obs["err"] = "InversionException"
            return obs
        obs["reconstruction"] = qlist(s)
        obs["recon_dict"] = [qlist(np.asarray(inv.reconstruction_dict[o])) for o in objs]
        md = inv.mapped_reconstructed_data_dict
        obs["mapped_dict"] = [qlist(np.asarray(md[o].array if hasattr(md[o], "array") else md[o]).ravel())
                              for o in objs]
        tot = inv.mapped_reconstructed_data
        obs["mapped_total"] = qlist(np.asarray(tot.array if hasattr(tot, "array") else tot).ravel())
        # the `image` twins of the same quantities
        mi = inv.mapped_reconstructed_image_dict
        obs["image_dict"] = [qlist(np.asarray(mi[o]).ravel()) for o in objs]
        obs["image_total"] = qlist(np.asarray(inv.mapped_reconstructed_image).ravel())
        return obs

    # ------------------------------------------------------------------ model
    def model_requests(self, case, impl_obs):
        case = self._norm(case)
        kind = case["kind"]
        if kind == "solver":
            n = len(case["b"])
            return [{"op": "c05.fnnls", "A": case["A"], "b": case["b"], "tol": q(EPS * n),
                     "p_init": p_init_indices(case["p_init"])}]
        if kind == "chol":
            sub, num = case["sub"], case.get("num", "float")
            if sub == "seq":
                return [{"op": "c05.chol_seq", "num": num, "A": case["A"], "b": case["b"],
                         "inserts": case["inserts"], "deletes": case["deletes"]}]
            if sub == "update":
                return [{"op": "c05.cholupdate", "num": num, "U": case["U"], "x": case["x"]}]
            if sub == "insert":
                return [{"op": "c05.cholinsertlast", "num": num, "U": case["U"], "x": case["x"]}]
            if sub == "delete":
                return [{"op": "c05.choldelete", "num": num, "U": case["U"], "indexes": case["indexes"]}]
            if sub == "solve":
                return [{"op": "c05.cho_solve", "num": num, "U": case["U"], "b": case["b"]}]
            if sub == "cholesky":
                return [{"op": "c05.cholesky", "num": num, "A": case["A"]}]
            return [{"op": "c05.fnnls_chol", "A": case["A"], "b": case["b"], "tol": q(EPS * len(case["b"]))}]
        if kind == "recon":
            return [{"op": "c05.reconstruction", "A": case["A"], "b": case["b"], "eps": q(EPS),
                     "atol": q(1e-8), "rtol": q(1e-5),
                     "use_positive_only_solver": case["fn"] == "posonly",
                     "positive_only_uses_p_initial": effective(case.get("p_initial", False),
                                                               "positive_only_uses_p_initial"),
                     "force_edge_pixels_to_zeros": False, "mapper_ranges": case.get("ranges", [])}]
        aux = impl_obs["aux"]
        reqs = [{"op": "c05.reconstruction", "A": aux["A"], "b": aux["b"], "eps": q(EPS),
                 "atol": q(1e-8), "rtol": q(1e-5),
                 "use_positive_only_solver": case["use_positive_only_solver"],
                 "positive_only_uses_p_initial": case["positive_only_uses_p_initial"],
                 "force_edge_pixels_to_zeros": case["force_edge_pixels_to_zeros"],
                 "force_edge_image_pixels_to_zeros": case["force_edge_image"],
                 "edge": aux["edge"], "zero": aux["zero"], "mapper_ranges": aux["ranges"]}]
        if "reconstruction" in impl_obs:
            reqs.append({"op": "c05.mapped_data", "Bs": aux["Bs"], "s": impl_obs["reconstruction"],
                         "m": len(aux["Bs"][0]) if aux["Bs"] else 0})
        return reqs

    def model_obs(self, case, responses):
        kind = case["kind"]
        r = responses[0]
        if kind == "solver":
            return r["ok"] if "ok" in r else {"err": r["err"]}
        if kind == "chol":
            if "err" in r:
                return {"err": r["err"]}
            sub = case["sub"]
            if sub == "seq":
                return {"stages": r["ok"]}
            if sub == "solve":
                return {"x": r["ok"]}
            if sub == "fnnls":
                return r["ok"]
            return {"U": r["ok"]}
        err = None
        if "err" in r:
            err = "InversionException" if r["err"] in ("singular", "degenerate", "empty", "runtime") else r["err"]
        if kind == "recon":
            return {"err": err, "why": r["err"]} if err else {"s": r["ok"]}
        if err:
            return {"err": err, "why": r["err"]}
        out = {"reconstruction": r["ok"]}
        if len(responses) > 1 and "ok" in responses[1]:
            out["mapped_dict"] = responses[1]["ok"]["dict"]
            out["mapped_total"] = responses[1]["ok"]["total"]
        return out

    def compare(self, case, impl_obs, model_obs, cmp: Cmp):
        kind = case["kind"]
        if kind == "chol":
            if model_obs.get("err") == "irrational":
                raise Skip("a square root met by the exact model is irrational")
            if case["sub"] == "fnnls" and model_obs.get("err") == "singular":
                raise Skip("the entering order meets an irrational root (exact model reports singular)")
        ierr, merr = impl_obs.get("err"), model_obs.get("err")
        if ierr or merr:
            if ierr == merr:
                cmp.exact += 1
                return None
            return f"$.err: impl={ierr!r} model={merr!r} ({model_obs.get('why', '')})"
        if kind == "chol":
            return self._compare_chol(case, impl_obs, model_obs, cmp)
        if kind == "solver":
            A, b = fr_mat(case["A"]), fr_vec(case["b"])
            md = model_obs["d"]
            if not model_obs.get("kkt", True):
                # the model left through no_update / with a non-certified result: nothing exact to compare with
                raise Skip("model result not KKT-certified")
            return diff_vec(cmp, impl_obs["d"], md, rel_tol(A) * sol_scale(A, b, md), "$.d")
        if kind == "recon":
            A, b = fr_mat(case["A"]), fr_vec(case["b"])
            return diff_vec(cmp, impl_obs["s"], model_obs["s"], rel_tol(A) * sol_scale(A, b, model_obs["s"]), "$.s")
        aux = impl_obs["aux"]
        A, b = fr_mat(aux["A"]), fr_vec(aux["b"])
        ms = model_obs["reconstruction"]
        d = diff_vec(cmp, impl_obs["reconstruction"], ms, rel_tol(A) * sol_scale(A, b, ms), "$.reconstruction")
        if d:
            return d
        if "mapped_dict" in model_obs:
            if len(model_obs["mapped_dict"]) != len(impl_obs["mapped_dict"]):
                return "$.mapped_dict: number of linear objects differs"
            allv = [abs(F(v)) for img in model_obs["mapped_dict"] for v in img] + [F(1, 2**40)]
            tol = REL_MAP * max(allv)
            for k, (a, mo) in enumerate(zip(impl_obs["mapped_dict"], model_obs["mapped_dict"])):
                d = diff_vec(cmp, a, mo, tol, f"$.mapped_dict[{k}]")
                if d:
                    return d
            return diff_vec(cmp, impl_obs["mapped_total"], model_obs["mapped_total"], tol * len(allv),
                            "$.mapped_total")
        return None

    # ------------------------------------------------------------------ Cholesky: comparison and oracle
    @staticmethod
    def _diff_mat(cmp, Ui, Um, rel, path):
        if len(Ui) != len(Um):
            return f"{path}: impl is {len(Ui)} rows, model {len(Um)}"
        scale = max([abs(F(x)) for r in Um for x in r] + [F(1, 2**40)])
        for i, (ri, rm) in enumerate(zip(Ui, Um)):
            d = diff_vec(cmp, ri, rm, rel * scale, f"{path}[{i}]")
            if d:
                return d
        return None

    def _compare_chol(self, case, impl_obs, model_obs, cmp):
        sub = case["sub"]
        if sub == "seq":
            A = fr_mat(case["A"])
            ms = model_obs["stages"][max(0, case.get("first_k", 0) - 1):]
            if len(ms) != len(impl_obs["stages"]):
                return f"$.stages: impl has {len(impl_obs['stages'])} stages, model {len(ms)}"
            b = fr_vec(case["b"])
            for k, (si, sm) in enumerate(zip(impl_obs["stages"], ms)):
                if si["P"] != sm["P"]:
                    return f"$.stages[{k}].P: impl={si['P']} model={sm['P']}"
                P = si["P"]
                App = [[A[i][j] for j in P] for i in P]
                rel = chol_tol(App)
                if rel is None or rel > F(1, 10**5):
                    raise Skip("ill-conditioned principal submatrix")
                d = self._diff_mat(cmp, si["U"], sm["U"], rel, f"$.stages[{k}].U")
                if d:
                    return d
                d = diff_vec(cmp, si["x"], sm["x"], rel * sol_scale(App, [b[i] for i in P], sm["x"]),
                             f"$.stages[{k}].x")
                if d:
                    return d
            return None
        if sub == "solve":
            U = fr_mat(case["U"])
            n = len(U)
            G = [[sum((U[k][i] * U[k][j] for k in range(min(i, j) + 1)), F(0)) for j in range(n)] for i in range(n)]
            rel = chol_tol(G)
            if rel is None or rel > F(1, 10**5):
                raise Skip("ill-conditioned factor")
            return diff_vec(cmp, impl_obs["x"], model_obs["x"], rel * sol_scale(G, fr_vec(case["b"]), model_obs["x"]),
                            "$.x")
        if sub == "fnnls":
            A, b = fr_mat(case["A"]), fr_vec(case["b"])
            return diff_vec(cmp, impl_obs["d"], model_obs["d"], rel_tol(A) * sol_scale(A, b, model_obs["d"]), "$.d")
        if sub == "cholesky":
            rel = chol_tol(fr_mat(case["A"]))
            if rel is None or rel > F(1, 10**5):
                raise Skip("ill-conditioned matrix")
            return self._diff_mat(cmp, impl_obs["U"], model_obs["U"], rel, "$.U")
        # update / insert / delete: the same float operations in the same order up to the LAPACK substitution
        return self._diff_mat(cmp, impl_obs["U"], model_obs["U"], F(1, 10**9), "$.U")

    def _oracle_chol(self, case, obs):
        sub = case["sub"]
        if sub == "seq":
            if "err" in obs:
                return False, "the factor update raised on a positive-definite system"
            A, b = fr_mat(case["A"]), fr_vec(case["b"])
            fk = case.get("first_k", 0)
            want, P = [], []
            for t, i in enumerate(case["inserts"]):
                P = P + [int(i)]
                if not (fk and t < fk - 1):
                    want.append(list(P))
            for d in case["deletes"]:
                P = np_delete_positions(P, d)
                want.append(list(P))
            if [s["P"] for s in obs["stages"]] != want:
                return False, "the passive list kept next to the factor is not the expected one"
            for k, (s, P) in enumerate(zip(obs["stages"], want)):
                U = s["U"]
                if len(U) != len(P):
                    return False, f"stage {k}: factor is {len(U)}x{len(U)} for {len(P)} passive indices"
                e = upper_posdiag(U)
                if e:
                    return False, f"stage {k}: {e}"
                App = [[A[i][j] for j in P] for i in P]
                e = gram_matches(U, App, k, f"stage {k} (P = {P})")
                if e:
                    return False, e
                if P:
                    ok, det = self._solves(App, [b[i] for i in P], fr_vec(s["x"]))
                    if not ok:
                        return False, f"stage {k}: cho_solve through the factor: " + det
            return True, ""
        if sub == "update":
            U, x = fr_mat(case["U"]), fr_vec(case["x"])
            n = len(x)
            e = upper_posdiag(obs["U"])
            if e:
                return False, e
            G = gram_fr(U)
            M = [[G[i][j] + x[i] * x[j] for j in range(n)] for i in range(n)]
            e = gram_matches(obs["U"], M, 1, "_cholupdate: U'^T U' = U^T U + x x^T")
            return (e is None), (e or "")
        if sub == "insert":
            U, x = fr_mat(case["U"]), fr_vec(case["x"])
            n = len(U)
            G = gram_fr(U) if n else []
            # Schur complement in exact arithmetic: x[n] - |S12|^2 with U'S12 = x[:n]
            S12 = []
            for i in range(n):
                S12.append((x[i] - sum((U[k][i] * S12[k] for k in range(i)), F(0))) / U[i][i])
            t = x[n] - sum((v * v for v in S12), F(0))
            if "err" in obs:
                return (t < 0 or abs(t) < F(1, 10**9)), "cholinsertlast raised although the Schur complement is positive"
            if t <= F(1, 10**9):
                return True, ""  # negative / zero Schur complement: no factor exists, nothing to state
            e = upper_posdiag(obs["U"])
            if e:
                return False, e
            M = [[(G[i][j] if (i < n and j < n) else x[min(i, j)]) for j in range(n + 1)] for i in range(n + 1)]
            e = gram_matches(obs["U"], M, 1, "cholinsertlast: S^T S = bordered matrix")
            return (e is None), (e or "")
        if sub == "delete":
            U = fr_mat(case["U"])
            keep = np_delete_positions(list(range(len(U))), case["indexes"])
            e = upper_posdiag(obs["U"])
            if e:
                return False, e
            G = gram_fr(U)
            M = [[G[i][j] for j in keep] for i in keep]
            e = gram_matches(obs["U"], M, len(case["indexes"]), f"choldeleteindexes (kept positions {keep})")
            return (e is None), (e or "")
        if sub == "solve":
            U = fr_mat(case["U"])
            n = len(U)
            Uu = [[U[i][j] if j >= i else F(0) for j in range(n)] for i in range(n)]
            G = gram_fr(Uu)
            x, b = fr_vec(obs["x"]), fr_vec(case["b"])
            Gabs = gram_fr([[abs(v) for v in r] for r in Uu])
            gx = matvec(Gabs, [abs(v) for v in x])
            Gx = matvec(G, x)
            for i in range(n):
                slack = F(1, 10**10) * n * (gx[i] + abs(b[i]))
                if abs(Gx[i] - b[i]) > slack:
                    return False, f"cho_solve: (U'U x - b)[{i}] = {float(Gx[i]-b[i])!r} (slack {float(slack):.3e})"
            return True, ""
        if sub == "cholesky":
            if "err" in obs:
                return False, "scipy.linalg.cholesky raised on a positive-definite matrix"
            e = upper_posdiag(obs["U"])
            if e:
                return False, e
            e = gram_matches(obs["U"], fr_mat(case["A"]), len(case["A"]), "cholesky")
            return (e is None), (e or "")
        if "err" in obs:
            return False, f"fnnls_cholesky raised ({obs['err']}) on an SPD system"
        A, b = fr_mat(case["A"]), fr_vec(case["b"])
        return kkt_check(A, b, fr_vec(obs["d"]), F(EPS * len(b)))

    # ------------------------------------------------------------------ oracle
    def oracle(self, case, obs):
        kind = case["kind"]
        if kind == "chol":
            return self._oracle_chol(case, obs)
        if kind == "solver":
            if "err" in obs:
                return False, f"fnnls_cholesky raised ({obs['err']}) on an SPD system"
            A, b = fr_mat(case["A"]), fr_vec(case["b"])
            return kkt_check(A, b, fr_vec(obs["d"]), F(EPS * len(b)))
        if kind == "recon":
            A, b = fr_mat(case["A"]), fr_vec(case["b"])
            n = len(b)
            tag = case["tag"]
            if case["fn"] == "posneg":
                # "(F+H)s = D to numerical precision, or an inversion exception is raised": the statement
                # allows the exception (singular system, or the code's all-values-equal check, which also
                # fires for a mapper with a single parameter); WHEN it is raised is left to the
                # correspondence with the model.
                if "err" in obs:
                    return True, ""
                return self._solves(A, b, fr_vec(obs["s"]))
            outside = ("singular" in tag) or ("empty" in tag)  # not SPD: outside the quantifier
            if "err" in obs:
                return (True, "") if outside else (False, "InversionException on a positive-definite system")
            if outside:
                return True, ""
            s = fr_vec(obs["s"])
            if case["fn"] == "posonly":
                return kkt_check(A, b, s, F(EPS * n))
            return self._solves(A, b, s)
        return self._oracle_inversion(case, obs)

    @staticmethod
    def _solves(A, b, s):
        if len(s) != len(b):
            return False, "solution length differs from the system size"
        As = matvec(A, s)
        amax = max((abs(x) for r in A for x in r), default=F(0))
        slack = KKT_SLACK * (amax * sum(abs(x) for x in s) + max((abs(x) for x in b), default=F(0)))
        for i in range(len(b)):
            if abs(As[i] - b[i]) > slack:
                return False, f"((F+H)s - D)[{i}] = {float(As[i]-b[i])!r} (slack {float(slack):.3e})"
        return True, ""

    def _oracle_inversion(self, case, obs):
        case = self._norm(case)
        aux = obs["aux"]
        A, b = fr_mat(aux["A"]), fr_vec(aux["b"])
        n = len(b)
        params = aux["params"]
        starts = [sum(params[:i]) for i in range(len(params))]
        ids = set()
        if case["use_positive_only_solver"] and case["force_edge_pixels_to_zeros"]:
            for o, st in zip(case["objs"], starts):
                if o["type"] == "mapper":
                    ids |= {st + e for e in rect_edge(o["shape"])}
            if case["force_edge_image"]:
                ids |= set(aux["zero_expect"])
        if "err" in obs:
            if not case["use_positive_only_solver"]:
                return True, ""  # the statement allows the exception for the unconstrained solver
            if len(ids) == n:
                return True, ""  # every parameter forced to zero: the reduced system is empty (the code's
                #                  documented `len(data_vector) == 0` exception), nothing left to optimise
            return False, "InversionException on a positive-definite system"
        s = fr_vec(obs["reconstruction"])
        if len(s) != n or sum(params) != n:
            return False, "reconstruction length differs from the total number of parameters"
        if case["use_positive_only_solver"]:
            for i in sorted(ids):
                if s[i] != 0:
                    return False, f"parameter {i} is forced to zero by the settings but is {float(s[i])!r}"
            keep = [i for i in range(n) if i not in ids]
            Ar = [[A[i][j] for j in keep] for i in keep]
            br = [b[i] for i in keep]
            ok, det = kkt_check(Ar, br, [s[i] for i in keep], F(EPS * len(keep)))
            if not ok:
                return False, "reduced system: " + det
        else:
            ok, det = self._solves(A, b, s)
            if not ok:
                return False, det
        # per-object slices and mapped data
        Bs = [fr_mat(B) for B in aux["Bs"]]
        total = None
        scale = F(1, 2**40)
        imgs = []
        for k, (st, p) in enumerate(zip(starts, params)):
            sl = s[st:st + p]
            if fr_vec(obs["recon_dict"][k]) != sl:
                return False, f"reconstruction_dict entry {k} is not the slice [{st}:{st+p}] of the reconstruction"
            img = matvec(Bs[k], sl)
            imgs.append(img)
            scale = max([scale] + [abs(v) for v in img])
            total = img if total is None else [x + y for x, y in zip(total, img)]
        tol = REL_MAP * scale
        for k, img in enumerate(imgs):
            got = fr_vec(obs["mapped_dict"][k])
            if len(got) != len(img) or any(abs(x - y) > tol for x, y in zip(got, img)):
                return False, f"mapped data of linear object {k} is not its blurred mapping matrix times its slice of s"
        got = fr_vec(obs["mapped_total"])
        if len(got) != len(total) or any(abs(x - y) > tol * (len(imgs) + 1) for x, y in zip(got, total)):
            return False, "total mapped reconstructed data is not the sum over the linear objects"
        if obs.get("image_dict") != obs["mapped_dict"] or obs.get("image_total") != obs["mapped_total"]:
            return False, "mapped_reconstructed_image(_dict) differs from mapped_reconstructed_data(_dict)"
        return True, ""

    # ------------------------------------------------------------------ bookkeeping
    def nontrivial(self, case, obs):
        kind = case["kind"]
        if "err" in obs:
            return True
        if kind == "chol":
            if case["sub"] == "seq":  # at least one deletion that is not the last position (runs _cholupdate)
                cur = len(case["inserts"])
                for d in case["deletes"]:
                    if any(int(v) != cur - 1 - k for k, v in enumerate(sorted(d, reverse=True))):
                        return True
                    cur -= len(d)
                return len(case["inserts"]) >= 2
            return len(case.get("U", case.get("A", []))) >= 2
        if kind == "solver":
            d = fr_vec(obs["d"])
            return any(x == 0 for x in d) and any(x > 0 for x in d)
        if kind == "recon":
            s = fr_vec(obs["s"])
            return case["fn"] == "posneg" or (any(x == 0 for x in s) and any(x > 0 for x in s))
        s = fr_vec(obs["reconstruction"])
        return any(x == 0 for x in s) or any(x < 0 for x in s)

    def known_finding(self, case, obs):
        """D4c: on a system whose exact optimum is degenerate (a zero entry with zero gradient) rounding
        noise in w can exceed the absolute tolerance 2.2204e-16*n and the float active-set iteration
        cycles until the 10000-iteration guard raises.  Input class: degenerate optimum (decided in exact
        arithmetic on the input); only the exception outcome belongs to the finding — a non-optimal
        *returned* solution on the same input is still reported."""
        case = self._norm(case)
        if case.get("fn") == "posneg" or case.get("kind") == "chol":
            return None
        if not (isinstance(obs, dict) and obs.get("err") in ("runtime", "InversionException")):
            return None
        if case["kind"] == "inversion":
            if not case["use_positive_only_solver"] or "aux" not in obs:
                return None
            aux = obs["aux"]
            A, b = fr_mat(aux["A"]), fr_vec(aux["b"])
            ids = set()
            if case["force_edge_pixels_to_zeros"]:
                starts = [sum(aux["params"][:i]) for i in range(len(aux["params"]))]
                for o, st in zip(case["objs"], starts):
                    if o["type"] == "mapper":
                        ids |= {st + e for e in rect_edge(o["shape"])}
                ids |= set(aux.get("zero_expect", []))
            keep = [i for i in range(len(b)) if i not in ids]
            A, b = [[A[i][j] for j in keep] for i in keep], [b[i] for i in keep]
        else:
            A, b = fr_mat(case["A"]), fr_vec(case["b"])
        if not b or exact_solve(A, b) is None:
            return None
        return "D4c" if degenerate_optimum(A, b) else None

    def shrink(self, case):
        if case["kind"] not in ("solver", "recon") or case.get("fn") == "posneg":
            return
        A, b = case["A"], case["b"]
        n = len(b)
        if n <= 1:
            return
        for i in range(n):
            keep = [k for k in range(n) if k != i]
            c = dict(case)
            c["A"] = [[A[r][k] for k in keep] for r in keep]
            c["b"] = [b[k] for k in keep]
            if case["kind"] == "solver" and case["p_init"] is not None:
                p = case["p_init"]
                if p["kind"] == "mask":
                    c["p_init"] = {"kind": "mask", "mask": [p["mask"][k] for k in keep]}
                else:
                    idx = [(j if j < i else j - 1) for j in p["idx"] if j != i]
                    if not idx:
                        continue
                    c["p_init"] = {"kind": "idx", "idx": idx}
            yield c

    def sample_view(self, case):
        if case["kind"] == "inversion":
            return {k: v for k, v in case.items() if k not in ("_impl",)}
        return dict(case)

    def theorems_for(self, case):
        kind = case["kind"]
        if kind == "chol":
            return {"seq": ["C05.chol_insertlast_passive_list", "C05.chol_deleteindexes_exact",
                            "C05.chol_cho_solve_factor", "C05.chol_carried_factor_exact"],
                    "update": ["C05.chol_update_rank_one"], "insert": ["C05.chol_insertlast_exact"],
                    "delete": ["C05.chol_deleteindexes_exact", "C05.chol_update_rank_one"],
                    "solve": ["C05.chol_cho_solve_solves"], "cholesky": ["C05.chol_solver_complete_pd"],
                    "fnnls": ["C05.chol_fnnls_main_exit_kkt", "C05.chol_terminates_exact"]}[case["sub"]]
        if kind == "solver":
            return ["C05.b_fnnls_main_exit_kkt", "C05.a_kkt_is_global_minimum", "C05.a_minimiser_unique"]
        if kind == "recon":
            return ["C05.c_unconstrained_solves", "C05.b_fnnls_main_exit_kkt"]
        return ["C05.d_forced_zeros", "C05.e_mapped_data_sum", "C05.b_fnnls_main_exit_kkt"]


CHECK = C05()
